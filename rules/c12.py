"""C12 — ballot-editing utilities: structural clauses (DESIGN §5/C12)."""
from __future__ import annotations

import ast
import re

from vk import astx, numkind
from vk.report import shape_rule
from vk.algebra import Normalizer, bool_key, literals, spec_rat, NotClosedForm
from vk.orderpipe import OrderPipe, ORD, NEW, UNORD, UNK
from vk.loader import AnalysisError

EXPLANATION = (
    "Filter-polarity, order-pipeline, weight-provenance and exactness rules over remove_cand, "
    "add_missing_cands, expand_tied_ballot, resolve_profile_ties and the cleaning module. Decides: a "
    "candidate is kept iff it is not in the removed set (every filter site); the ranking handed to "
    "each rebuilt Ballot derives from the source ranking through order-preserving steps only, "
    "positions are regrouped from their own members; the result weight is a copy of the source "
    "weight, weight/k! over itertools.permutations of the same tied position, a sum of source "
    "weights, or Fraction(0) for an exhausted ballot; ballots are dropped only by the documented "
    "filters; no float is created by the library on these paths. Does NOT decide per-ranking weight "
    "totals on all inputs."
)
EXPLANATION += " Also decided (prerequisites and later clauses): Ballot's weight validator leaves an exact Fraction as it is (C11.R2)."
ASSUMPTIONS = ["itertools.permutations yields every arrangement exactly once (trusted primitive)",
               "Ballot.weight is a Fraction (field type + validator, checked in C11.R2)"]
TRUSTED = ["itertools.permutations", "fractions.Fraction"]

REBUILDERS = ["remove_cand", "add_missing_cands", "expand_tied_ballot"]


def _cleaning_helpers(prog):
    out = []
    for outer, inner in (("deduplicate_profiles", "deduplicate_ballots"), ("remove_noncands", "remove_from_ballots")):
        out.append(prog.nested_func(prog.find_func(outer), inner))
    return out


def _all_rebuilders(prog):
    return [prog.find_func(n) for n in REBUILDERS] + _cleaning_helpers(prog)


# --------------------------------------------------------------------------------------------- R1

def _comprehension_rebuild(f):
    """new_ranking = [frozenset(g) for g in (<members of s that stay> for s in b.ranking) if g]: the per-position rebuild as
    nested comprehensions.  Returns (keeps non-empty groups only, each group built from one source position only) or None."""
    for n in astx.walk_own(f.node):
        if not (isinstance(n, astx.LCOMP) and len(n.generators) == 1 and isinstance(n.generators[0].target, ast.Name)):
            continue
        g = n.generators[0]
        x = g.target.id
        if not (isinstance(n.elt, ast.Call) and astx.call_name(n.elt) == "frozenset" and n.elt.args and astx.is_name(n.elt.args[0], x)):
            continue
        mid = astx.strip_wrappers(g.iter, ("tuple", "list"))
        if not (isinstance(mid, astx.LCOMP) and len(mid.generators) == 1 and astx.u(mid.generators[0].iter).endswith(".ranking") and not mid.generators[0].ifs):
            continue
        s_ = astx.u(mid.generators[0].target)
        inner = astx.strip_wrappers(mid.elt, ("tuple", "list"))
        if not (isinstance(inner, astx.LCOMP) and len(inner.generators) == 1):
            continue
        own = astx.u(inner.generators[0].iter) == s_ and astx.is_name(inner.elt, getattr(inner.generators[0].target, "id", None))
        keeps = [astx.u(t) for t in g.ifs] == [x]
        return keeps, own
    return None


def r1_filter_polarity(ctx):
    prog = ctx.prog
    f = prog.find_func("remove_cand")
    removed = f.params[0]
    N = Normalizer(f.node, inline=False)
    pm = astx.parents(f.node)
    sites = 0
    # appends guarded by membership in `removed`
    for c in astx.calls_in(f.node, "append"):
        lits = literals(N.conj(astx.path_condition(f.node, c, pm)))
        rel = [l for l in lits if f", {removed})" in l and "in(" in l]
        if not rel:
            continue
        sites += 1
        arg = astx.u(c.args[0])
        ctx.check(rel == [f"not in({arg}, {removed})"], f, c, f"candidate kept iff not in {removed}", str(rel),
                  f"`{astx.u(c)}` executes under {rel}; documented: keep `{arg}` iff it is not being removed")
    # keyed stores guarded by membership (a filtered mapping built by a loop)
    for n in astx.walk_own(f.node):
        if isinstance(n, ast.Assign) and isinstance(n.targets[0], ast.Subscript) and not isinstance(n.targets[0].slice, ast.Slice):
            lits = literals(N.conj(astx.path_condition(f.node, n, pm)))
            rel = [l for l in lits if f", {removed})" in l and "in(" in l]
            if not rel:
                continue
            sites += 1
            arg = astx.u(n.targets[0].slice)
            ctx.check(rel == [f"not in({arg}, {removed})"], f, n, f"entry kept iff its key is not in {removed}", str(rel),
                      f"`{astx.u(n)}` executes under {rel}; documented: keep `{arg}` iff it is not being removed")
    for n in astx.walk_own(f.node):
        if isinstance(n, (ast.ListComp, ast.DictComp, ast.GeneratorExp, ast.SetComp)):
            for g in n.generators:
                for t in g.ifs:
                    if removed in {x.id for x in ast.walk(t) if isinstance(x, ast.Name)}:
                        sites += 1
                        kept = astx.u(n.key) if isinstance(n, ast.DictComp) else astx.u(n.elt)
                        k = bool_key(Normalizer(None, inline=False).guard(t))
                        ctx.check(k == f"not in({kept}, {removed})", f, n, f"comprehension keeps {kept} iff not in {removed}", k,
                                  f"filter `{astx.u(t)}` normalises to `{k}`; documented: keep iff not removed")
    if sites < 3:
        ctx.violated(f, f.node, "remove_cand filter sites", f"only {sites} membership filters found (ranking, scores, candidates expected)")
    # `removed` may be a single name: it must be wrapped into a list before any `in removed` test,
    # otherwise membership degrades to a substring test on the candidate's name
    ann = astx.u(f.param_annotation(removed)) if f.param_annotation(removed) is not None else ""
    first_use = min((n.lineno for n in astx.walk_own(f.node) if isinstance(n, ast.Compare) and isinstance(n.ops[0], (ast.In, ast.NotIn))
                     and astx.is_name(n.comparators[0], removed)), default=10 ** 9)
    wraps = []
    for n in astx.walk_own(f.node):
        if isinstance(n, ast.Assign) and astx.is_name(n.targets[0], removed) and isinstance(n.value, (ast.List, ast.Tuple, ast.Set)) and len(n.value.elts) == 1 \
                and astx.is_name(n.value.elts[0], removed):
            lits = literals(N.conj(astx.path_condition(f.node, n, pm)))
            if lits == {f"truthy(isinstance({removed}, str))"} and n.lineno < first_use:
                wraps.append(n)
    ctx.check(len(wraps) == 1 or "str" not in ann, f, wraps[0] if wraps else f.node, f"a single candidate name is wrapped into a list before any `in {removed}` test", ann,
              f"`{removed}: {ann}` can be a bare string, but no `if isinstance({removed}, str): {removed} = [{removed}]` precedes the membership tests: "
              "`c not in removed` would be a substring test (removing 'Leeson' also strikes 'Lee')")
    # empty positions are dropped, non-empty ones kept
    apps = [c for c in astx.calls_in(f.node, "append") if isinstance(c.args[0], ast.Call) and astx.call_name(c.args[0]) == "frozenset"]
    good = False
    for c in apps:
        lits = literals(N.conj(astx.path_condition(f.node, c, pm)))
        inner = astx.u(c.args[0].args[0])
        good = f"truthy({inner})" in lits
    if not apps:
        cr = _comprehension_rebuild(f)
        good = cr is not None and cr[0]
    ctx.check(good, f, apps[0] if apps else f.node, "a position is kept iff it still has members", "", "emptied positions are not dropped (or non-empty ones are)")
    # cleaning helpers
    h = prog.nested_func(prog.find_func("remove_noncands"), "remove_from_ballots")
    Nh = Normalizer(h.node, inline=False)
    pmh = astx.parents(h.node)
    kept = [c for c in astx.calls_in(h.node, "append") if astx.u(c.func.value) != "to_remove"]
    good = False
    d = ""
    for c in kept:
        arg = astx.u(c.args[0])
        lits = {l for l in literals(Nh.conj(astx.path_condition(h.node, c, pmh))) if f"({arg}," in l}
        tgt = astx.u(c.func.value)
        d = str(sorted(lits))
        good = lits == {f"not in({arg}, to_remove)", f"not in({arg}, {tgt})"}
    ctx.check(good, h, kept[0] if kept else h.node, "remove_noncands keeps a position iff not a non-candidate and not already kept", d,
              f"position kept under {d}")
    # to_remove is built as {item} for every non-candidate
    from vk.listform import build_of
    bo = build_of(h.node, ast.Name(id="to_remove", ctx=ast.Load()))
    good = bo is not None and bo.kind == "map" and not bo.conditional and isinstance(bo.elt, ast.Set) and len(bo.elt.elts) == 1 and astx.u(bo.elt.elts[0]) == bo.var
    ctx.check(good, h, bo.node if bo is not None else h.node,
              "non-candidates compared as singleton positions", astx.u(bo.elt) if bo is not None else "", "the removal list is not the set of singleton positions of the non-candidates")
    h = prog.nested_func(prog.find_func("deduplicate_profiles"), "deduplicate_ballots")
    Nh = Normalizer(h.node, inline=False)
    pmh = astx.parents(h.node)
    kept = astx.calls_in(h.node, "append")
    good = False
    for c in kept:
        arg = astx.u(c.args[0])
        lits = {l for l in literals(Nh.conj(astx.path_condition(h.node, c, pmh))) if f"({arg}," in l}
        tgt = astx.u(c.func.value)
        d = str(sorted(lits))
        good = f"not in({arg}, {tgt})" in lits and all(l.startswith("in(") or l == f"not in({arg}, {tgt})" for l in lits)
    ctx.check(good, h, kept[0] if kept else h.node, "deduplicate keeps the first occurrence of every position", d, f"position kept under {d}")


# --------------------------------------------------------------------------------------------- R2
def ranking_sinks(prog, f):
    """(call, ranking expr) for every Ballot(...) built in f with a ranking argument."""
    out = []
    for c in astx.calls_in(f.node, "Ballot"):
        q = prog.resolve_expr(f.module, c.func)
        if not (q and q.endswith(".Ballot")):
            continue
        r = next((k.value for k in c.keywords if k.arg == "ranking"), None)
        if r is None and c.args:
            r = c.args[0]
        if r is not None:
            out.append((c, r))
    return out


def check_order(ctx, prog, f, what=""):
    op = OrderPipe(f.node)
    n = 0
    for c, r in ranking_sinks(prog, f):
        n += 1
        cls, why = op.classify(r)
        label = f"{f.short}: Ballot(ranking={astx.u(r)[:40]}) keeps the source order"
        if cls == ORD:
            ctx.ok(f, c, label, why)
        elif cls == UNK:
            ctx.undecided(f, c, label, f"shape outside the order-preserving idioms: {why}")
        else:
            ctx.violated(f, c, f"{f.short}: rebuilt ranking does not preserve the source order",
                         f"ranking argument `{astx.u(r)[:60]}` is {cls}: {why}")
    return n


def r2_order(ctx):
    prog = ctx.prog
    total = 0
    for f in _all_rebuilders(prog):
        total += check_order(ctx, prog, f)
    # regrouping: a rebuilt position contains only members of the same source position
    f = prog.find_func("remove_cand")
    pm = astx.parents(f.node)
    apps = [c for c in astx.calls_in(f.node, "append") if isinstance(c.args[0], ast.Call) and astx.call_name(c.args[0]) == "frozenset"]
    good = False
    d = ""
    if len(apps) == 1:
        inner = apps[0].args[0].args[0]
        loops = [l for l in astx.enclosing_loops(apps[0], pm, f.node) if isinstance(l, ast.For)]
        if loops:
            pos_loop = loops[0]
            pos = astx.u(pos_loop.target)
            if isinstance(inner, ast.Name):
                mem_apps = [c for c in astx.calls_in(f.node, "append") if astx.is_name(c.func.value, inner.id)]
                defs = astx.defs_of(f.node, inner.id)
                if mem_apps:
                    ok_all = True
                    for m in mem_apps:
                        ml = [l for l in astx.enclosing_loops(m, pm, f.node) if isinstance(l, ast.For)]
                        ok_all = ok_all and bool(ml) and astx.u(ml[0].iter) == pos and astx.is_name(m.args[0], getattr(ml[0].target, "id", None))
                    inits = [st for st, dv in defs if isinstance(dv, ast.List) and not dv.elts and pm.get(st) is pos_loop]
                    good = ok_all and bool(inits) and len(defs) == len(inits)
                else:
                    comps = [dv for st, dv in defs if isinstance(dv, (ast.ListComp, ast.SetComp, ast.GeneratorExp)) and pm.get(st) is pos_loop]
                    empties = [dv for st, dv in defs if isinstance(dv, ast.List) and not dv.elts]
                    good = len(comps) == 1 and len(comps) + len(empties) == len(defs) and len(comps[0].generators) == 1 and astx.u(comps[0].generators[0].iter) == pos \
                        and astx.is_name(comps[0].elt, getattr(comps[0].generators[0].target, "id", None))
            elif isinstance(inner, (ast.ListComp, ast.SetComp, ast.GeneratorExp)):
                good = len(inner.generators) == 1 and astx.u(inner.generators[0].iter) == pos and astx.is_name(inner.elt, getattr(inner.generators[0].target, "id", None))
            d = f"rebuilt position collects members of `{pos}` only and is reset per position"
    if not apps:
        cr = _comprehension_rebuild(f)
        good = cr is not None and cr[1]
        d = "each rebuilt position is a comprehension over one source position"
    ctx.check(good, f, apps[0] if apps else f.node, "remove_cand regroups a position from its own surviving members", d,
              "a rebuilt position may mix members of different source positions")
    # expand: prefix [:i] + permutation of position i + suffix [i+1:]
    f = prog.find_func("expand_tied_ballot")
    N = Normalizer(f.node, inline=False, int_atoms=lambda a: True)
    good = False
    d = ""
    for c, r in ranking_sinks(prog, f):
        parts = OrderPipe(f.node)._flatten_add(r) if isinstance(r, ast.BinOp) else []
        if len(parts) == 3:
            pre, mid, suf = [OrderPipe._strip(p) for p in parts]

            def through(x):
                # a single-assignment temporary (higher = tuple(ranking[:i])) is read through
                if isinstance(x, ast.Name):
                    dv = astx.unique_def(f.node, x.id)
                    if dv is not None:
                        return OrderPipe._strip(dv)
                return x
            pre, mid, suf = through(pre), through(mid), through(suf)
            loops = [l for l in astx.enclosing_loops(c, astx.parents(f.node), f.node) if isinstance(l, ast.For)]
            lp = loops[-1] if loops else None
            if lp is not None and isinstance(lp.target, ast.Tuple) and astx.call_name(lp.iter) == "enumerate":
                idx, pos = lp.target.elts[0].id, lp.target.elts[1].id
                comp = [n for n in astx.walk_own(f.node) if isinstance(n, ast.comprehension) and isinstance(n.iter, ast.Call) and astx.call_name(n.iter) == "permutations"]
                okperm = len(comp) == 1 and astx.is_name(comp[0].iter.args[0], pos) and len(comp[0].iter.args) == 1
                okmid = isinstance(mid, (ast.ListComp, ast.GeneratorExp)) and comp and astx.is_name(mid.generators[0].iter, getattr(comp[0].target, "id", None)) \
                    and N.key(mid.elt) == "{" + mid.generators[0].target.id + "}"
                good = (isinstance(pre, ast.Subscript) and N.key(pre.slice) == f":{idx}" and isinstance(suf, ast.Subscript)
                        and N.key(suf.slice) == f"{idx} + 1:" and okperm and bool(okmid))
                d = f"ranking[{N.key(pre.slice) if isinstance(pre, ast.Subscript) else '?'}] + perm({pos}) + ranking[{N.key(suf.slice) if isinstance(suf, ast.Subscript) else '?'}]"
    ctx.check(good, f, f.node, "expand_tied_ballot replaces position i by one permutation of its members, in place", d,
              f"expansion is `{d}`; documented prefix [:i] + singleton permutation of position i + suffix [i+1:]")
    # ... and a ballot is handed back as it is exactly when no position holds a tie
    pmx = astx.parents(f.node)
    Nx = Normalizer(f.node, inline=False, int_atoms=lambda a: True)
    asis = [r for r in astx.walk_own(f.node) if isinstance(r, ast.Return) and isinstance(r.value, ast.List) and len(r.value.elts) == 1 and astx.is_name(r.value.elts[0], f.params[0])]
    want = literals(Normalizer(None, inline=False, int_atoms=lambda a: True).conj([(ast.parse(f"all(len(s) == 1 for s in {f.params[0]}.ranking)", mode="eval").body, True)]))
    got = [literals(Nx.conj(astx.path_condition(f.node, r, pmx, carried=False))) for r in asis]
    # (a position is never empty, so "no position has more than one member" says the same)
    alts = [want] + [literals(Normalizer(None, inline=False, int_atoms=lambda a: True).conj([(ast.parse(t.format(b=f.params[0]), mode="eval").body, True)]))
                     for t in ("not any(len(s) > 1 for s in {b}.ranking)", "not any(len(s) != 1 for s in {b}.ranking)", "all(len(s) <= 1 for s in {b}.ranking)")]
    ctx.check_shape(len(asis) == 1 and got[0] in alts, f, asis[0] if asis else f.node, "expand_tied_ballot returns an untied ballot unchanged, and only an untied one", str(got[:1]),
                    f"the ballot is returned as it is under {got[:1]}; documented: when every position is a singleton")
    # add_missing: missing candidates appended as ONE last group, only when there are any
    f = prog.find_func("add_missing_cands")
    good = False
    nr = None
    pmf = astx.parents(f.node)
    ctor = [c for c in astx.calls_in(f.node, "Ballot") if any(k.arg == "ranking" for k in c.keywords)]
    rk_arg = next((k.value for k in ctor[0].keywords if k.arg == "ranking"), None) if ctor else None
    src_names = [x.id for x in ast.walk(rk_arg) if isinstance(x, ast.Name)] if rk_arg is not None else []
    for nm in src_names:
        cases = astx.value_cases(f.node, nm, astx.stmt_of(ctor[0], pmf), pmf)
        if not cases or len(cases) != 2:
            continue
        Nc = Normalizer(f.node, inline=False)
        by = {bool_key(Nc.conj(c)): v for c, v in cases}
        pos = [k for k in by if re.fullmatch(r"truthy\((\w+)\)", k)]
        if len(pos) != 1 or ("not " + pos[0]) not in by:
            continue
        missing = re.fullmatch(r"truthy\((\w+)\)", pos[0]).group(1)
        nr = by[pos[0]]
        if isinstance(nr, ast.BinOp):
            parts = OrderPipe(f.node)._flatten_add(nr)
            tail = parts[-1]
            good = len(parts) == 2 and isinstance(tail, ast.List) and len(tail.elts) == 1 and astx.is_name(tail.elts[0], missing) and astx.u(by["not " + pos[0]]).endswith(".ranking")
            if good:
                md = astx.unique_def(f.node, missing)
                good = md is not None and re.fullmatch(r"\w+\.difference\(\w+\)", astx.u(md)) is not None
        break
    if not good and ctor:
        # the same construction as a list that is started from the ballot's positions and, only when there are unlisted
        # candidates, gets them appended as one more position
        Nc = Normalizer(f.node, inline=False)
        for nm in src_names:
            plain = [(st, dv) for st, dv in astx.defs_of(f.node, nm) if dv is not None and not isinstance(st, ast.AugAssign)]
            apps = [c for c in astx.calls_in(f.node, "append") if astx.is_name(c.func.value, nm) and len(c.args) == 1]
            # ... or by `nm += (group,)` / `nm += [group]`
            for n_ in astx.walk_own(f.node):
                if isinstance(n_, ast.AugAssign) and isinstance(n_.op, ast.Add) and astx.is_name(n_.target, nm) and isinstance(n_.value, (ast.Tuple, ast.List)) and len(n_.value.elts) == 1:
                    fake_call = ast.copy_location(ast.Call(func=ast.Attribute(value=ast.Name(id=nm, ctx=ast.Load()), attr="append", ctx=ast.Load()), args=[n_.value.elts[0]], keywords=[]), n_)
                    fake_call._site = n_
                    apps.append(fake_call)
            others = [n for n in astx.walk_own(f.node) if isinstance(n, ast.Attribute) and astx.is_name(n.value, nm) and n.attr in ("insert", "extend", "pop", "remove", "sort", "reverse", "clear")]
            if len(plain) != 1 or len(apps) != 1 or others:
                continue
            base = astx.strip_wrappers(plain[0][1], ("tuple", "list"))
            okbase = astx.u(base).endswith(".ranking") or (isinstance(base, astx.LCOMP) and len(base.generators) == 1 and not base.generators[0].ifs
                                                            and astx.u(base.generators[0].iter).endswith(".ranking")
                                                            and astx.u(astx.strip_wrappers(base.elt, ("frozenset", "set"))) == astx.u(base.generators[0].target))
            arg = astx.strip_wrappers(apps[0].args[0], ("frozenset", "set"))
            lits = literals(Nc.conj(astx.path_condition(f.node, getattr(apps[0], "_site", apps[0]), pmf, carried=False))) - {f"truthy({astx.u(base.generators[0].iter) if isinstance(base, astx.LCOMP) else astx.u(base)})"}
            if isinstance(arg, ast.Name) and lits == {f"truthy({arg.id})"} and okbase and plain[0][0].lineno < apps[0].lineno < ctor[0].lineno:
                md = astx.unique_def(f.node, arg.id)
                good = md is not None and re.fullmatch(r"\w+\.difference\(\w+\)", astx.u(md)) is not None
                nr = apps[0]
                break
    ctx.check(good, f, nr if nr is not None else f.node, "add_missing_cands appends the unlisted candidates as one last tied group", astx.u(nr)[:100] if nr is not None else "",
              "unlisted candidates are not appended as a single final group (only when there are any)")
    # ... and every ranked ballot goes through that completion: nothing but "has a ranking" decides whether the ballot is
    # rebuilt (a shortcut that keeps a ballot as it is must prove that nobody is missing, which a count of mentions does not)
    if ctor:
        Nc = Normalizer(f.node, inline=False)
        lits = literals(Nc.conj(astx.path_condition(f.node, ctor[0], pmf)))
        extra = {l for l in lits if not re.fullmatch(r"truthy\(\w+\.ranking\)", l)}
        # "somebody is missing", tested on the difference set itself, is the one sound shortcut
        for l in list(extra):
            mm = re.fullmatch(r"truthy\((\w+)\)|not eq\(len\((\w+)\), 0\)", l)
            nm_ = (mm.group(1) or mm.group(2)) if mm else None
            md_ = astx.unique_def(f.node, nm_) if nm_ else None
            if md_ is not None and re.fullmatch(r"\w+\.difference\(\w+\)|\w+ - \w+", astx.u(md_)):
                extra.discard(l)
        ctx.check(not extra, f, ctor[0], "add_missing_cands completes every ranked ballot (no shortcut past the completion)", "",
                  f"the completed ballot is built only under {sorted(extra)}: other ballots are kept as they are without showing that no candidate is missing")
    if total < 5:
        ctx.vanished("order-pipeline sinks" + ": " + f"only {total} rebuilt rankings found")


# --------------------------------------------------------------------------------------------- R3
def weight_class(prog, f, c: ast.Call):
    """Classify the weight argument of a Ballot(...) construction."""
    w = next((k.value for k in c.keywords if k.arg == "weight"), None)
    if w is None and len(c.args) >= 2:
        w = c.args[1]
    if w is None:
        return "DEFAULT", "no weight argument (weight 1 placeholder / key-only ballot)"
    N = Normalizer(f.node, inline=True)
    k = N.key(w)
    if re.fullmatch(r"\w+\.weight", k):
        return "COPY", k
    if k in ("0", "Fraction(0)"):
        return "ZERO", k
    try:
        r = N.rat(w)
        if r.equals(spec_rat("0")):
            return "ZERO", k
        if r.equals(spec_rat("1")):
            return "UNIT", k
    except NotClosedForm:
        pass
    m = re.fullmatch(r"\((\w+)\.weight\)/\(math\.factorial\(len\((\w+)\)\)\)", k)
    if m:
        return "PERM-SHARE", k
    if re.fullmatch(r"sum\(\((_b0)\.weight for _b0 in \w+\)\)", k):
        return "SUM", k
    from vk import listform
    sm = listform.sum_of(f.node, w)
    if sm is not None and not sm.conditional and astx.u(sm.elt) == f"{sm.var}.weight" and isinstance(sm.iter, ast.Name) and sm.iter.id in f.params:
        return "SUM", f"sum({sm.var}.weight for {sm.var} in {astx.u(sm.iter)})"
    return "OTHER", k


def r3_weight_provenance(ctx):
    prog = ctx.prog
    expect = {"remove_cand": {"COPY", "ZERO", "DEFAULT"}, "add_missing_cands": {"COPY", "DEFAULT"},
              "expand_tied_ballot": {"PERM-SHARE"}, "deduplicate_ballots": {"COPY"}, "remove_from_ballots": {"COPY"},
              "merge_ballots": {"SUM"}}
    funcs = _all_rebuilders(prog) + [prog.find_func("merge_ballots")]
    for f in funcs:
        for c in astx.calls_in(f.node, "Ballot"):
            cls, k = weight_class(prog, f, c)
            allowed = expect[f.name]
            ctx.check(cls in allowed, f, c, f"{f.name}: Ballot weight is {cls}", k,
                      f"weight `{k}` is of class {cls}; {f.name} may only produce {sorted(allowed)}")
    # a ballot rebuilt with neither ranking nor scores is exhausted: it must carry weight 0
    f = prog.find_func("remove_cand")
    for c in astx.calls_in(f.node, "Ballot"):
        kws = {k.arg for k in c.keywords}
        if "weight" in kws and not ({"ranking", "scores"} & kws) and not c.args:
            cls, k = weight_class(prog, f, c)
            ctx.check(cls == "ZERO", f, c, "exhausted ballot carries weight 0", k,
                      f"a ballot left with no ranking and no scores keeps weight `{k}`; its votes would still be counted in totals")
    # ZERO only for a ballot with nothing left
    f = prog.find_func("remove_cand")
    N = Normalizer(f.node, inline=False)
    pm = astx.parents(f.node)
    for c in astx.calls_in(f.node, "Ballot"):
        cls, k = weight_class(prog, f, c)
        if cls == "ZERO":
            lits = literals(N.conj(astx.path_condition(f.node, c, pm)))
            good = sum(1 for l in lits if re.fullmatch(r"not truthy\(\w+\)", l)) >= 2
            ctx.check(good, f, c, "weight 0 only for a ballot with neither ranking nor scores left", str(sorted(lits)),
                      f"zero weight assigned under {sorted(lits)}")
    # expand: the permutation is over the same position whose size divides the weight
    f = prog.find_func("expand_tied_ballot")
    for c in astx.calls_in(f.node, "Ballot"):
        cls, k = weight_class(prog, f, c)
        m = re.fullmatch(r"\((\w+)\.weight\)/\(math\.factorial\(len\((\w+)\)\)\)", k)
        comp = [n for n in astx.walk_own(f.node) if isinstance(n, ast.comprehension) and isinstance(n.iter, ast.Call) and astx.call_name(n.iter) == "permutations"]
        good = bool(m) and len(comp) == 1 and astx.u(comp[0].iter.args[0]) == m.group(2)
        q = prog.resolve_expr(f.module, comp[0].iter.func) if comp else None
        good = good and q == "itertools.permutations"
        ctx.check(good, f, c, "each permutation of the tied position gets weight / k!", k,
                  f"weight share `{k}` is not weight / factorial(len(s)) over itertools.permutations(s) of the same position")
    # resolve_profile_ties expands every ballot
    f = prog.find_func("resolve_profile_ties")
    from vk import listform
    comps = []
    good = False
    pc = [c for c in astx.calls_in(f.node, "PreferenceProfile") if any(k.arg == "ballots" for k in c.keywords)]
    if pc:
        bl = listform.build_of(f.node, next(k.value for k in pc[0].keywords if k.arg == "ballots"))
        if bl is not None:
            comps = [bl.node]
            good = bl.kind == "flatmap" and not bl.conditional and astx.u(bl.iter).endswith(".ballots") and isinstance(bl.elt, ast.Call) \
                and astx.call_name(bl.elt) == "expand_tied_ballot" and len(bl.elt.args) == 1 and astx.u(bl.elt.args[0]) == bl.var
    ctx.check(good, f, comps[0] if comps else f.node, "resolve_profile_ties = all expansions of all ballots", "", "not every ballot's expansion is collected")


# --------------------------------------------------------------------------------------------- R4
def r4_dropped(ctx):
    prog = ctx.prog
    f = prog.find_func("remove_cand")
    N = Normalizer(f.node, inline=False)
    pm = astx.parents(f.node)
    sites = 0
    for n in astx.walk_own(f.node):
        if isinstance(n, astx.LCOMP) and len(n.generators) == 1 and astx.u(n.generators[0].iter) == "scrubbed_ballots":
            sites += 1
            v = n.generators[0].target.id
            ks = [bool_key(Normalizer(None, inline=False).guard(t)) for t in n.generators[0].ifs]
            ctx.check(ks == [f"not le({v}.weight, 0)"] and astx.is_name(n.elt, v), f, n, "remove_cand drops exactly the zero-weight (exhausted) ballots", str(ks),
                      f"ballot filter is {ks}; documented: keep iff weight > 0")
    if sites < 1:
        ctx.violated(f, f.node, "remove_cand exhausted-ballot filters", "no filter over the rebuilt ballots")
    # what reaches every `return`: a profile built from the filtered ballots, or - only under the flag - from all of them,
    # possibly condensed - only under its flag (however many return shapes share that construction)
    def form(dv):
        if dv is None or astx.is_const(dv, None):
            return "none"
        if isinstance(dv, ast.Call) and astx.call_name(dv) == "PreferenceProfile":
            bl = next((k.value for k in dv.keywords if k.arg == "ballots"), None)
            if isinstance(bl, ast.Name) and bl.id != "scrubbed_ballots":
                # the ballots held in a local: every binding that reaches the construction is one of the two forms
                fs = {ballots_form(v) for _st, v in astx.reaching_defs(f.node, bl.id, dv)}
                if fs and fs <= {"all", "filtered"}:
                    return "filtered" if fs == {"filtered"} else ("all" if fs == {"all"} else "filtered+all")
                return "other"
            return ballots_form(bl)
        if isinstance(dv, ast.Call) and isinstance(dv.func, ast.Attribute) and dv.func.attr == "condense_ballots":
            return "condensed"
        return "other"
    def ballots_form(bl):
        if bl is not None and astx.u(bl) == "tuple(scrubbed_ballots)":
            return "all"
        inner = astx.strip_wrappers(bl) if bl is not None else None
        if isinstance(inner, astx.LCOMP) and astx.u(inner.generators[0].iter) == "scrubbed_ballots" and inner.generators[0].ifs:
            return "filtered"
        return "other"
    rets = [r for r in astx.walk_own(f.node) if isinstance(r, ast.Return) and r.value is not None]
    for r in rets:
        names = [x for x in ast.walk(r.value) if isinstance(x, ast.Name) and astx.defs_of(f.node, x.id) and x.id not in f.params]
        forms = set()
        for x in names:
            for st, dv in astx.reaching_defs(f.node, x.id, r):
                forms.add(form(dv))
        forms.discard("none")
        if "filtered+all" in forms:
            forms.discard("filtered+all")
            forms |= {"filtered", "all"}
        ctx.check("filtered" in forms and forms <= {"filtered", "all", "condensed"}, f, r, "what remove_cand returns is built from the filtered ballots (all of them only under the flag)",
                  str(sorted(forms)), f"the value returned at line {r.lineno} is built as {sorted(forms)}")
    if len(rets) < 2:
        ctx.violated(f, f.node, "remove_cand return shapes", f"{len(rets)} value-returning exits")
    # every ballot goes through the rebuild: each path through the per-ballot loop stores the ballot's slot once.  A path
    # that skips the rebuild must establish that the ballot is not empty (an empty ballot is exhausted: weight 0)
    from vk.paths import PathCounter
    slot_loops = []
    def _fills(x):
        """the rebuilt ballot is put into the result list: scrubbed_ballots[i] = ... or scrubbed_ballots.append(...)"""
        return (isinstance(x, ast.Assign) and isinstance(x.targets[0], ast.Subscript) and astx.u(x.targets[0].value) == "scrubbed_ballots") or \
            (isinstance(x, ast.Call) and isinstance(x.func, ast.Attribute) and x.func.attr == "append" and astx.u(x.func.value) == "scrubbed_ballots")
    for lp in astx.walk_own(f.node):
        if isinstance(lp, ast.For) and any(_fills(x) for x in ast.walk(ast.Module(body=lp.body, type_ignores=[]))):
            slot_loops.append(lp)
    if len(slot_loops) != 1:
        ctx.violated(f, f.node, "remove_cand: one per-ballot rebuild loop", f"{len(slot_loops)} loops store rebuilt ballots")
    else:
        lp = slot_loops[0]
        bv = astx.assigned_names(lp.target)[-1]
        fake = ast.parse("def _it():\n    pass\n").body[0]
        from vk.paths import explicit_skips
        fake.body = explicit_skips(lp.body)
        ast.fix_missing_locations(fake)
        exits = PathCounter(fake, _fills).run()
        Nl = Normalizer(f.node, inline=False)
        bad = []
        for e in exits:
            if e.kind in ("fall-off", "continue") and e.lo < 1:
                lits = literals(Nl.conj(e.conds))
                if not ({f"truthy({bv}.ranking)", f"truthy({bv}.scores)"} & lits):
                    bad.append((e, lits))
            elif e.kind in ("break", "return"):
                bad.append((e, set()))
        ctx.check(not bad and bool(exits), f, (bad[0][0].node if bad and bad[0][0].node is not None else lp), "remove_cand: every ballot is rebuilt (or provably non-empty when skipped)", f"{len(exits)} paths through the loop body",
                  f"a path through the per-ballot loop ({bad[0][0].kind if bad else ''} at line {getattr(bad[0][0].node, 'lineno', '?') if bad else '?'}, under {sorted(bad[0][1]) if bad else ''}) leaves the ballot's slot as pre-filled: "
                  "an empty ballot keeps its weight instead of being exhausted, or later ballots are never rebuilt")
    # leave_zero_weight_ballots keeps everything
    # (wherever the whole list is taken: as the ballots= argument, or bound to a local that is handed over)
    keeps = [n for n in astx.walk_own(f.node) if isinstance(n, ast.Call) and astx.u(n) == "tuple(scrubbed_ballots)"]
    good = len(keeps) >= 1 and all("truthy(leave_zero_weight_ballots)" in literals(N.conj(astx.path_condition(f.node, k, pm))) for k in keeps)
    ctx.check(good, f, keeps[0] if keeps else f.node, "unfiltered ballots only under leave_zero_weight_ballots", "",
              "the unfiltered ballot tuple is used without leave_zero_weight_ballots")
    # condense only when asked
    cds = astx.calls_in(f.node, "condense_ballots")
    good = len(cds) >= 1 and all("truthy(condense)" in literals(N.conj(astx.path_condition(f.node, c, pm))) for c in cds)
    ctx.check(good, f, cds[0] if cds else f.node, "condense only under the condense flag", "", "condense_ballots is not controlled by the condense flag")
    f = prog.find_func("remove_empty_ballots")
    comps = [n for n in astx.walk_own(f.node) if isinstance(n, astx.LCOMP)]
    good = len(comps) == 1 and [astx.u(t) for t in comps[0].generators[0].ifs] == [comps[0].generators[0].target.id + ".ranking"] \
        and astx.is_name(comps[0].elt, comps[0].generators[0].target.id)
    ctx.check(good, f, comps[0] if comps else f.node, "remove_empty_ballots drops exactly the ranking-less ballots", "", "filter is not `if ballot.ranking`")
    f = prog.find_func("remove_noncands")
    comps = [n for n in f.node.body if isinstance(n, ast.Assign) and isinstance(n.value, astx.LCOMP)]
    good = False
    if comps:
        lc = comps[0].value
        g = lc.generators[0]
        good = astx.u(g.iter).endswith(".ballots") and len(g.ifs) == 1 and astx.u(g.ifs[0]) == astx.u(lc.elt) + ".ranking"
    ctx.check(good, f, comps[0] if comps else f.node, "remove_noncands drops exactly the ballots left without ranking", "", "ballot filter changed")


# --------------------------------------------------------------------------------------------- R5
def r5_exact(ctx):
    prog = ctx.prog
    funcs = _all_rebuilders(prog) + [prog.find_func(n) for n in ("merge_ballots", "resolve_profile_ties", "clean_profile", "remove_empty_ballots", "remove_noncands")]
    for f in funcs:
        ev = numkind.exactness_events(prog, f)
        div = numkind.inexact_divisions(prog, f)
        if not ev and not div:
            ctx.ok(f, f.node, f"{f.name}: exact arithmetic", "no library-created float reaches a Fraction / Ballot sink")
        for e in ev:
            ctx.violated(f, e.node, f"{f.name}: inexact value reaches an exact sink", e.detail)
        for n, l, r in div:
            if not ev:
                ctx.violated(f, n, f"{f.name}: int/int true division", f"`{astx.u(n)[:60]}` divides {l} by {r}: a binary float in an exact-arithmetic utility")


def r6_group_and_merge(ctx):
    prog = ctx.prog
    f = prog.find_func("merge_ballots")
    bl = f.params[0]
    defs = astx.single_assignments(f.node, names_only=True, text=False)
    rets = [n for n in astx.walk_own(f.node) if isinstance(n, ast.Return)]
    kw = {k.arg: astx.u(k.value) for k in rets[0].value.keywords} if rets and isinstance(rets[0].value, ast.Call) else {}
    from vk import listform
    wk = next((k.value for k in rets[0].value.keywords if k.arg == "weight"), None) if rets and isinstance(rets[0].value, ast.Call) else None
    sm = listform.sum_of(f.node, wk) if wk is not None else None
    oksum = sm is not None and not sm.conditional and astx.u(sm.elt) == f"{sm.var}.weight" and astx.u(sm.iter) == bl
    good = astx.u(defs.get("ranking")) == f"{bl}[0].ranking" and kw.get("ranking") == "ranking" and oksum and kw.get("voter_set") == "voter_set"
    ctx.check(good, f, rets[0] if rets else f.node, "merge_ballots: one ballot with the shared ranking, the summed weight and the united voter sets", str(kw), f"merge_ballots returns Ballot({kw})")
    vs = [n for n in astx.walk_own(f.node) if isinstance(n, ast.Call) and astx.u(n.func) == "reduce"]
    ctx.check(len(vs) == 1 and "union" in astx.u(vs[0].args[0]) and astx.u(vs[0].args[1]) == "voters_to_merge" and
              astx.u(defs.get("voters_to_merge")) == astx.A(f"[b.voter_set for b in {bl} if b.voter_set]"), f, vs[0] if vs else f.node, "merge_ballots: voter sets are united over all merged ballots", "",
              "voter-set union changed")
    for name, src in (("clean_profile", "cleaned"), ("remove_noncands", "cleaned")):
        f = prog.find_func(name)
        gb = astx.unique_def(f.node, "grouped_ballots")
        nb = astx.unique_def(f.node, "new_ballots")
        grp_var = astx.u(gb.generators[0].target.elts[1]) if isinstance(gb, astx.LCOMP) and isinstance(gb.generators[0].target, ast.Tuple) and len(gb.generators[0].target.elts) == 2 else "?"
        good = isinstance(gb, astx.LCOMP) and astx.u(gb.elt) == f"list({grp_var})" and astx.u(gb.generators[0].iter) == astx.A(f"groupby({src}, key=lambda ballot: ballot.ranking)") and not gb.generators[0].ifs \
            and nb is not None and astx.u(nb) == astx.A("tuple([merge_ballots(b) for b in grouped_ballots])")
        rets = [n for n in astx.walk_own(f.node) if isinstance(n, ast.Return)]
        good = good and len(rets) == 1 and astx.u(rets[0].value) == "PreferenceProfile(ballots=new_ballots)"
        ctx.check(good, f, gb or f.node, f"{name}: every run of equal rankings is merged into one ballot, no group dropped", "", f"{name}: grouping / merging pipeline changed")
    f = prog.find_func("clean_profile")
    cl = [dv for st, dv in astx.defs_of(f.node, "cleaned") if dv is not None]
    ctx.check(len(cl) == 1 and astx.u(cl[0]) == f"map({f.params[1]}, {f.params[0]}.ballots)", f, cl[0] if cl else f.node, "clean_profile applies the cleaning function to every ballot", "", "clean_profile no longer maps over all ballots")
    f = prog.find_func("remove_empty_ballots")
    defs = {}
    pm = astx.parents(f.node)
    N = Normalizer(f.node, inline=False)
    for st, dv in astx.defs_of(f.node, "pp_clean"):
        defs[bool_key(N.conj(astx.path_condition(f.node, st, pm, carried=False)))] = astx.u(dv)
    good = defs.get("truthy(keep_candidates)") == "PreferenceProfile(ballots=ballots_nonempty, candidates=old_cands)" and defs.get("not truthy(keep_candidates)") == "PreferenceProfile(ballots=ballots_nonempty)"
    oc = astx.unique_def(f.node, "old_cands")
    ctx.check(good and oc is not None and astx.u(oc) == f"{f.params[0]}.candidates", f, f.node, "remove_empty_ballots keeps the original candidates iff keep_candidates", str(defs), f"remove_empty_ballots builds {defs}")


def _check_defaults(ctx, table):
    """table: [(function short name, parameter, expected default source text)]"""
    prog = ctx.prog
    for fn, param, want in table:
        f = prog.find_func(fn)
        if param not in f.params:
            ctx.violated(f, f.node, f"{fn}: parameter `{param}`", f"parameter `{param}` no longer exists; callers rely on its documented default {want}")
            continue
        d = f.param_default(param)
        got = astx.u(d) if d is not None else "<required>"
        ctx.check(got == want, f, d if d is not None else f.node, f"{fn}({param}={want}) documented default", got,
                  f"default of `{param}` is {got}, documented {want}: every caller that omits the argument silently changes behaviour")


def r7_defaults(ctx):
    _check_defaults(ctx, [("remove_cand", "condense", "True"), ("remove_cand", "leave_zero_weight_ballots", "False"),
                          ("remove_empty_ballots", "keep_candidates", "False")])


def r8_weight_validator(ctx):
    """Merged ballots carry the exact sum of the merged weights and an expanded tie carries weight / k! - computed exactly
    by these utilities and handed to Ballot(...); they arrive only if the weight validator of Ballot leaves a Fraction as it is
    (limit_denominator applied to a Fraction moves any weight whose denominator exceeds 10**6).  Decided by the weight clauses
    of C11.R2; the verdicts are those of C03.R11 / C02.R10 by construction."""
    from rules import c11
    sub = type(ctx)(ctx.prog, ctx.prop, ctx.tier)
    c11.r2_validators(sub)
    n = 0
    for o in sub.obs:
        if "weight" in (o.construct or "").lower():
            o.rule = "C12.R8"
            ctx.obs.append(o)
            n += 1
    if n < 1:
        ctx.vanished(f"Ballot weight validator obligations: only {n}")


RULES = [
    ("C12.R8", r8_weight_validator, 3, "prerequisite: Ballot's weight validator keeps an exact Fraction weight as it is (C11.R2)"),
    ("C12.R1", r1_filter_polarity, 8, "a candidate/position is kept iff it is not being removed (every filter site)"),
    ("C12.R2", r2_order, 8, "rebuilt rankings derive from the source ranking through order-preserving steps; regrouping per position"),
    ("C12.R3", r3_weight_provenance, 10, "result weights are copies, weight/k! over permutations, sums, or 0 for exhausted ballots"),
    ("C12.R4", r4_dropped, 6, "ballots are dropped only by the documented filters / flags"),
    ("C12.R7", r7_defaults, 3, "documented defaults of the editing utilities (callers rely on them)"),
    ("C12.R6", r6_group_and_merge, 6, "merge_ballots / clean_profile / remove_noncands grouping pipeline; remove_empty_ballots candidates"),
    ("C12.R5", r5_exact, 10, "no float is created by the library in the editing utilities"),
]

UT = "src/votekit/utils.py"
CL = "src/votekit/cleaning.py"
_RC_SKIP = """    scrubbed_ballots = list(ballots)
    for i, ballot in enumerate(ballots):
        if %s:
            continue

"""
_RC_REGION = ("    scrubbed_ballots = [Ballot()] * len(ballots)\n", "        new_ranking = []\n        new_scores = {}\n        if ballot.ranking:\n            for s in ballot.ranking:\n                new_s = []")
FAULTS = [
    ("expand returns the ballot as it is unless every position is a singleton (negated)", [(UT, "    if all(len(s) == 1 for s in ballot.ranking):\n        return [ballot]", "    if all(len(s) != 1 for s in ballot.ranking):\n        return [ballot]")], "C12.R2"),
    ("untouched ballots skipped, blank ones too (seeded C12-r2-1)", [(UT, _RC_REGION, _RC_SKIP % "set(removed).isdisjoint({c for s in ballot.ranking or () for c in s}.union(ballot.scores or ()))")], "C12.R4"),
    ("add_missing keeps a ballot with as many mentions as candidates", [(UT, "            raise TypeError(\"Ballots must have rankings.\")\n        else:\n            b_cands = [c for s in ballot.ranking for c in s]", "            raise TypeError(\"Ballots must have rankings.\")\n        elif sum(len(s) for s in ballot.ranking) == len(candidates):\n            new_ballots[i] = ballot\n        else:\n            b_cands = [c for s in ballot.ranking for c in s]")], "C12.R2"),
    ("remove keeps the removed", [(UT, "                    if c not in removed:\n                        new_s.append(c)", "                    if c in removed:\n                        new_s.append(c)")], "C12.R1"),
    ("scores keep the removed", [(UT, "c: score for c, score in ballot.scores.items() if c not in removed", "c: score for c, score in ballot.scores.items() if c in removed")], "C12.R1"),
    ("sorted new ranking", [(UT, "                ranking=tuple(new_ranking), weight=ballot.weight, scores=new_scores", "                ranking=tuple(sorted(new_ranking, key=len)), weight=ballot.weight, scores=new_scores")], "C12.R2"),
    ("reversed new ranking", [(UT, "                ranking=tuple(new_ranking), weight=ballot.weight\n            )", "                ranking=tuple(new_ranking[::-1]), weight=ballot.weight\n            )")], "C12.R2"),
    ("insert at front", [(UT, "                    new_ranking.append(frozenset(new_s))", "                    new_ranking.insert(0, frozenset(new_s))")], "C12.R2"),
    ("missing cands first", [(UT, "list(ballot.ranking) + [missing_cands]", "[missing_cands] + list(ballot.ranking)")], "C12.R2"),
    ("expand suffix from i", [(UT, "+ tuple(ballot.ranking[(i + 1) :]),", "+ tuple(ballot.ranking[i:]),")], "C12.R2"),
    ("expand weight over len", [(UT, "weight=ballot.weight / math.factorial(len(s)),", "weight=ballot.weight / len(s),")], "C12.R3"),
    ("remove_cand doubles weight", [(UT, "                ranking=tuple(new_ranking), weight=ballot.weight\n            )", "                ranking=tuple(new_ranking), weight=ballot.weight * 2\n            )")], "C12.R3"),
    ("exhausted ballots kept with weight", [(UT, "scrubbed_ballots[i] = Ballot(weight=Fraction(0))", "scrubbed_ballots[i] = Ballot(weight=ballot.weight)")], "C12.R3"),
    ("drop filter >= 0", [(UT, "            ballots=tuple([b for b in scrubbed_ballots if b.weight > 0]),\n            candidates=tuple(", "            ballots=tuple([b for b in scrubbed_ballots if b.weight >= 0]),\n            candidates=tuple(")], "C12.R4"),
    ("merge float weight", [(CL, "weight = sum(b.weight for b in ballots)", "weight = sum(float(b.weight) for b in ballots)")], "C12.R"),
    ("dedup keeps later duplicate", [(CL, "            if cand in ranking and cand not in dedup_ranking:", "            if cand in ranking and cand in dedup_ranking:")], "C12.R1"),
    ("noncands filter inverted", [(CL, "            if cand not in to_remove and cand not in clean_ranking:", "            if cand in to_remove and cand not in clean_ranking:")], "C12.R1"),
]
FAULTS += [
    ("single name no longer wrapped", [(UT, "    if isinstance(removed, str):\n        removed = [removed]\n", "    if not isinstance(removed, (str, list)):\n        removed = list(removed)\n")], "C12.R1"),
    ("merge keeps first weight", [(CL, "    weight = sum(b.weight for b in ballots)", "    weight = ballots[0].weight")], "C12.R"),
    ("merge takes last ranking", [(CL, "    ranking = ballots[0].ranking", "    ranking = ballots[-1].ranking if len(ballots) > 3 else ballots[0].ranking")], "C12.R6"),
    ("groups of one dropped", [(CL, "    new_ballots = tuple([merge_ballots(b) for b in grouped_ballots])\n    return PreferenceProfile(ballots=new_ballots)\n\n\ndef merge_ballots", "    new_ballots = tuple([merge_ballots(b) for b in grouped_ballots if len(b) > 1 or b[0].weight > 0])\n    return PreferenceProfile(ballots=new_ballots)\n\n\ndef merge_ballots")], "C12.R6"),
    ("empty-ballot cleaner loses candidates", [(CL, "        pp_clean = PreferenceProfile(ballots=ballots_nonempty, candidates=old_cands)", "        pp_clean = PreferenceProfile(ballots=ballots_nonempty)")], "C12.R6"),
    ("expand weight by largest tie", [(UT, "weight=ballot.weight / math.factorial(len(s)),", "weight=ballot.weight / math.factorial(max(len(t) for t in ballot.ranking)),")], "C12.R3"),
    ("emptied tied position kept", [(UT, "                if len(new_s) > 0:\n                    new_ranking.append(frozenset(new_s))", "                if len(new_s) > 0 or len(s) > 1:\n                    new_ranking.append(frozenset(new_s))")], "C12.R1"),
    ("dedup compares with last kept only", [(CL, "            if cand in ranking and cand not in dedup_ranking:", "            if cand in ranking and cand not in dedup_ranking[-1:]:")], "C12.R1"),
]
BENIGN = [
    ("expand shortcut written with any", [(UT, "    if all(len(s) == 1 for s in ballot.ranking):\n        return [ballot]", "    if not any(len(s) > 1 for s in ballot.ranking):\n        return [ballot]")]),
    ("untouched ranked ballots skipped", [(UT, _RC_REGION, _RC_SKIP % "ballot.ranking and not ballot.scores and all(c not in removed for s in ballot.ranking for c in s)")]),
    ("comprehension instead of loop", [(UT, "                for c in s:\n                    if c not in removed:\n                        new_s.append(c)\n", "                new_s = [c for c in s if not (c in removed)]\n")]),
    ("weight via Fraction()", [(UT, "                ranking=tuple(new_ranking), weight=ballot.weight\n            )", "                ranking=tuple(new_ranking), weight=Fraction(ballot.weight)\n            )")]),
    ("filter as not <= 0", [(UT, "            ballots=tuple([b for b in scrubbed_ballots if b.weight > 0]),\n            candidates=tuple(", "            ballots=tuple([b for b in scrubbed_ballots if not b.weight <= 0]),\n            candidates=tuple(")]),
]
