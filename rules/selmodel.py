"""The top-m selector (utils.elect_cands_from_set_ranking) as a table of iteration paths.

Shared by C01.R5, C04.R6 and C10.R5 (and the properties that import those rules).  The loop of the selector is run
symbolically for one iteration (vk/loopsym.py); every path is then one of

    fits       count0 + len(ranking[i]) <= m          elected' = elected ++ [ranking[i]], count' = count0 + len, i' = i + 1
    unbroken   count0 + len(ranking[i]) > m, no code  raise ValueError
    broken     count0 + len(ranking[i]) > m, code     return (elected ++ T[:m - count0], T[m - count0:] ++ ranking[i+1:], (ranking[i], T))
                                                      with T = tiebreak_set(ranking[i], profile, tiebreak)

in the entry values of the iteration, whatever order the body tests and appends in."""
from __future__ import annotations

import ast
import re
from dataclasses import dataclass, field
from typing import Dict, List, Optional

from vk import astx
from vk.algebra import Normalizer, NotClosedForm, bool_key, equivalent, spec_guard, spec_rat, OR
from vk.loopsym import IterationExec, ListVal, Outcome, Unsupported


@dataclass
class Model:
    f: object
    loop: Optional[ast.While] = None
    R: str = ""
    M: str = ""
    PROF: str = ""
    TB: str = ""
    CNT: Optional[str] = None
    E: Optional[str] = None
    I: Optional[str] = None
    outcomes: List[Outcome] = field(default_factory=list)
    ex: Optional[IterationExec] = None
    problem: Optional[str] = None      # why the loop could not be modelled (undecided)

    # ------------------------------------------------------------------ helpers
    def N(self):
        return Normalizer(None, inline=False, int_atoms=lambda a: True)

    def cond(self, o: Outcome):
        return self.N().conj(o.conds) if o.conds else ("const", True)

    def union(self, outs):
        gs = [self.cond(o) for o in outs]
        if not gs:
            return ("const", False)
        return OR(*gs) if len(gs) > 1 else gs[0]

    def group(self) -> str:
        return f"{self.R}[{self.I}]"

    def overshoot(self) -> str:
        return f"{self.CNT} + len({self.group()}) > {self.M}"

    def rat_eq(self, e: ast.AST, spec: str) -> bool:
        try:
            return self.N().rat(e).equals(spec_rat(spec, int_atoms=lambda a: True))
        except (NotClosedForm, ZeroDivisionError, SyntaxError):
            return False

    def kinds(self, kind: str) -> List[Outcome]:
        return [o for o in self.outcomes if o.kind == kind]


_CACHE: Dict[int, Model] = {}


def model(prog) -> Model:
    key = id(prog)
    if key in _CACHE:
        return _CACHE[key]
    f = prog.find_func("elect_cands_from_set_ranking")
    m = Model(f)
    _CACHE.clear()
    _CACHE[key] = m
    if len(f.params) < 4:
        m.problem = "anchor-missing: elect_cands_from_set_ranking(ranking, m, profile, tiebreak)"
        return m
    m.R, m.M, m.PROF, m.TB = f.params[:4]
    loops = [n for n in astx.walk_own(f.node) if isinstance(n, ast.While)]
    if len(loops) != 1:
        m.problem = f"{len(loops)} while loops; expected one"
        return m
    m.loop = loops[0]
    N = m.N()
    lk = bool_key(N.guard(m.loop.test))
    for cand in sorted({n.id for n in ast.walk(m.loop.test) if isinstance(n, ast.Name)} - {m.M}):
        if bool_key(spec_guard(f"{cand} < {m.M}", int_atoms=lambda a: True)) == lk:
            m.CNT = cand
    try:
        m.ex = IterationExec(f.node, m.loop.body)
        m.outcomes = m.ex.run()
    except Unsupported as e:
        m.problem = f"the election loop is outside the statement forms the iteration model handles: {e}"
        return m
    # roles: the list that receives ranking[<index>] on a path that goes on to the next iteration
    for o in m.kinds("next"):
        for name, v in o.state.items():
            if isinstance(v, ListVal) and len(v.segs) == 2 and v.segs[0] == ("base", name) and v.segs[1][0] == "elem":
                k = N.key(v.segs[1][1])
                mm = re.fullmatch(rf"{re.escape(m.R)}\[(\w+)\]", k)
                if mm:
                    m.E, m.I = name, mm.group(1)
    if m.E is None:
        # a selector that never appends a whole group on a continuing path: roles from the returning paths
        m.problem = "no path through the election loop appends ranking[<index>] to a list and continues"
    return m


def tie_call(m: Model, o: Outcome) -> Optional[ast.Call]:
    """The resolution T of a returning path: second member of the third component, a tiebreak_set(...) call."""
    v = o.value
    if isinstance(v, ast.Tuple) and len(v.elts) == 3 and isinstance(v.elts[2], ast.Tuple) and len(v.elts[2].elts) == 2:
        t = v.elts[2].elts[1]
        if isinstance(t, ast.Call) and astx.call_name(t) == "tiebreak_set":
            return t
    return None


def components(m: Model, o: Outcome):
    """(elected part, remaining part) of a returning path as segment lists, or None."""
    raw = o.raw
    if not (isinstance(raw, ast.Tuple) and len(raw.elts) == 3):
        return None
    try:
        return m.ex.as_list(raw.elts[0], o.state), m.ex.as_list(raw.elts[1], o.state)
    except Unsupported:
        return None


def slice_of(seg, of: ast.AST):
    """(lower, upper) when the segment is ("seq", <of>[lower:upper]) (list()/tuple() wrappers transparent), else None."""
    if seg[0] != "seq":
        return None
    e = astx.strip_wrappers(seg[1], ("tuple", "list"))
    if isinstance(e, ast.Subscript) and isinstance(e.slice, ast.Slice) and e.slice.step is None and astx.u(e.value) == astx.u(of):
        return e.slice.lower, e.slice.upper
    return None
