"""C02 — each STV/IRV/SequentialRCV round is a legal step: structural clauses (DESIGN §5/C02)."""
from __future__ import annotations

import ast
import re

from vk import astx, elect, facts
from vk.report import shape_rule
from vk.algebra import Normalizer, bool_key, simplify, literals, spec_guard, spec_rat, NotClosedForm
from vk.loader import AnalysisError
from rules import c09

EXPLANATION = (
    "Formula, polarity, orientation and wiring rules over the STV family. Decides: the quota "
    "formulas (droop = floor(N/(m+1))+1, hare = floor(N/m)) computed from the constructor's profile; "
    "single writer of the threshold; `tally >= threshold` polarity at every comparison; the surplus "
    "factor weight*(tally-threshold)/tally on winner-first ballots and full weight otherwise; "
    "SequentialRCV's transfer passes ballots on at full weight; the default-election condition; the "
    "elimination end (last group of the high-to-low ranking, ties by first_place on the round-0 "
    "profile, last of the resolution eliminated); recorded tallies computed from the returned "
    "profile; transfer calls wired to one candidate. Does NOT decide that each round elects exactly "
    "the above-threshold set on every input or equality with an independent recount."
)
EXPLANATION += " Also decided (prerequisites and later clauses): Ballot's weight validator leaves an exact Fraction as it is (C11.R2)."
ASSUMPTIONS = ["F4: ElectionState.remaining built by score_dict_to_ranking(scores) is ordered high to low (checked in C04.R5)",
               "int(x) is floor for the non-negative quantities involved"]
TRUSTED = ["fractions.Fraction arithmetic is exact"]


def _stv(prog):
    return prog.find_class("STV")


def r1_quota(ctx):
    prog = ctx.prog
    f = prog.find_func("STV.get_threshold")
    wt = f.params[1] if len(f.params) > 1 else None
    if wt is None:
        raise AnalysisError("anchor-missing: STV.get_threshold(total_ballot_wt)")

    def rename(e):
        if astx.is_name(e, wt):
            return "N"
        if astx.is_self_attr(e, "m"):
            return "m"
        return None
    N = Normalizer(f.node, rename=rename, int_atoms=lambda a: a == "m")
    pm = astx.parents(f.node)
    specs = {"droop": spec_rat("int(N / (m + 1)) + 1", int_atoms=lambda a: a == "m"),
             "hare": spec_rat("int(N / m)", int_atoms=lambda a: a == "m")}
    seen = set()
    for r in (n for n in astx.walk_own(f.node) if isinstance(n, ast.Return)):
        lits = literals(N.conj(astx.path_condition(f.node, r, pm)))
        for q, spec in specs.items():
            if any(re.fullmatch(rf"eq\('{q}', self\.quota\)|eq\(self\.quota, '{q}'\)", l) for l in lits):
                seen.add(q)
                try:
                    got = N.rat(r.value)
                    good = got.equals(spec)
                    gk = got.key()
                except NotClosedForm as e:
                    ctx.undecided(f, r, f"{q} quota formula", f"not closed form: {e}")
                    continue
                ctx.check(good, f, r, f"{q} quota = {spec.key()}", gk, f"{q} quota computed as `{gk}`; documented `{spec.key()}`")
    for q in specs:
        if q not in seen:
            ctx.violated(f, f.node, f"{q} quota formula", f"no return on the path `self.quota == '{q}'`")
    # unknown quota -> ValueError
    rs = [r for r in astx.raises_in(f.node)]
    good = False
    for r in rs:
        lits = literals(N.conj(astx.path_condition(f.node, r, pm)))
        if all(any(re.search(rf"not eq\(.*'{q}'.*\)", l) for l in lits) for q in specs) and astx.raise_type(r) == "ValueError":
            good = True
    ctx.check(good, f, rs[0] if rs else f.node, "unknown quota name raises ValueError", "", "an unknown quota name does not raise ValueError")
    # constructor computes it from its own profile's total weight, after m and quota are stored
    init = prog.find_func("STV.__init__")
    calls = astx.calls_in(init.node, "get_threshold")
    pp = init.params[1]
    good = len(calls) == 1 and calls[0].args and astx.u(calls[0].args[0]) == f"{pp}.total_ballot_wt"
    if good:
        line = calls[0].lineno
        stores = {astx.u(t): n.lineno for n in astx.walk_own(init.node) if isinstance(n, ast.Assign) for t in n.targets}
        good = stores.get("self.m", 10 ** 9) < line and stores.get("self.quota", 10 ** 9) < line
        st = astx.stmt_of(calls[0], astx.parents(init.node))
        good = good and isinstance(st, ast.Assign) and astx.u(st.targets[0]) == "self.threshold"
    ctx.check(good, init, calls[0] if calls else init.node, "threshold = get_threshold(<profile>.total_ballot_wt) after m and quota are stored",
              "", "the constructor does not compute the threshold from its profile's total weight with m and quota already set")


def r2_single_writer(ctx):
    prog = ctx.prog
    ws = facts.writers_of_attr(prog, "threshold")
    for f, n in ws:
        ctx.check(f.short == "STV.__init__", f, n, f"store to .threshold in {f.short}", "only the constructor writes the threshold",
                  f"{f.short} assigns .threshold: the quota could change during the count")
    f = prog.find_func("STV.get_threshold")
    pm = astx.parents(f.node)
    N = Normalizer(f.node, inline=False)
    good = False
    for r in (n for n in astx.walk_own(f.node) if isinstance(n, ast.Return)):
        lits = literals(N.conj(astx.path_condition(f.node, r, pm)))
        if "not eq(self.threshold, 0)" in lits:
            good = astx.u(r.value) == "self.threshold"
    ctx.check(good, f, f.node, "get_threshold returns the stored value once set", "", "a non-zero stored threshold is not returned unchanged")


def _tally_rename(fn):
    """Map tally expressions to TALLY: <x>.scores[...] and the value variable of `.scores.items()` loops."""
    value_vars = set()
    for n in astx.walk_own(fn):
        if isinstance(n, (ast.comprehension, ast.For)) and isinstance(n.iter, ast.Call) and astx.u(n.iter.func).endswith(".scores.items"):
            if isinstance(n.target, ast.Tuple) and len(n.target.elts) == 2 and isinstance(n.target.elts[1], ast.Name):
                value_vars.add(n.target.elts[1].id)

    def rename(e):
        if isinstance(e, ast.Subscript) and astx.u(e.value).endswith(".scores"):
            return "TALLY"
        if isinstance(e, ast.Name) and e.id in value_vars:
            return "TALLY"
        if astx.is_self_attr(e, "threshold"):
            return "THRESH"
        return None
    return rename


@shape_rule
def r3_polarity(ctx):
    prog = ctx.prog
    stv = _stv(prog)
    want = "ge(TALLY - THRESH, 0)"
    sites = 0
    for f in stv.methods.values():
        if f.name in ("get_threshold", "__init__"):
            continue
        rn = _tally_rename(f.node)
        N = Normalizer(f.node, rename=rn, inline=False)
        pm = astx.parents(f.node)
        seen = set()
        # every electing action whose execution depends on the threshold: the element of a filtered
        # comprehension over the tallies, or an append to the elected list
        actions = []
        for n in astx.walk_own(f.node):
            if isinstance(n, (ast.ListComp, ast.GeneratorExp, ast.SetComp)) and any(astx.is_self_attr(x, "threshold") for t in n.generators[0].ifs for x in ast.walk(t)):
                actions.append((n.elt, n))
            if isinstance(n, ast.Call) and astx.call_name(n) == "append":
                actions.append((n, n))
        for act, site in actions:
            conds = [c for c in astx.path_condition(f.node, act, pm, drop_stale=False) if any(astx.is_self_attr(x, "threshold") for x in ast.walk(c[0]))]
            if not conds:
                continue
            sites += 1
            lits = literals(N.conj(conds))
            ctx.check(lits == {want}, f, site, "elected iff tally >= threshold", str(sorted(lits)),
                      f"the electing action `{astx.u(act)[:50]}` executes under {sorted(lits)}; documented: iff `{want}`")
    if sites < 1:
        ctx.vanished(f"tally/threshold-controlled electing actions in STV: {sites} found")
    # the simultaneous loop elects a prefix of the high-to-low ranking and stops at the first failure
    f = prog.find_func("STV._simultaneous_elect_step")
    loops = [n for n in astx.walk_own(f.node) if isinstance(n, ast.For) and any(isinstance(x, ast.Break) for x in ast.walk(n))]
    good = False
    if loops:
        lp = loops[0]
        pm = astx.parents(f.node)
        N = Normalizer(f.node, rename=_tally_rename(f.node), inline=False)
        it = astx.unique_def(f.node, lp.iter.id) if isinstance(lp.iter, ast.Name) else lp.iter
        brks = [x for x in ast.walk(lp) if isinstance(x, ast.Break) and astx.enclosing(x, pm, (ast.For, ast.While)) is lp]
        apps = [x for x in ast.walk(lp) if isinstance(x, ast.Call) and astx.call_name(x) == "append" and x.args and isinstance(lp.target, ast.Name) and astx.is_name(x.args[0], lp.target.id)]
        if it is not None and astx.u(it).endswith(".remaining") and len(brks) == 1 and len(apps) == 1:
            # the loop stops exactly when a group is below the threshold, and every group it did not stop at is elected
            lb = literals(N.conj(astx.path_condition(f.node, brks[0], pm, drop_stale=False)))
            la = literals(N.conj(astx.path_condition(f.node, apps[0], pm, drop_stale=False)))
            good = lb == {"not " + want} and la == {want}
    ctx.check(good, f, loops[0] if loops else f.node, "simultaneous step elects the above-threshold prefix of prev_state.remaining",
              "for s in remaining: if tally >= threshold: elected.append(s) else: break", "the loop electing above-threshold groups has changed shape")


def _default_arm(f, st, name, pm, first_key):
    """`name = A` directly followed by `if C: name = B` (no else, C not reading name): which case does the default A serve?
    "other" when C is the winner-first test, "win" when C is its negation, None when the statements are arranged differently."""
    if name is None or not isinstance(st, ast.Assign):
        return None
    blk = pm.get(st)
    seq = None
    for fld in ("body", "orelse", "finalbody"):
        if st in getattr(blk, fld, []):
            seq = getattr(blk, fld)
    if seq is None or seq.index(st) + 1 >= len(seq):
        return None
    nxt = seq[seq.index(st) + 1]
    if not isinstance(nxt, ast.If) or nxt.orelse or name in astx.free_names(nxt.test):
        return None
    if not (len(nxt.body) == 1 and isinstance(nxt.body[0], ast.Assign) and astx.assigned_names(nxt.body[0].targets[0]) == [name]):
        return None
    k = bool_key(Normalizer(f.node, inline=False).guard(nxt.test))
    if k == first_key:
        return "other"
    if k == "not " + first_key:
        return "win"
    return None


def r4_surplus_factor(ctx):
    prog = ctx.prog
    f = prog.find_func("fractional_transfer")
    p_win, p_fpv, p_bal, p_thr = f.params[:4]
    loops = [n for n in astx.walk_own(f.node) if isinstance(n, ast.For)]
    bvar = None
    for lp in loops:
        names = astx.assigned_names(lp.target)
        if astx.u(lp.iter) in (p_bal, f"enumerate({p_bal})"):
            bvar = names[-1]
    if bvar is None:
        ctx.undecided(f, f.node, "surplus factor", "no loop over the ballots parameter")
        return

    def rename(e):
        if astx.u(e) == f"{bvar}.weight":
            return "W"
        if astx.is_name(e, p_fpv):
            return "F"
        if astx.is_name(e, p_thr):
            return "T"
        return None
    N = Normalizer(f.node, rename=rename)
    pm = astx.parents(f.node)
    ctors = [c for c in astx.calls_in(f.node, "Ballot") if any(k.arg == "weight" for k in c.keywords)]
    if len(ctors) != 1:
        ctx.undecided(f, f.node, "surplus factor", f"{len(ctors)} weighted Ballot constructions; expected one")
        return
    wv = next(k.value for k in ctors[0].keywords if k.arg == "weight")
    defs = [(st, dv) for st, dv in astx.defs_of(f.node, wv.id)] if isinstance(wv, ast.Name) else [(ctors[0], wv)]
    spec_w = spec_rat("W * (F - T) / F")
    first_key = f"eq({bvar}.ranking[0], {{{p_win}}})"
    seen_win = seen_other = False
    for st, dv in defs:
        if dv is None:
            ctx.undecided(f, st, "surplus factor", "weight bound by a non-plain assignment")
            continue
        lits = literals(Normalizer(f.node, inline=False).conj(astx.path_condition(f.node, st, pm)))
        try:
            got = N.rat(dv)
        except NotClosedForm as e:
            ctx.undecided(f, st, "surplus factor", str(e))
            continue
        if first_key in lits:
            seen_win = True
            ctx.check(got.equals(spec_w), f, st, "winner-first ballot moves on at weight*(tally-threshold)/tally", got.key(),
                      f"transferred weight is `{got.key()}`; documented `{spec_w.key()}`")
        elif "not " + first_key in lits:
            seen_other = True
            ctx.check(got.equals(spec_rat("W")), f, st, "other ballots keep their weight", got.key(),
                      f"a ballot not led by the winner gets weight `{got.key()}`")
        else:
            # default-then-override:  w = A ; if <first position == {winner}>: w = B   is the two-armed choice with A in the else arm
            side = _default_arm(f, st, wv.id if isinstance(wv, ast.Name) else None, pm, first_key)
            if side == "other":
                seen_other = True
                ctx.check(got.equals(spec_rat("W")), f, st, "other ballots keep their weight", got.key(),
                          f"a ballot not led by the winner gets weight `{got.key()}`")
            elif side == "win":
                seen_win = True
                ctx.check(got.equals(spec_w), f, st, "winner-first ballot moves on at weight*(tally-threshold)/tally", got.key(),
                          f"transferred weight is `{got.key()}`; documented `{spec_w.key()}`")
            else:
                ctx.violated(f, st, "transferred weight is not decided by `first position == {winner}`",
                             f"weight `{got.key()}` assigned under `{sorted(lits)}`")
    ctx.check(seen_win and seen_other, f, ctors[0], "both weight cases present (winner-first / not)", "", "a weight case is missing")
    # SequentialRCV: full weight
    s = prog.find_func("SequentialRCV.__init__")
    call = facts.super_init_call(s)
    stv_init = prog.find_func("STV.__init__")
    b = astx.bind_args(call, stv_init.params, skip_self=True)
    t = b.get("transfer")
    good = False
    d = astx.u(t) if t is not None else "<default>"
    if isinstance(t, ast.Lambda) and len(t.args.args) == 4:
        w, fpv, bal, thr = [a.arg for a in t.args.args]
        body = t.body
        used = {n.id for n in ast.walk(body) if isinstance(n, ast.Name)}
        rc = prog.find_func("remove_cand")
        if isinstance(body, ast.Call) and astx.call_name(body) == "remove_cand":
            bb = astx.bind_args(body, rc.params)
            good = astx.is_name(bb.get(rc.params[0]), w) and astx.u(astx.strip_wrappers(bb.get(rc.params[1]))) == bal \
                and fpv not in used and thr not in used and len(bb) == 2
    ctx.check(good, s, t if t is not None else s.node, "SequentialRCV transfer = remove_cand(winner, ballots) at full weight", d,
              f"SequentialRCV passes transfer=`{d}`; documented: the winner's ballots move on at full weight")


def r5_default_election(ctx):
    prog = ctx.prog
    f = prog.find_func("STV._run_step")
    pm = astx.parents(f.node)

    def rename(e):
        a = elect.counted_base(e)
        if isinstance(a, ast.Call) and astx.u(a.func) == "self.get_elected":
            return "E"
        if isinstance(e, ast.Call) and astx.u(e.func) == "len" and e.args:
            if astx.u(e.args[0]).endswith(".candidates") and astx.u(e.args[0]).split(".")[0] in f.params:
                return "NC"
        if astx.is_self_attr(e, "m"):
            return "M"
        return None
    N = Normalizer(f.node, rename=rename, inline=False, int_atoms=lambda a: True)
    # the branch that elects prev_state.remaining wholesale
    hits = [n for n in astx.walk_own(f.node) if isinstance(n, ast.Assign) and astx.is_name(n.targets[0], "elected")
            and astx.u(n.value).endswith(".remaining")]
    if len(hits) != 1:
        ctx.violated(f, f.node, "default-election branch", f"{len(hits)} branches elect prev_state.remaining wholesale; expected one")
        return
    Ni = Normalizer(f.node, rename=rename, inline=True, int_atoms=lambda a: True)
    g = Ni.conj(astx.path_condition(f.node, hits[0], pm))
    lits = literals(g)
    want_eq = bool_key(spec_guard("NC == M - E", int_atoms=lambda a: True))
    # "somebody reaches the threshold", in whichever spelling: a non-empty filtered list of the tallies, or any(...)
    prev = f.params[2]
    SOME_ABOVE = bool_key(Normalizer(None, inline=False).guard(ast.parse(f"any(score >= self.threshold for score in {prev}.scores.values())", mode="eval").body))
    none_above = ("not " + SOME_ABOVE) in lits
    ctx.check(want_eq in lits and none_above and len(lits) == 2, f, hits[0],
              "default election iff nobody reaches the threshold and remaining candidates == unfilled seats", bool_key(g),
              f"default-election branch is taken under `{bool_key(g)}`; documented `no tally >= threshold and {want_eq}`")
    # it returns the empty profile and eliminates nobody
    blk = pm[hits[0]]
    seq = blk.orelse if hits[0] in getattr(blk, "orelse", []) else blk.body
    txt = {astx.u(s.targets[0]): astx.u(s.value) for s in seq if isinstance(s, ast.Assign)}
    if "eliminated" not in txt:
        # a default set before the branching stands when the branch does not touch it
        rd = [dv for _st, dv in astx.reaching_defs(f.node, "eliminated", seq[-1])]
        if rd and all(dv is not None and astx.u(dv) == "(frozenset(),)" for dv in rd):
            txt["eliminated"] = "(frozenset(),)"
    ctx.check(txt.get("new_profile") == "PreferenceProfile()" and txt.get("eliminated") == "(frozenset(),)", f, hits[0],
              "default election leaves an empty profile and eliminates nobody", str(txt), f"branch assigns {txt}")


@shape_rule
def r6_elimination(ctx):
    prog = ctx.prog
    f = prog.find_func("STV._run_step")
    pm = astx.parents(f.node)
    # the eliminated candidate flows to remove_cand and to eliminated=(frozenset([c]),)
    rcs = astx.calls_in(f.node, "remove_cand")
    if len(rcs) != 1:
        ctx.undecided(f, f.node, "elimination step", f"{len(rcs)} remove_cand calls in STV._run_step")
        return
    rc = prog.find_func("remove_cand")
    b = astx.bind_args(rcs[0], rc.params)
    ev = b[rc.params[0]]
    if not isinstance(ev, ast.Name):
        ctx.undecided(f, rcs[0], "elimination step", "removed candidate is not a local")
        return
    good_prof = astx.is_name(b.get(rc.params[1]), f.params[1]) and len(b) == 2
    ctx.check(good_prof, f, rcs[0], "elimination removes the candidate from the current profile (default condense)", astx.u(rcs[0]),
              f"`{astx.u(rcs[0])}` does not remove from the step's input profile with default flags")
    defs = astx.defs_of(f.node, ev.id)
    low = None
    for st, dv in defs:
        lits = literals(Normalizer(f.node, inline=False).conj(astx.path_condition(f.node, st, pm)))
        d = astx.u(dv) if dv is not None else "?"
        m1 = re.fullmatch(r"list\((\w+)\[(-?\d+)\]\)\[0\]", d)
        m2 = re.fullmatch(r"list\((\w+)\)\[0\]", d)
        if m1:  # after tiebreak: last of the resolution
            T = m1.group(1)
            tdef = astx.unique_def(f.node, T)
            okpick = m1.group(2) == "-1"
            oktb = False
            detail = ""
            if isinstance(tdef, ast.Call) and astx.call_name(tdef) == "tiebreak_set":
                tb = prog.find_func("tiebreak_set")
                bb = astx.bind_args(tdef, tb.params)
                low = astx.u(bb[tb.params[0]])
                prof = astx.u(bb.get(tb.params[1]))
                code = bb.get(tb.params[2])
                oktb = prof in ("self.get_profile(0)", "self._profile") and astx.is_const(code, "first_place")
                detail = f"tiebreak_set({low}, {prof}, {astx.u(code)})"
                tie_lit = f"ge(len({low}), 2)" in lits
                oktb = oktb and tie_lit
            ctx.check(okpick and oktb, f, st, "tied lowest group: first_place on the round-0 profile, last of the resolution eliminated",
                      f"{d} ; {detail}", f"elimination tie handling is `{d}` with `{detail}`; documented: tiebreak_set(lowest, initial profile, 'first_place')[-1]")
        elif m2:
            low2 = m2.group(1)
            ctx.check(f"not ge(len({low2}), 2)" in lits, f, st, "single lowest candidate eliminated without tiebreak", d,
                      f"`{d}` picks from a set not known to be a singleton")
            low = low or low2
        else:
            ctx.violated(f, st, "eliminated candidate source", f"eliminated candidate computed as `{d}`")
    if low:
        ld = astx.unique_def(f.node, low)
        ctx.check(ld is not None and re.fullmatch(r"\w+\.remaining\[-1\]", astx.u(ld)) is not None, f, ld or f.node,
                  "lowest group = last group of prev_state.remaining (high-to-low)", astx.u(ld) if ld is not None else "",
                  f"lowest group is `{astx.u(ld) if ld is not None else None}`; documented prev_state.remaining[-1]")
    # recorded groups of the elimination branch
    blk = pm[astx.stmt_of(rcs[0], pm)]
    seq = blk.orelse if astx.stmt_of(rcs[0], pm) in getattr(blk, "orelse", []) else blk.body
    txt = {astx.u(s.targets[0]): astx.u(s.value) for s in seq if isinstance(s, ast.Assign)}
    if "eliminated" not in txt:
        # a default set before the branching stands when the branch does not touch it
        rd = [dv for _st, dv in astx.reaching_defs(f.node, "eliminated", seq[-1])]
        if rd and all(dv is not None and astx.u(dv) == "(frozenset(),)" for dv in rd):
            txt["eliminated"] = "(frozenset(),)"
    ok = txt.get("elected") == "(frozenset(),)" and txt.get("eliminated") in (f"(frozenset([{ev.id}]),)", f"(frozenset({{{ev.id}}}),)")
    ctx.check(ok, f, rcs[0], "elimination round records exactly that one candidate as eliminated and nobody as elected", str({k: txt[k] for k in txt if k in ('elected', 'eliminated')}),
              f"elimination branch records {txt}")


def r7_recorded_tallies(ctx):
    # C09.R5 restricted to the STV family
    sub = type(ctx)(ctx.prog, ctx.prop, ctx.tier)
    sub.cur_rule = "C02.R7"
    c09.r5_recorded_scores(sub)
    n = 0
    for o in sub.obs:
        if o.function.endswith("STV._run_step"):
            o.rule = "C02.R7"
            ctx.obs.append(o)
            n += 1
    if n == 0:
        ctx.vanished("STV._run_step store block")


def r8_transfer_wiring(ctx):
    prog = ctx.prog
    for name in ("STV._simultaneous_elect_step", "STV._single_elect_step"):
        f = prog.find_func(name)
        calls = [c for c in astx.calls_in(f.node) if astx.u(c.func) == "self.transfer"]
        if len(calls) != 1:
            ctx.violated(f, f.node, f"{name}: one transfer call per elected candidate", f"{len(calls)} self.transfer calls")
            continue
        c = calls[0]
        a = [astx.u(x) for x in c.args]
        good = len(a) == 4 and re.fullmatch(r"\w+", a[0]) and re.fullmatch(rf"\w+\.scores\[{a[0]}\]", a[1]) \
            and re.fullmatch(rf"\w+\[{a[0]}\]", a[2]) and a[3] == "self.threshold" and not c.keywords
        if good:
            bd = astx.unique_def(f.node, a[2].split("[")[0])
            good = bd is not None and astx.u(bd) == f"ballots_by_first_cand({f.params[1]})"
        ctx.check(bool(good), f, c, "transfer(candidate, its tally, its first-place ballots, threshold)", astx.u(c),
                  f"`{astx.u(c)}`: the four arguments must refer to one candidate, prev_state.scores, ballots_by_first_cand(profile) and self.threshold")
        # ... for every elected candidate: nothing decides whether the call happens (a winner exactly on the threshold has no
        # surplus under the fractional rule, but SequentialRCV moves the pile on at full weight all the same)
        lits_c = literals(Normalizer(f.node, inline=False).conj(astx.path_condition(f.node, c, astx.parents(f.node))))
        ctx.check(not lits_c, f, c, "every elected candidate's pile goes through the transfer function (the call is unconditional)", "",
                  f"the transfer call is made only under {sorted(lits_c)}: an elected candidate's ballots can be dropped without being transferred")
        # everybody else's ballots are carried over unchanged
        # (a pile `ballots_by_first_cand(profile)[x]` that does not go through the transfer function reaches the pool as it
        # is: bound to a name / stored, or added with extend / +=, possibly wrapped in tuple() / list())
        pmf = astx.parents(f.node)
        piles = {n.targets[0].id for n in astx.walk_own(f.node) if isinstance(n, ast.Assign) and isinstance(n.targets[0], ast.Name)
                 and isinstance(n.value, ast.Call) and astx.call_name(n.value) == "ballots_by_first_cand"}
        in_transfer = {id(x) for x in ast.walk(c)}
        uses = [n for n in astx.walk_own(f.node) if isinstance(n, ast.Subscript) and isinstance(n.ctx, ast.Load) and isinstance(n.value, ast.Name) and n.value.id in piles
                and not isinstance(n.slice, ast.Slice) and id(n) not in in_transfer]

        def unchanged_sink(n):
            cur, par = n, pmf.get(n)
            while isinstance(par, ast.Call) and astx.u(par.func) in ("tuple", "list") and len(par.args) == 1 and par.args[0] is cur:
                cur, par = par, pmf.get(par)
            if isinstance(par, ast.Assign) and par.value is cur:
                return True
            # a read that only measures the pile (len(pile) for a cursor) is not a sink and not a change either
            if isinstance(par, ast.Call) and astx.u(par.func) == "len":
                return True
            if isinstance(par, ast.AugAssign) and par.value is cur and isinstance(par.op, ast.Add):
                return True
            return isinstance(par, ast.Call) and isinstance(par.func, ast.Attribute) and par.func.attr in ("extend",) and cur in par.args
        carry = [n for n in uses if unchanged_sink(n)]
        ctx.check(len(carry) >= 1 and len(carry) == len(uses), f, carry[0] if carry else f.node, "non-elected candidates' ballots carried over unchanged",
                  astx.u(carry[0]) if carry else "", "ballots of non-elected candidates are no longer copied unchanged"
                  + (f": `{astx.u(pmf.get([u_ for u_ in uses if u_ not in carry][0]))[:70]}`" if len(carry) != len(uses) else ""))
        # ... and they are the piles of exactly the candidates that were not elected: every ranked candidate's pile is
        # either transferred or carried over, never both, never neither
        for site in carry:
            verdict, why = _carried_domain(prog, f, site, pmf)
            if verdict is None:
                ctx.undecided(f, site, "the carried-over piles are those of the candidates not elected in this step", why)
            else:
                ctx.check(verdict, f, site, "the carried-over piles are those of the candidates not elected in this step", why, why)
    f = prog.find_func("STV._single_elect_step")
    sel = prog.find_func("elect_cands_from_set_ranking")
    cs = astx.calls_in(f.node, "elect_cands_from_set_ranking")
    good = False
    if len(cs) == 1:
        b = astx.bind_args(cs[0], sel.params)
        good = (astx.u(astx.unique_def(f.node, astx.u(b[sel.params[0]])) or b[sel.params[0]]).endswith(".remaining") and astx.is_const(b.get("m"), 1)
                and astx.u(b.get("tiebreak")) == "self.tiebreak" and astx.is_name(b.get("profile"), f.params[1]))
    ctx.check(good, f, cs[0] if cs else f.node, "one-by-one mode elects the single top candidate with the rule's tiebreak",
              astx.u(cs[0])[:100] if cs else "", "one-by-one election is not elect_cands_from_set_ranking(prev_state.remaining, m=1, profile, self.tiebreak)")
    # mode switch
    f = prog.find_func("STV._run_step")
    pm = astx.parents(f.node)
    N = Normalizer(f.node, inline=True)
    SOME_ABOVE8 = bool_key(Normalizer(None, inline=False).guard(ast.parse(f"any(score >= self.threshold for score in {f.params[2]}.scores.values())", mode="eval").body))
    for helper, pol in (("_simultaneous_elect_step", True), ("_single_elect_step", False)):
        cs = astx.calls_in(f.node, helper)
        good = len(cs) == 1
        if good:
            lits = literals(N.conj(astx.path_condition(f.node, cs[0], pm)))
            good = (("truthy(self.simultaneous)" in lits) if pol else ("not truthy(self.simultaneous)" in lits)) and SOME_ABOVE8 in lits
        ctx.check(good, f, cs[0] if cs else f.node, f"{helper} used iff someone reached the threshold and simultaneous is {pol}", "",
                  f"{helper} is not selected by `len(above_thresh) > 0 and simultaneous is {pol}`")


def _carried_domain(prog, f, site, pm):
    """Whose piles are carried over unchanged?  (True / False / None = cannot tell, explanation)"""
    from vk import elect
    from rules import c08
    if not isinstance(site.slice, ast.Name):
        return None, f"pile index `{astx.u(site.slice)}` is not a loop variable"
    x = site.slice.id
    loops = [l for l in astx.enclosing_loops(site, pm, f.node) if isinstance(l, ast.For)]
    l0 = next((l for l in loops if astx.is_name(l.target, x)), None)
    if l0 is None:
        return None, f"`{x}` is not bound by an enclosing for loop"
    N = Normalizer(f.node, inline=False)
    tier_filter = None
    base = l0.iter
    if isinstance(base, ast.Name):
        l1 = next((l for l in loops if l is not l0 and astx.is_name(l.target, base.id)), None)
        if l1 is not None:
            # for tier in R: [if <filter on tier>:] for c in tier
            inner = [c for c in astx.path_condition(f.node, l0, pm, carried=False) if any(y is c[0] for y in ast.walk(l1))]
            tier_filter = sorted(literals(N.conj(inner))) if inner else []
            base = l1.iter
        else:
            base = elect.flatten_base(base, f.node)
    else:
        base = elect.flatten_base(base, f.node)
    elected_names = set()
    for c in astx.calls_in(f.node):
        if astx.u(c.func) == "self.transfer" and c.args:
            pass
    # the selector's `remaining` component (one-by-one step): elected + remaining partition the ranking (C10.R5 / C03.R9)
    if isinstance(base, ast.Name):
        src = astx.tuple_unpack_source(f.node, base.id)
        if src is not None and isinstance(src[0], ast.Call) and astx.call_name(src[0]) == "elect_cands_from_set_ranking" and src[1] == 1 and not tier_filter:
            return True, f"piles of the selector's remaining component `{base.id}`"
    # candidate-level difference: set(<all ranked candidates>).difference(<elected candidates>)
    if isinstance(base, ast.Call) and isinstance(base.func, ast.Attribute) and base.func.attr == "difference" and len(base.args) == 1 and not tier_filter:
        whole = elect.flatten_base(base.func.value, f.node)
        gone = elect.flatten_base(base.args[0], f.node)
        whole_d = astx.unique_def(f.node, whole.id) if isinstance(whole, ast.Name) else whole
        if whole_d is not None and astx.u(whole_d).endswith(".remaining"):
            return True, f"piles of `{astx.u(whole)}` minus `{astx.u(gone)}`, candidate by candidate"
    # tier-level filter: right only when the elected groups are whole tiers of the same ranking
    if tier_filter is not None:
        base_d = astx.unique_def(f.node, base.id) if isinstance(base, ast.Name) else base
        if base_d is not None and astx.u(base_d).endswith(".remaining") and len(tier_filter) == 1:
            m = re.fullmatch(rf"not in\((\w+), (.+)\)", tier_filter[0])
            if m:
                grp = ast.parse(m.group(2), mode="eval").body
                grp = astx.strip_wrappers(grp, ("tuple", "list"))
                origin = c08._origin(prog, f, grp, at=site) if isinstance(grp, ast.Name) else None
                if origin is not None and origin.startswith("prefix of") and "selector" not in origin:
                    return True, f"tiers of `{astx.u(base)}` that are not among the elected tiers (the elected groups are whole tiers: {origin})"
                return False, (f"piles are carried tier by tier (`{tier_filter[0]}`), but `{astx.u(grp)}` need not consist of whole tiers of `{astx.u(base)}`: when a tiebreak "
                               "elects one member of a tied tier, that tier is not `in` the elected groups and its whole pile - the winner's included - is carried over as well as transferred")
    return None, f"piles of `{astx.u(base)[:60]}`" + (f" filtered by {tier_filter}" if tier_filter else "") + ": not one of the recognised partitions"


def r9_round_local(ctx):
    """The step's decisions depend only on the round being computed (C09.R3 restricted to STV): otherwise
    the profile reported for a round does not correspond to the tallies recorded for it."""
    sub = type(ctx)(ctx.prog, ctx.prop, ctx.tier)
    c09.r3_replay_independent(sub)
    n = 0
    for o in sub.obs:
        if ".stv.STV." in o.function:
            o.rule = "C02.R9"
            ctx.obs.append(o)
            n += 1
    if n == 0:
        ctx.vanished("STV._run_step replay obligations")
    # and removals by a single name go through remove_cand's str wrapping (shared with C12.R1)
    from rules import c12
    sub = type(ctx)(ctx.prog, ctx.prop, ctx.tier)
    c12.r1_filter_polarity(sub)
    for o in sub.obs:
        if "wrapped into a list" in o.construct or "kept iff not in" in o.construct:
            o.rule = "C02.R9"
            ctx.obs.append(o)


def r10_weight_validator(ctx):
    """"moves to its next surviving choice at weight*(tally-threshold)/tally" and "the tallies reported are exactly the
    first-place weights": the transfer functions compute that weight exactly and hand it to Ballot(...); it arrives only if
    the weight validator of Ballot leaves a Fraction as it is.  Decided by the weight clauses of C11.R2."""
    from rules import c11
    sub = type(ctx)(ctx.prog, ctx.prop, ctx.tier)
    c11.r2_validators(sub)
    n = 0
    for o in sub.obs:
        if "weight" in (o.construct or "").lower():
            o.rule = "C02.R10"
            ctx.obs.append(o)
            n += 1
    if n < 1:
        ctx.vanished(f"Ballot weight validator obligations: only {n}")


RULES = [
    ("C02.R10", r10_weight_validator, 3, "prerequisite: Ballot's weight validator keeps an exact Fraction weight as it is (C11.R2)"),
    ("C02.R1", r1_quota, 4, "droop/hare formulas over the constructor's total weight; unknown quota raises"),
    ("C02.R2", r2_single_writer, 3, "the threshold has a single writer (STV.__init__) and is returned unchanged once set"),
    ("C02.R3", r3_polarity, 2, "elected iff tally >= threshold at every comparison; prefix loop shape"),
    ("C02.R4", r4_surplus_factor, 4, "surplus factor weight*(tally-threshold)/tally on winner-first ballots; SequentialRCV full weight"),
    ("C02.R5", r5_default_election, 2, "default election iff nobody above threshold and candidates == unfilled seats"),
    ("C02.R6", r6_elimination, 4, "elimination takes the low end; first_place tiebreak on the initial profile; last of resolution"),
    ("C02.R7", r7_recorded_tallies, 1, "recorded tallies = first_place_votes of the returned profile, ranked high to low"),
    ("C02.R9", r9_round_local, 3, "step decisions use only the round being computed; eliminated/elected candidates are removed by exact name"),
    ("C02.R8", r8_transfer_wiring, 8, "transfer calls wired to one candidate; one-by-one mode; mode switch"),
]

# ------------------------------------------------------------------------------------------ self-validation
STV_PY = "src/votekit/elections/election_types/ranking/stv.py"
TR_PY = "src/votekit/elections/transfers.py"
FAULTS = [
    ("no transfer call for a winner exactly on the threshold", [(STV_PY, "            for candidate in s:\n                transfer_ballots = self.transfer(", "            for candidate in s:\n                if prev_state.scores[candidate] == self.threshold:\n                    continue\n                transfer_ballots = self.transfer(")], "C02.R8"),
    ("droop +1 dropped", [(STV_PY, "return int(total_ballot_wt / (self.m + 1) + 1)", "return int(total_ballot_wt / (self.m + 1))")], "C02.R1"),
    ("droop m for m+1", [(STV_PY, "return int(total_ballot_wt / (self.m + 1) + 1)", "return int(total_ballot_wt / self.m + 1)")], "C02.R1"),
    ("hare ceil-ish", [(STV_PY, "return int(total_ballot_wt / self.m)  # takes floor", "return int(total_ballot_wt / self.m) + 1")], "C02.R1"),
    ("threshold from candidates", [(STV_PY, "self.get_threshold(profile.total_ballot_wt)", "self.get_threshold(profile.num_ballots)")], "C02.R1"),
    ("threshold rewritten in step", [(STV_PY, "        tiebreaks: dict[frozenset[str], tuple[frozenset[str], ...]] = {}\n",
                                      "        tiebreaks: dict[frozenset[str], tuple[frozenset[str], ...]] = {}\n        self.threshold = self.get_threshold(profile.total_ballot_wt)\n")], "C02.R2"),
    ("> for >= in comprehension", [(STV_PY, "if score >= self.threshold", "if score > self.threshold")], "C02.R3"),
    ("> for >= in loop", [(STV_PY, "if prev_state.scores[c] >= self.threshold:", "if prev_state.scores[c] > self.threshold:")], "C02.R3"),
    ("factor over threshold", [(TR_PY, "transfer_value = (fpv - threshold) / Fraction(fpv)", "transfer_value = (fpv - threshold) / Fraction(threshold)")], "C02.R4"),
    ("factor not applied", [(TR_PY, "transfered_weight = ballot.weight * Fraction(transfer_value)", "transfered_weight = ballot.weight")], "C02.R4"),
    ("factor applied to everybody", [(TR_PY, "            else:\n                transfered_weight = ballot.weight\n", "            else:\n                transfered_weight = ballot.weight * Fraction(transfer_value)\n")], "C02.R4"),
    ("seqRCV reweights", [(STV_PY, "lambda winner, fpv, ballots, threshold: remove_cand(\n                    winner, tuple(ballots)\n                )",
                           "lambda winner, fpv, ballots, threshold: fractional_transfer(\n                    winner, fpv, tuple(ballots), threshold\n                )")], "C02.R4"),
    ("default election off by one", [(STV_PY, "elif len(profile.candidates) == self.m - len(", "elif len(profile.candidates) == self.m + 1 - len(")], "C02.R5"),
    ("default election <=", [(STV_PY, "elif len(profile.candidates) == self.m - len(", "elif len(profile.candidates) <= self.m - len(")], "C02.R5"),
    ("eliminate top group", [(STV_PY, "lowest_fpv_cands = prev_state.remaining[-1]", "lowest_fpv_cands = prev_state.remaining[0]")], "C02.R6"),
    ("eliminate first of resolution", [(STV_PY, "eliminated_cand = list(tiebroken_ranking[-1])[0]", "eliminated_cand = list(tiebroken_ranking[0])[0]")], "C02.R6"),
    ("borda elimination tiebreak", [(STV_PY, 'lowest_fpv_cands, self.get_profile(0), tiebreak="first_place"', 'lowest_fpv_cands, self.get_profile(0), tiebreak="borda"')], "C02.R6"),
    ("current-profile elimination tiebreak", [(STV_PY, 'lowest_fpv_cands, self.get_profile(0), tiebreak="first_place"', 'lowest_fpv_cands, profile, tiebreak="first_place"')], "C02.R6"),
    ("scores of the old profile", [(STV_PY, "                scores = self.score_function(new_profile)\n\n            remaining = score_dict_to_ranking(scores)\n\n            new_state = ElectionState(\n                round_number=prev_state.round_number + 1,\n                remaining=remaining,\n                elected=elected,\n                eliminated=eliminated,",
                                    "                scores = self.score_function(profile)\n\n            remaining = score_dict_to_ranking(scores)\n\n            new_state = ElectionState(\n                round_number=prev_state.round_number + 1,\n                remaining=remaining,\n                elected=elected,\n                eliminated=eliminated,")], "C02.R7"),
    ("transfer other candidate's tally", [(STV_PY, "                    candidate,\n                    prev_state.scores[candidate],\n                    ballots_by_fpv[candidate],", "                    candidate,\n                    prev_state.scores[c],\n                    ballots_by_fpv[candidate],")], "C02.R8"),
    ("default election counts final winners", [(STV_PY, "[c for s in self.get_elected(prev_state.round_number) for c in s]", "[c for s in self.get_elected() for c in s]")], "C02.R9"),
    ("single step elects two", [(STV_PY, "ranking_by_fpv, m=1, profile=profile, tiebreak=self.tiebreak", "ranking_by_fpv, m=2, profile=profile, tiebreak=self.tiebreak")], None),
]
BENIGN = [
    ("droop as 1 + floor", [(STV_PY, "return int(total_ballot_wt / (self.m + 1) + 1)", "return 1 + int(total_ballot_wt / (self.m + 1))")]),
    ("threshold comparison swapped operands", [(STV_PY, "if score >= self.threshold", "if self.threshold <= score")]),
    ("not < for >=", [(STV_PY, "if prev_state.scores[c] >= self.threshold:", "if not prev_state.scores[c] < self.threshold:")]),
    ("factor as 1 - t/f", [(TR_PY, "transfer_value = (fpv - threshold) / Fraction(fpv)", "transfer_value = 1 - threshold / Fraction(fpv)")]),
    ("factor inlined", [(TR_PY, "transfered_weight = ballot.weight * Fraction(transfer_value)", "transfered_weight = ballot.weight * Fraction((fpv - threshold) / fpv)")]),
    ("default election rearranged", [(STV_PY, "elif len(profile.candidates) == self.m - len(\n            [c for s in self.get_elected(prev_state.round_number) for c in s]\n        ):",
                                      "elif len(profile.candidates) + len(\n            [c for s in self.get_elected(prev_state.round_number) for c in s]\n        ) == self.m:")]),
]

# the two weight cases written as default-then-override (clause of C02.R4, shared by C03.R7 / C08.R5)
_W_CASES = ("            if ballot.ranking[0] == {winner}:\n                transfered_weight = ballot.weight * Fraction(transfer_value)\n"
            "            else:\n                transfered_weight = ballot.weight\n")
BENIGN += [
    ("weight cases as default-then-override", [("src/votekit/elections/transfers.py", _W_CASES,
        "            transfered_weight = ballot.weight\n            if ballot.ranking[0] == {winner}:\n                transfered_weight = ballot.weight * Fraction(transfer_value)\n")]),
]
FAULTS += [
    ("default-then-override with the test negated", [("src/votekit/elections/transfers.py", _W_CASES,
        "            transfered_weight = ballot.weight\n            if ballot.ranking[0] != {winner}:\n                transfered_weight = ballot.weight * Fraction(transfer_value)\n")], "C02.R4"),
]
