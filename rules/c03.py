"""C03 — transfers and rounds conserve votes: structural clauses (DESIGN §5/C03)."""
from __future__ import annotations

import ast
import re

from vk import astx, numkind, callgraph, facts
from vk.report import shape_rule
from vk.algebra import Normalizer, bool_key, literals, spec_rat, NotClosedForm
from vk.loader import AnalysisError
from rules import c12

EXPLANATION = (
    "Filter, order-pipeline, exactness, shape and weight-provenance rules over the two transfer "
    "functions and every Ballot(...) construction reachable from STV._run_step. Decides: the winner "
    "is filtered out of every position and emptied positions are dropped (both functions agree); the "
    "rebuilt ranking keeps the source order; no library-created float enters a weight (the surplus "
    "factor is exact); the random rule expands winner-first ballots to unit ballots int(weight) times, "
    "selects with random.sample exactly floor(tally)-threshold of the transferable ones and rejects "
    "non-integer weights with TypeError for every ballot; every weight on the STV path is a copy, a "
    "copy times the surplus factor, a unit, zero, or a condense accumulator; ballots are dropped only "
    "by `ranking and weight > 0`. Does NOT decide the numeric conservation law over whole counts or "
    "uniformity of random.sample."
)
EXPLANATION += ' Also decided (prerequisites and later clauses): ballots_by_first_cand files every ballot once, under the member of its first position.'
ASSUMPTIONS = ["random.sample is a uniform sample without replacement (trusted primitive)",
               "Ballot.weight / scores values are Fractions (C11.R2)"]
TRUSTED = ["random.sample", "fractions.Fraction"]

TRANSFERS = ("fractional_transfer", "random_transfer")


def _loop_ballot(f):
    p_bal = f.params[2]
    for lp in (n for n in astx.walk_own(f.node) if isinstance(n, ast.For)):
        if astx.u(lp.iter) in (p_bal, f"enumerate({p_bal})"):
            return lp, astx.assigned_names(lp.target)[-1]
    raise AnalysisError(f"anchor-missing: loop over the ballots parameter in {f.short}")


def r1_winner_filtered(ctx):
    prog = ctx.prog
    keys = {}
    for name in TRANSFERS:
        f = prog.find_func(name)
        win = f.params[0]
        lp, b = _loop_ballot(f)
        N = Normalizer(f.node, inline=False)
        # comprehension rebuilding each position
        rebuild = [n for n in astx.walk_own(lp) if isinstance(n, astx.LCOMP) and astx.u(n.generators[0].iter) == f"{b}.ranking"]
        good = False
        k = ""
        if len(rebuild) == 1:
            outer = rebuild[0]
            elt = outer.elt
            if isinstance(elt, ast.Call) and astx.call_name(elt) == "frozenset" and isinstance(elt.args[0], (ast.ListComp, ast.GeneratorExp)):
                inner = elt.args[0]
                g = inner.generators[0]
                k = " and ".join(bool_key(Normalizer(None, inline=False).guard(t)) for t in g.ifs)
                good = astx.u(g.iter) == astx.u(outer.generators[0].target) and astx.is_name(inner.elt, g.target.id) \
                    and k in (f"not eq({g.target.id}, {win})", f"not eq({win}, {g.target.id})") and not outer.generators[0].ifs
        keys[name] = k.replace(win, "WINNER")
        ctx.check(good, f, rebuild[0] if rebuild else lp, f"{name}: every position keeps c iff c != winner", k,
                  f"position rebuild filter is `{k}`; documented: drop exactly the winner from every position")
        # emptied positions dropped
        rb_st = astx.stmt_of(rebuild[0], astx.parents(f.node)) if rebuild else None
        rb_name = rb_st.targets[0].id if isinstance(rb_st, ast.Assign) and isinstance(rb_st.targets[0], ast.Name) else None
        # the filter over the rebuilt ranking itself (whatever spelling its emptiness test has)
        from vk.listform import _strip
        drop = [n for n in astx.walk_own(lp) if isinstance(n, astx.LCOMP) and len(n.generators) == 1
                and ((rb_name is not None and astx.is_name(n.generators[0].iter, rb_name)) or (rebuild and _strip(n.generators[0].iter) is rebuild[0]))
                and n.generators[0].ifs and isinstance(n.generators[0].target, ast.Name) and astx.is_name(n.elt, n.generators[0].target.id)]
        good = False
        if len(drop) == 1:
            g = drop[0].generators[0]
            kk = [bool_key(Normalizer(None, inline=False).guard(t)) for t in g.ifs]
            good = kk == [f"truthy({g.target.id})"] and astx.is_name(drop[0].elt, g.target.id)
        ctx.check(good, f, drop[0] if drop else lp, f"{name}: emptied positions are dropped, others kept", "", "the empty-position filter changed")
    ctx.check(len(set(keys.values())) == 1, None, None, "sibling agreement: both transfer rules filter the winner the same way", str(keys),
              f"the two transfer functions disagree: {keys}")


def r2_order(ctx):
    prog = ctx.prog
    n = 0
    for name in TRANSFERS:
        n += c12.check_order(ctx, prog, prog.find_func(name))
    if n < 3:
        ctx.vanished("transfer ranking sinks" + ": " + f"only {n} rebuilt rankings found in the transfer functions")


def r3_exact(ctx):
    prog = ctx.prog
    for name in TRANSFERS:
        f = prog.find_func(name)
        ev = numkind.exactness_events(prog, f)
        if not ev:
            ctx.ok(f, f.node, f"{name}: no library-created float reaches a weight", "surplus factor and weights stay exact rationals")
        for e in ev:
            ctx.violated(f, e.node, f"{name}: inexact value reaches an exact sink", e.detail)


def r4_random_rule(ctx):
    prog = ctx.prog
    f = prog.find_func("random_transfer")
    win, fpv, bal, thr = f.params[:4]
    lp, b = _loop_ballot(f)
    N = Normalizer(f.node, inline=False)
    pm = astx.parents(f.node)
    first_key = f"eq({b}.ranking[0], {{{win}}})"
    # unit expansion
    mults = [n for n in astx.walk_own(lp) if isinstance(n, ast.BinOp) and isinstance(n.op, ast.Mult) and isinstance(n.left, ast.List)
             and len(n.left.elts) == 1 and isinstance(n.left.elts[0], ast.Call) and astx.call_name(n.left.elts[0]) == "Ballot"
             and any(k.arg == "ranking" for k in n.left.elts[0].keywords)]
    good = False
    d = ""
    if len(mults) == 1:
        m = mults[0]
        cls, k = c12.weight_class(prog, f, m.left.elts[0])
        lits = literals(N.conj(astx.path_condition(f.node, m, pm)))
        cnt = Normalizer(f.node, inline=False).key(m.right)
        d = f"[Ballot(weight={k})] * {cnt} under {sorted(l for l in lits if 'ranking[0]' in l)}"
        good = cls == "UNIT" and first_key in lits and cnt in (f"floor({b}.weight)", f"int({b}.weight)")
    ctx.check(good, f, mults[0] if mults else lp, "winner-first ballots expand to int(weight) unit ballots", d,
              f"unit expansion is `{d}`; documented [Ballot(weight=1)] * int(weight) for ballots led by the winner")
    # the expansion is what the sample is drawn from
    samples = [c for c in astx.calls_in(f.node, "sample")]
    good = False
    d = ""
    if len(samples) == 1:
        c = samples[0]
        q = prog.resolve_expr(f.module, c.func)
        pop, size = (c.args + [None, None])[:2]
        for kw in c.keywords:
            if kw.arg == "k":
                size = kw.value
            if kw.arg == "population":
                pop = kw.value
        sk = Normalizer(f.node, inline=False, int_atoms=lambda a: True).key(size) if size is not None else ""
        okpop = isinstance(pop, astx.LCOMP) and len(pop.generators) == 1 and [astx.u(t) for t in pop.generators[0].ifs] == [pop.generators[0].target.id + ".ranking"] \
            and astx.is_name(pop.elt, pop.generators[0].target.id)
        src = astx.u(pop.generators[0].iter) if okpop else ""
        # src must be the list filled by the unit expansion
        filled = False
        if mults:
            st = astx.stmt_of(mults[0], pm)
            tgt = st.targets[0].id if isinstance(st, ast.Assign) and isinstance(st.targets[0], ast.Name) else None
            for n in astx.walk_own(lp):
                if isinstance(n, ast.Assign) and isinstance(n.targets[0], ast.Subscript) and astx.is_name(n.targets[0].value, src) and astx.is_name(n.value, tgt):
                    filled = True
                # ... or appended in one go: src.extend(units) / src += units
                arg = None
                if isinstance(n, ast.Call) and isinstance(n.func, ast.Attribute) and n.func.attr == "extend" and astx.is_name(n.func.value, src) and len(n.args) == 1:
                    arg = n.args[0]
                if isinstance(n, ast.AugAssign) and isinstance(n.op, ast.Add) and astx.is_name(n.target, src):
                    arg = n.value
                if arg is not None and (arg is mults[0] or (tgt is not None and astx.is_name(arg, tgt))):
                    filled = True
        want = spec_rat(f"int({fpv}) - {thr}", int_atoms=lambda a: True)
        try:
            oksize = Normalizer(f.node, inline=False, int_atoms=lambda a: True).rat(size).equals(want)
        except Exception:
            oksize = False
        d = f"{q}({src} filtered by .ranking, {sk})"
        good = q == "random.sample" and okpop and filled and oksize
    ctx.check(good, f, samples[0] if samples else f.node, "surplus = random.sample(transferable unit ballots, floor(tally) - threshold)", d,
              f"selection is `{d}`; documented: random.sample over the winner's unit ballots that still have a ranking, size int(fpv) - threshold")
    # selected ballots are added to the ballots that were not led by the winner
    # (L += X and L.extend(X) both add X at the end of L)
    adds = [n.value for n in astx.walk_own(f.node) if isinstance(n, ast.AugAssign) and isinstance(n.op, ast.Add)]
    adds += [n.args[0] for n in astx.walk_own(f.node) if isinstance(n, ast.Call) and isinstance(n.func, ast.Attribute) and n.func.attr == "extend" and len(n.args) == 1]
    st = astx.stmt_of(samples[0], pm) if samples else None
    good = bool(st) and isinstance(st, ast.Assign) and any(astx.u(a) == astx.u(st.targets[0]) for a in adds)
    ctx.check(good, f, st or f.node, "the sampled surplus joins the untouched ballots", "", "sampled ballots are not appended to the result")
    # integrality guard for every ballot
    rs = [r for r in astx.raises_in(f.node) if "integer" in astx.u(r)]
    good = False
    d = ""
    if rs:
        r = rs[0]
        g = N.conj(astx.path_condition(f.node, r, pm))
        d = bool_key(g)
        in_loop = astx.enclosing(r, pm, ast.For) is lp
        no_exit = not any(isinstance(n, (ast.Break, ast.Continue, ast.Return)) for n in astx.walk_own(lp))
        first = astx.stmt_of(r, pm)
        while pm.get(first) is not lp:
            first = pm[first]
        good = in_loop and no_exit and astx.raise_type(r) == "TypeError" and lp.body.index(first) == 0 and f"{b}.weight" in d and ("int(" in d or "floor(" in d)
    ctx.check(good, f, rs[0] if rs else lp, "non-integer weight => TypeError, tested first for every ballot", d,
              f"integrality guard `{d}` is not a TypeError raised first thing for every ballot of the argument")
    # what happens to a ballot depends on that ballot (and the winner) alone: no store in the loop is governed by the
    # ballot's position or by anything carried over from another ballot
    own = {b, win, "math", "int", "float", "Fraction", "frozenset", "len", "isinstance", "set", "bool", "round", "abs"}
    foreign = []
    for n in astx.walk_own(lp):
        is_store = (isinstance(n, ast.Assign) and isinstance(n.targets[0], ast.Subscript)) or isinstance(n, ast.AugAssign) \
            or (isinstance(n, ast.Call) and isinstance(n.func, ast.Attribute) and n.func.attr in ("append", "extend"))
        if not is_store:
            continue
        for t, _pol in astx.path_condition(f.node, n, pm):
            if any(x is t for x in ast.walk(lp)):
                extra = sorted(astx.free_names(t) - own)
                if extra:
                    foreign.append((n, astx.u(t), extra))
    ctx.check(not foreign, f, foreign[0][0] if foreign else lp, "every ballot of the argument is treated by the same rule (no store depends on the ballot's position)", "",
              f"`{astx.u(foreign[0][0])[:50]}` is governed by `{foreign[0][1]}` (mentions {foreign[0][2]}): some ballots are skipped or treated differently by position" if foreign else "")
    # non-winner-first ballots keep their weight
    others = [c for c in astx.calls_in(lp, "Ballot", own_only=False) if not (mults and c is mults[0].left.elts[0])]
    for c in others:
        cls, k = c12.weight_class(prog, f, c)
        lits = literals(N.conj(astx.path_condition(f.node, c, pm)))
        ctx.check(cls == "COPY" and ("not " + first_key) in lits, f, c, "ballots not led by the winner keep their weight", k,
                  f"weight `{k}` ({cls}) under {sorted(l for l in lits if 'ranking[0]' in l)}")


ALLOWED = {"COPY", "SCALED", "UNIT", "ZERO", "ACCUM", "DEFAULT"}


def r5_weight_provenance(ctx):
    prog = ctx.prog
    stv = prog.find_class("STV")
    roots = [prog.find_func("STV._run_step")] + [prog.find_func(n) for n in TRANSFERS]
    reach = callgraph.reach(prog, stv, roots, follow_ctors=False)
    funcs = {f.qualname: f for f, _ in reach.values()}
    funcs[prog.find_func("PreferenceProfile.condense_ballots").qualname] = prog.find_func("PreferenceProfile.condense_ballots")
    n = 0
    for f in sorted(funcs.values(), key=lambda f: f.qualname):
        if isinstance(f.node, ast.Lambda):
            continue
        for c in astx.calls_in(f.node, "Ballot"):
            q = prog.resolve_expr(f.module, c.func)
            if not (q and q.endswith(".Ballot")):
                continue
            n += 1
            cls, k = c12.weight_class(prog, f, c)
            if cls == "OTHER":
                cls = _scaled_or_accum(prog, f, c, k)
            ctx.check(cls in ALLOWED, f, c, f"{f.short}: Ballot weight on the STV path is {cls}", k,
                      f"weight `{k}` is none of copy / copy*surplus-factor / unit / zero / condense accumulator: votes could be created")
    ctx.note(f"R5: {n} Ballot constructions in {len(funcs)} functions reachable from STV._run_step")
    # the condense accumulator: initialised Fraction(0), only += source weight
    f = prog.find_func("PreferenceProfile.condense_ballots")
    from vk import accum
    pmc = astx.parents(f.node)
    accs = [a for a in accum.accumulations(f.node) if re.fullmatch(r"\w+\.weight", astx.u(a.inc))]
    acc = accs[0].node if accs else None
    # one accumulation of the source weight per ballot, unconditional, whose first stored value is that weight (sum starts at 0)
    good = len(accs) == 1 and not accs[0].conditional and accs[0].first == accs[0].inc_key and \
        isinstance(astx.enclosing(accs[0].node, pmc, ast.For), ast.For)
    ctx.check(good, f, acc or f.node, "condense accumulates += weight from Fraction(0)", "", "the condense accumulator is not `0 then += ballot.weight`")


def _scaled_or_accum(prog, f, c, k):
    w = next((kw.value for kw in c.keywords if kw.arg == "weight"), None)
    if f.name == "fractional_transfer" and isinstance(w, ast.Name):
        # decided exactly by C02.R4; here: every definition is W or W * factor
        lp, b = _loop_ballot(f)
        ok = True
        for st, dv in astx.defs_of(f.node, w.id):
            if dv is None:
                ok = False
                continue
            try:
                r = Normalizer(f.node, inline=True, rename=lambda e: "W" if astx.u(e) == f"{b}.weight" else None).rat(dv)
                q = (r / spec_rat("W")).normalised()
                ok = ok and "W" not in q.atoms()  # weight * (something that does not mention the weight), no additive term
            except NotClosedForm:
                ok = False
        return "SCALED" if ok else "OTHER"
    if f.name == "condense_ballots" and isinstance(w, ast.Name):
        for n in astx.walk_own(f.node):
            if isinstance(n, (ast.For, ast.comprehension)) and isinstance(n.target, ast.Tuple) and w.id in astx.assigned_names(n.target) and astx.u(n.iter).endswith(".items()"):
                return "ACCUM"
    return "OTHER"


def r6_dropped(ctx):
    prog = ctx.prog
    for name in TRANSFERS:
        f = prog.find_func(name)
        rets = [n for n in astx.walk_own(f.node) if isinstance(n, ast.Return)]
        comps = [n for r in rets for n in ast.walk(r) if isinstance(n, astx.LCOMP)]
        good = False
        d = ""
        if len(comps) == 1:
            g = comps[0].generators[0]
            v = g.target.id
            ks = sorted(bool_key(Normalizer(None, inline=False).guard(t)) for t in g.ifs)
            d = str(ks)
            good = ks in ([f"(not le({v}.weight, 0) and truthy({v}.ranking))"], sorted([f"not le({v}.weight, 0)", f"truthy({v}.ranking)"])) and astx.is_name(comps[0].elt, v)
            good = good and ".condense_ballots()" in astx.u(rets[0].value)
        ctx.check(good, f, comps[0] if comps else f.node, f"{name}: result keeps b iff b.ranking and b.weight > 0, condensed", d,
                  f"result filter is {d}; documented: drop only exhausted / zero-weight ballots")


def r7_surplus_factor(ctx):
    """The fractional rule's factor (same obligations as C02.R4, restricted to fractional_transfer)."""
    from rules import c02
    sub = type(ctx)(ctx.prog, ctx.prop, ctx.tier)
    c02.r4_surplus_factor(sub)
    n = 0
    for o in sub.obs:
        if o.function.endswith("fractional_transfer"):
            o.rule = "C03.R7"
            ctx.obs.append(o)
            n += 1
    if n == 0:
        ctx.vanished("fractional_transfer weight definitions")


def _cursor_sites(prog):
    """Slice stores L[i : i + len(X)] = X (a cursor filling a pre-sized list)."""
    out = []
    for f in prog.iter_functions(("src/votekit/elections/", "src/votekit/utils.py")):
        if isinstance(f.node, ast.Lambda):
            continue
        for n in astx.walk_own(f.node):
            if isinstance(n, ast.Assign) and isinstance(n.targets[0], ast.Subscript) and isinstance(n.targets[0].slice, ast.Slice) and isinstance(n.value, ast.Name):
                sl = n.targets[0].slice
                if isinstance(sl.lower, ast.Name) and sl.upper is not None and sl.step is None:
                    out.append((f, n))
    return out


def r8_cursor_discipline(ctx):
    prog = ctx.prog
    sites = _cursor_sites(prog)
    for f, n in sites:
        pm = astx.parents(f.node)
        cur = n.targets[0].slice.lower.id
        x = n.value.id
        N = Normalizer(f.node, inline=False, int_atoms=lambda a: True)
        width_ok = False
        try:
            width_ok = (N.rat(n.targets[0].slice.upper) - N.rat(n.targets[0].slice.lower)).equals(spec_rat(f"len({x})", int_atoms=lambda a: True))
        except NotClosedForm:
            pass
        blk = pm[n]
        seq = None
        for fld in ("body", "orelse", "finalbody"):
            if n in getattr(blk, fld, []):
                seq = getattr(blk, fld)
        nxt = seq[seq.index(n) + 1] if seq is not None and seq.index(n) + 1 < len(seq) else None
        adv_ok = isinstance(nxt, ast.AugAssign) and astx.is_name(nxt.target, cur) and isinstance(nxt.op, ast.Add) and astx.u(nxt.value) == f"len({x})"
        # (`cur = cur + len(x)` is the same advance)
        if isinstance(nxt, ast.Assign) and len(nxt.targets) == 1 and astx.is_name(nxt.targets[0], cur) and astx.u(nxt.value) in (f"{cur} + len({x})", f"len({x}) + {cur}"):
            adv_ok = True
        # the written value is (re)bound in the same block before the store, so each store writes fresh material
        fresh = any(isinstance(a_, ast.Assign) and x in astx.assigned_names(a_.targets[0]) for s_ in seq[: seq.index(n)] for a_ in ast.walk(s_)) if seq is not None else False
        ctx.check(width_ok and adv_ok and fresh, f, n, f"{f.short}: cursor `{cur}` fills [{cur} : {cur}+len({x})] and then advances by len({x}) in the same block", astx.u(n)[:80],
                  f"`{astx.u(n)[:70]}`: slice width = len({x}): {width_ok}; next statement advances the cursor by len({x}): {adv_ok}; value bound in the same block: {fresh}. "
                  "Otherwise later writes overwrite earlier ballots (votes vanish) or leave gaps")
        # the cursor starts at 0 before the first store
        inits = [dv for st, dv in astx.defs_of(f.node, cur) if dv is not None and cur not in astx.free_names(dv)]
        ctx.check(len(inits) >= 1 and all(astx.is_const(d, 0) for d in inits), f, n, f"{f.short}: cursor `{cur}` starts at 0", "", f"cursor `{cur}` is initialised with something other than 0")
    # a list grown with extend / += needs no cursor: such sites stand in for the cursor stores they replace
    grown = 0
    for name in ("STV._simultaneous_elect_step", "STV._single_elect_step", "random_transfer", "tiebroken_ranking"):
        try:
            g = prog.find_func(name)
        except AnalysisError:
            continue
        for n in astx.walk_own(g.node):
            if (isinstance(n, ast.Call) and isinstance(n.func, ast.Attribute) and n.func.attr == "extend" and isinstance(n.func.value, ast.Name)) \
                    or (isinstance(n, ast.AugAssign) and isinstance(n.op, ast.Add) and isinstance(n.target, ast.Name) and not astx.u(n.value).startswith("len(")
                        and isinstance(astx.unique_def(g.node, n.target.id), (ast.List, type(None))) and isinstance(n.value, (ast.Name, ast.Call, ast.BinOp, ast.Subscript))
                        and any(isinstance(dv, ast.List) for _st, dv in astx.defs_of(g.node, n.target.id))):
                grown += 1
                ctx.ok(g, n, f"{g.short}: list grown at its end (extend / +=): nothing can be overwritten or left as a gap", astx.u(n)[:70])
    if len(sites) + grown < 4:
        ctx.vanished("cursor-filled lists" + ": " + f"only {len(sites)} cursor stores and {grown} extend / += sites found (STV steps, random_transfer, tiebroken_ranking expected)")


def r9_selector_partition(ctx):
    """STV's one-by-one step carries forward the piles of exactly the candidates the selector returns as remaining;
    a candidate missing from that list loses its pile (weight vanishes without being exhausted).  C10.R5's shape
    rules on elect_cands_from_set_ranking decide that elected + remaining is the whole input, in order."""
    from rules import c10
    sub = type(ctx)(ctx.prog, ctx.prop, ctx.tier)
    c10.r5_groups_obey(sub)
    for o in sub.obs:
        o.rule = "C03.R9"
        ctx.obs.append(o)
    if len(sub.obs) < 4:
        ctx.vanished(f"selector obligations: only {len(sub.obs)}")


def r10_transfer_wiring(ctx):
    """Votes are conserved only if every elected candidate's own pile - and nothing else - goes through the transfer
    function once, with that candidate's tally and the quota, and every other pile is carried over unchanged.
    Decided by C02.R8 (transfer wiring of the two STV elect steps)."""
    from rules import c02
    sub = type(ctx)(ctx.prog, ctx.prop, ctx.tier)
    c02.r8_transfer_wiring(sub)
    n = 0
    for o in sub.obs:
        if "transfer" in o.construct or "carried over" in o.construct or "carried-over" in o.construct or "ballot" in o.construct:
            o.rule = "C03.R10"
            ctx.obs.append(o)
            n += 1
    if n < 2:
        ctx.vanished(f"transfer wiring obligations: only {n}")


def r11_weight_validator(ctx):
    """The transfer functions compute exact Fraction weights and hand them to Ballot(...); they stay exact only if the
    weight validator of Ballot leaves a Fraction as it is (limit_denominator is for floats: applied to a Fraction it
    moves any weight whose denominator exceeds 10**6).  Decided by the weight clauses of C11.R2."""
    from rules import c11
    sub = type(ctx)(ctx.prog, ctx.prop, ctx.tier)
    c11.r2_validators(sub)
    n = 0
    for o in sub.obs:
        if "weight" in (o.construct or "").lower():
            o.rule = "C03.R11"
            ctx.obs.append(o)
            n += 1
    if n < 1:
        ctx.vanished(f"Ballot weight validator obligations: only {n}")


def r12_piles(ctx):
    """ballots_by_first_cand: the piles partition the ballots by their FIRST position - every ballot of the profile is
    filed once, under the member of ranking[0].  (What the tallies of an STV round and the transfer of a pile stand on.)"""
    prog = ctx.prog
    f = prog.find_func("ballots_by_first_cand")
    ctx.consult(f)
    pm = astx.parents(f.node)
    loops = [n for n in astx.walk_own(f.node) if isinstance(n, ast.For) and isinstance(n.target, ast.Name) and astx.u(n.iter).endswith(".ballots")]
    if len(loops) != 1:
        ctx.undecided(f, f.node, "piles by first preference", f"{len(loops)} loops over the profile's ballots (one expected)")
        return
    lp = loops[0]
    b = lp.target.id
    # (a) the position read
    subs = [n for n in ast.walk(lp) if isinstance(n, ast.Subscript) and astx.u(n.value) == f"{b}.ranking"]
    if not subs:
        ctx.undecided(f, lp, "the pile key is read from the first position", f"no subscript of {b}.ranking in the loop: the first position is read in a form this clause does not model")
    for n in subs:
        if astx.is_const(n.slice):
            ctx.check(astx.is_const(n.slice, 0), f, n, "the pile key is read from the first position", astx.u(n),
                      f"`{astx.u(n)}`: the ballot is filed under a candidate of another position than the first, so tallies are not first-preference tallies")
        else:
            ctx.undecided(f, n, "the pile key is read from the first position", f"`{astx.u(n)}`: position is not a literal")
    # (b) every ballot is filed once
    def is_store(n):
        if isinstance(n, ast.Call) and isinstance(n.func, ast.Attribute) and n.func.attr == "append" and len(n.args) == 1 and astx.is_name(n.args[0], b):
            return True
        if isinstance(n, ast.AugAssign) and isinstance(n.op, ast.Add) and isinstance(n.target, ast.Subscript) and astx.u(n.value) in (f"[{b}]", f"({b},)"):
            return True
        if isinstance(n, ast.Assign) and isinstance(n.targets[0], ast.Subscript) and isinstance(n.value, ast.BinOp) and isinstance(n.value.op, ast.Add) \
                and astx.u(n.value.right) in (f"[{b}]", f"({b},)") and astx.u(n.value.left) == astx.u(n.targets[0]):
            return True
        return False
    stores = [n for n in ast.walk(lp) if is_store(n)]
    if not stores:
        others = [n for n in ast.walk(lp) if isinstance(n, ast.Name) and n.id == b and isinstance(n.ctx, ast.Load)
                  and not isinstance(astx.stmt_of(n, pm), (ast.If, ast.Raise, ast.Assert)) and not isinstance(pm.get(n), ast.Attribute)]
        if others:
            ctx.undecided(f, lp, "every ballot is filed in a pile", f"`{b}` is passed on in a form this clause does not model")
        else:
            ctx.violated(f, lp, "every ballot is filed in a pile", f"the loop over the ballots never stores `{b}`: the piles stay empty and every tally and transfer built on them loses the votes")
        return
    if len(stores) > 1:
        ctx.undecided(f, stores[1], "every ballot is filed in a pile", f"{len(stores)} stores of `{b}`")
        return
    st = stores[0]
    skips = [n for n in ast.walk(lp) if isinstance(n, (ast.Continue, ast.Break)) and astx.enclosing(n, pm, (ast.For, ast.While)) is lp]
    rets = [n for n in ast.walk(lp) if isinstance(n, ast.Return)]
    if skips or rets:
        x = (skips + rets)[0]
        ctx.violated(f, x, "every ballot is filed in a pile", f"`{astx.u(x)}` inside the loop: ballots after (or at) this point are not filed, their votes vanish from the piles")
        return
    cur, free = st if isinstance(st, ast.stmt) else astx.stmt_of(st, pm), True
    why = ""
    while cur is not lp:
        par = pm[cur]
        if isinstance(par, ast.If):
            other = par.orelse if cur in par.body else par.body
            if not (other and astx.always_raises(other)):
                free, why = False, f"the store stands under `{astx.u(par.test)[:60]}` whose other branch does not raise"
                break
        elif par is not lp and not isinstance(par, (ast.With, ast.Try)):
            free, why = False, f"the store stands inside a {type(par).__name__}"
            break
        cur = par
    if free:
        ctx.ok(f, st, "every ballot is filed in a pile", "the only ways past the store are raises")
    else:
        ctx.undecided(f, st, "every ballot is filed in a pile", why)


RULES = [
    ("C03.R11", r11_weight_validator, 3, "prerequisite: Ballot's weight validator keeps an exact Fraction weight as it is (C11.R2)"),
    ("C03.R1", r1_winner_filtered, 5, "the winner is filtered out of every position; emptied positions dropped; siblings agree"),
    ("C03.R2", r2_order, 3, "the rebuilt ranking keeps the source order (order-preserving pipeline)"),
    ("C03.R3", r3_exact, 2, "no library-created float reaches a weight in the transfer functions"),
    ("C03.R4", r4_random_rule, 5, "random rule: unit expansion, random.sample of floor(tally)-threshold, integrality TypeError"),
    ("C03.R5", r5_weight_provenance, 9, "every Ballot weight on the STV path is copy / scaled copy / unit / zero / accumulator"),
    ("C03.R6", r6_dropped, 2, "ballots leave the result only through `ranking and weight > 0`"),
    ("C03.R7", r7_surplus_factor, 3, "fractional rule: weight*(tally-threshold)/tally on winner-first ballots, full weight otherwise (formula normal form)"),
    ("C03.R9", r9_selector_partition, 4, "prerequisite: the selector's elected + remaining partition its input (no candidate's pile is lost)"),
    ("C03.R10", r10_transfer_wiring, 2, "prerequisite: each elected candidate's own pile goes through the transfer function once (C02.R8)"),
    ("C03.R12", r12_piles, 2, "prerequisite: ballots_by_first_cand files every ballot once, under the candidate of its first position"),
    ("C03.R8", r8_cursor_discipline, 5, "every cursor-filled ballot list advances its cursor by exactly what was written, in the same block"),
]

TR = "src/votekit/elections/transfers.py"
PP = "src/votekit/pref_profile.py"
FAULTS = [
    ("fractional keeps winner", [(TR, "                [frozenset([c for c in s if c != winner]) for s in ballot.ranking]\n            )\n            new_ranking = tuple([s for s in new_ranking if len(s) != 0])\n\n            transfered_ballots[i]",
                                  "                [frozenset([c for c in s if c == winner]) for s in ballot.ranking]\n            )\n            new_ranking = tuple([s for s in new_ranking if len(s) != 0])\n\n            transfered_ballots[i]")], "C03.R1"),
    ("int/int factor again", [(TR, "transfer_value = (fpv - threshold) / Fraction(fpv)", "transfer_value = (fpv - threshold) / fpv")], "C03.R3"),
    ("float factor", [(TR, "transfered_weight = ballot.weight * Fraction(transfer_value)", "transfered_weight = ballot.weight * Fraction(float(transfer_value))")], "C03.R3"),
    ("sample size off by one", [(TR, "int(fpv) - threshold\n", "int(fpv) - threshold + 1\n")], "C03.R4"),
    ("choices with replacement", [(TR, "surplus_ballots = random.sample(\n        [b for b in winner_ballots if b.ranking], int(fpv) - threshold\n    )", "surplus_ballots = random.choices(\n        [b for b in winner_ballots if b.ranking], k=int(fpv) - threshold\n    )")], "C03.R4"),
    ("unit ballots of weight 2", [(TR, "                        weight=Fraction(1),", "                        weight=Fraction(2),")], "C03.R"),
    ("expansion ceil", [(TR, "] * int(ballot.weight)", "] * (int(ballot.weight) + 1)")], "C03.R4"),
    ("integrality only first ballot", [(TR, "            raise TypeError(f\"Ballot {ballot} does not have integer weight.\")\n", "            raise TypeError(f\"Ballot {ballot} does not have integer weight.\")\n        if i > 0:\n            continue\n")], "C03.R4"),
    ("reversed transfer ranking", [(TR, "            new_ranking = tuple([s for s in new_ranking if len(s) != 0])\n\n            transfered_ballots[i] = Ballot(\n                ranking=new_ranking,", "            new_ranking = tuple([s for s in new_ranking if len(s) != 0])\n\n            transfered_ballots[i] = Ballot(\n                ranking=new_ranking[::-1],")], "C03.R2"),
    ("condense adds one", [(PP, "            weight_accumulator[weightless_ballot] += ballot.weight", "            weight_accumulator[weightless_ballot] += ballot.weight + 1")], "C03.R5"),
    ("result keeps zero weights", [(TR, "ballots=tuple([b for b in transfered_ballots if b.ranking and b.weight > 0])", "ballots=tuple([b for b in transfered_ballots if b.ranking and b.weight >= 0])")], "C03.R6"),
    ("transfer weight plus constant", [(TR, "transfered_weight = ballot.weight * Fraction(transfer_value)", "transfered_weight = ballot.weight * Fraction(transfer_value) + 1")], None),
]
STVP = "src/votekit/elections/election_types/ranking/stv.py"
FAULTS += [
    ("factor floors the tally", [(TR, "transfer_value = (fpv - threshold) / Fraction(fpv)", "transfer_value = Fraction(int(fpv) - threshold, int(fpv))")], "C03.R7"),
    ("cursor advance dedented", [(STVP, "                new_ballots[\n                    ballot_index : (ballot_index + len(transfer_ballots))\n                ] = transfer_ballots\n                ballot_index += len(transfer_ballots)\n\n        for candidate in set(",
                                  "                new_ballots[\n                    ballot_index : (ballot_index + len(transfer_ballots))\n                ] = transfer_ballots\n            ballot_index += len(transfer_ballots)\n\n        for candidate in set(")], "C03.R8"),
    ("cursor advance by one", [(TR, "                winner_index += len(new_ballots)", "                winner_index += 1")], "C03.R8"),
]
BENIGN = [
    ("factor via local fraction", [(TR, "transfer_value = (fpv - threshold) / Fraction(fpv)", "fpv = Fraction(fpv)\n    transfer_value = (fpv - threshold) / fpv")]),
    ("winner filter operands swapped", [(TR, "                [frozenset([c for c in s if c != winner]) for s in ballot.ranking]\n            )\n            new_ranking = tuple([s for s in new_ranking if len(s) != 0])\n\n            transfered_ballots[i]",
                                         "                [frozenset([c for c in s if winner != c]) for s in ballot.ranking]\n            )\n            new_ranking = tuple([s for s in new_ranking if len(s) > 0])\n\n            transfered_ballots[i]")]),
]

# piles by first preference (C03.R12)
UTL = "src/votekit/utils.py"
_PILE = "            first_cand = list(b.ranking[0])\n"
_PILE_STORE = "            cand_dict[first_cand[0]].append(b)\n"
FAULTS += [
    ("piles keyed by the last position", [(UTL, _PILE, "            first_cand = list(b.ranking[-1])\n")], "C03.R12"),
    ("piles keyed by the second position", [(UTL, _PILE, "            first_cand = list(b.ranking[1])\n")], "C03.R12"),
    ("ballots never filed", [(UTL, _PILE_STORE, "")], "C03.R12"),
    ("filing stops at the first bullet vote", [(UTL, _PILE_STORE, _PILE_STORE + "            if len(b.ranking) == 1:\n                break\n")], "C03.R12"),
]
BENIGN += [
    ("pile grown with +=", [(UTL, _PILE_STORE, "            cand_dict[first_cand[0]] += [b]\n")]),
    ("sole member unpacked", [(UTL, _PILE_STORE, "            (only,) = first_cand\n            cand_dict[only].append(b)\n")]),
    ("ranking test as a guard clause", [(UTL, "        if not b.ranking:\n            raise TypeError(\"Ballots must have rankings.\")\n        else:\n            # find first place candidate, ensure there is only one\n"
                                         "            first_cand = list(b.ranking[0])\n            if len(first_cand) > 1:\n                raise ValueError(f\"Ballot {b} has a tie for first.\")\n\n            cand_dict[first_cand[0]].append(b)\n",
                                         "        if not b.ranking:\n            raise TypeError(\"Ballots must have rankings.\")\n        top = b.ranking[0]\n        if len(top) > 1:\n            raise ValueError(f\"Ballot {b} has a tie for first.\")\n        cand_dict[next(iter(top))].append(b)\n")]),
]
