"""C05 — score-ballot elections: structural clauses (DESIGN §5/C05)."""
from __future__ import annotations

import ast
import re

from vk import astx, facts, numkind, elect
from vk.report import shape_rule
from vk.algebra import Normalizer, bool_key, literals, spec_rat, NotClosedForm, atoms_of, simplify
from vk.loader import AnalysisError
from rules import c20, c04

EXPLANATION = (
    "For-all, boundary-polarity, Optional-vs-zero, totals-formula and parameter-table rules over "
    "GeneralRating and its five public subclasses. Decides: the validation loop examines every "
    "ballot and rejects iff score > L, score < 0, or (budget set and sum > k), with TypeError, after "
    "L and k are stored and before the election runs; an Optional numeric limit is tested with "
    "`is None`, never by truthiness (0 is a value, not 'absent'); totals are the sum over ballots of "
    "score * weight in exact arithmetic over all candidates; each subclass passes the documented "
    "(m, L, k) to GeneralRating; the winners are selected by the shared top-m selector. Does NOT "
    "decide the arithmetic of the totals on all inputs."
)
ASSUMPTIONS = ["Ballot.scores values and weight are Fractions; zero scores are dropped (C11.R2)"]
TRUSTED = ["fractions.Fraction"]


def _sub(ctx, fn, rule, only=None):
    sub = type(ctx)(ctx.prog, ctx.prop, ctx.tier)
    sub.cur_rule = rule
    try:
        fn(sub)
    finally:
        # verdicts reached before an anchor went missing still count
        for o in sub.obs:
            if only is None or only(o):
                o.rule = rule
                ctx.obs.append(o)


def r1_r3_validation(ctx):
    # rows 8-11 of the C20 table: for-all loop, polarity, TypeError, ordering
    _sub(ctx, c20.r2_score_limits, "C05.R1")
    _sub(ctx, c20.r1_ballot_data, "C05.R1", only=lambda o: "row 8" in o.construct or "row 12" in o.construct)
    # the only exits of the validation loop are raises
    f = ctx.prog.find_func("GeneralRating._validate_profile")
    loops = [n for n in astx.walk_own(f.node) if isinstance(n, ast.For)]
    good = len(loops) == 1 and not any(isinstance(n, (ast.Break, ast.Continue, ast.Return)) for n in astx.walk_own(f.node))
    ctx.check(good, f, loops[0] if loops else f.node, "validation loop has no exit other than raise", "", "the validation loop can stop before the last ballot")
    wrong = [r for r in astx.raises_in(f.node) if astx.raise_type(r) != "TypeError"]
    if wrong:
        ctx.violated(f, wrong[0], "all four rejections raise TypeError", f"a rejection raises {astx.raise_type(wrong[0])}")
    else:
        # fewer than four raise statements: one was dropped (a small edit, reported) or the tests were gathered elsewhere
        ctx.check_shape(len(astx.raises_in(f.node)) >= 4, f, f.node, "all four rejections raise TypeError", "", "a rejection raises another type or is missing")


def r4_totals(ctx):
    prog = ctx.prog
    f = prog.find_func("score_profile_from_ballot_scores")
    pm = astx.parents(f.node)
    from vk import accum
    accs = accum.accumulations(f.node)
    augs = [a.node for a in accs]
    good = False
    d = ""
    if len(accs) == 1 and not accs[0].conditional:
        a = accs[0]
        loops = [l for l in astx.enclosing_loops(a.node, pm, f.node) if isinstance(l, ast.For)]
        if len(loops) == 2:
            inner, outer = loops
            b = astx.u(outer.target)
            if isinstance(inner.target, ast.Tuple) and astx.u(inner.iter) == f"{b}.scores.items()" and astx.u(outer.iter).endswith(".ballots"):
                c, sc = [astx.u(x) for x in inner.target.elts]
                # single-assignment temporaries (w = ballot.weight) are read through
                N = Normalizer(f.node, inline=True, no_inline=[b, c, sc], rename=lambda e: {f"{b}.weight": "W", sc: "S"}.get(astx.u(e)))
                try:
                    got = N.rat(a.inc)
                    good = got.equals(spec_rat("S * W")) and astx.u(a.key) == c
                    d = got.key()
                except NotClosedForm as e:
                    d = str(e)
    ctx.check(good, f, augs[0] if augs else f.node, "total[c] += score * weight for every (ballot, candidate)", d,
              f"accumulation is `{d}`; documented score * weight summed over all ballots")
    ev = numkind.exactness_events(prog, f)
    ctx.check(not ev, f, ev[0].node if ev else f.node, "totals stay exact rationals", "", ev[0].detail if ev else "")
    init = [n for n in astx.walk_own(f.node) if isinstance(n, ast.DictComp) and astx.u(n.generators[0].iter).endswith(".candidates")]
    ctx.check(bool(init) and astx.u(init[0].value) == "Fraction(0)", f, init[0] if init else f.node, "every candidate of the profile starts at 0 (unscored candidates stay listed)", "",
              "totals are not initialised over all candidates")


SPEC_TABLE = {
    # class: {GeneralRating parameter: expected argument expression (in the subclass constructor's scope)}
    "Rating": {"m": "m", "L": "L", "k": None, "tiebreak": "tiebreak"},
    "Limited": {"m": "m", "L": "k", "k": "k", "tiebreak": "tiebreak"},
    "Approval": {"m": "m", "L": "1", "k": None, "tiebreak": "tiebreak"},
    "BlocPlurality": {"m": "m", "L": "1", "k": "k", "tiebreak": "tiebreak"},
}


def _passed(f, e):
    """The text of an argument as the callee receives it: a local temporary with one plain definition is read through,
    an explicit None is the absent argument."""
    if e is None:
        return None
    if isinstance(e, ast.Name) and e.id not in f.params:
        dv = astx.unique_def(f.node, e.id)
        if dv is not None:
            e = dv
    if astx.is_const(e, None):
        return None
    return astx.u(e)


def _is_default_budget(f, e):
    """`m if k is None else k` (either way round), possibly through a temporary."""
    if isinstance(e, ast.Name) and e.id not in f.params:
        e = astx.unique_def(f.node, e.id) or e
    if isinstance(e, ast.Name) and e.id not in f.params:
        # the same choice as two guarded assignments of one temporary (what the loader makes of a conditional expression)
        pm = astx.parents(f.node)
        N = Normalizer(f.node, inline=False)
        cases = {}
        for st, dv in astx.defs_of(f.node, e.id):
            if dv is None:
                return False
            cases[frozenset(literals(N.conj(astx.path_condition(f.node, st, pm))))] = astx.u(dv)
        return cases == {frozenset({"isnone(k)"}): "m", frozenset({"not isnone(k)"}): "k"}
    if not isinstance(e, ast.IfExp):
        return False
    k = bool_key(Normalizer(f.node, inline=False).guard(e.test))
    a, b = astx.u(e.body), astx.u(e.orelse)
    return (k == "isnone(k)" and (a, b) == ("m", "k")) or (k == "not isnone(k)" and (a, b) == ("k", "m"))


def r5_subclass_table(ctx):
    prog = ctx.prog
    gr = prog.find_func("GeneralRating.__init__")
    for cname, want in SPEC_TABLE.items():
        f = prog.find_func(f"{cname}.__init__")
        call = facts.super_init_call(f)
        if call is None:
            ctx.violated(f, f.node, f"{cname}: constructor chain", "no super().__init__ call")
            continue
        b = astx.bind_args(call, gr.params, skip_self=True)
        got = {p: _passed(f, b.get(p)) for p in want}
        if cname == "BlocPlurality" and _is_default_budget(f, b.get("k")):
            got["k"] = "k"   # the documented default written as one expression (decided below)
        prof_ok = astx.is_name(b.get(gr.params[1]), f.params[1])
        ctx.check(got == want and prof_ok, f, call, f"{cname} -> GeneralRating(m={want['m']}, L={want['L']}, k={want['k']})", str(got),
                  f"{cname} passes {got}; documented {want}")
    # Cumulative -> Limited(m, k=m)
    f = prog.find_func("Cumulative.__init__")
    call = facts.super_init_call(f)
    lim = prog.find_func("Limited.__init__")
    b = astx.bind_args(call, lim.params, skip_self=True) if call is not None else {}
    got = {p: _passed(f, b.get(p)) for p in ("m", "k", "tiebreak")}
    ctx.check(got == {"m": "m", "k": "m", "tiebreak": "tiebreak"} and prog.find_class("Cumulative").base_names[0].endswith(".Limited"), f, call or f.node,
              "Cumulative -> Limited(m, k=m)", str(got), f"Cumulative passes {got}; documented budget k = m")
    # BlocPlurality: k defaults to m only when absent
    f = prog.find_func("BlocPlurality.__init__")
    pm = astx.parents(f.node)
    N = Normalizer(f.node, inline=False)
    defs = [st for st, dv in astx.defs_of(f.node, "k") if dv is not None]
    good = len(defs) == 1 and astx.is_name(defs[0].value, "m") and literals(N.conj(astx.path_condition(f.node, defs[0], pm))) == {"isnone(k)"}
    call = facts.super_init_call(f)
    if not defs and call is not None and _is_default_budget(f, astx.bind_args(call, gr.params, skip_self=True).get("k")):
        good = True
    ctx.check(good, f, defs[0] if defs else f.node, "BlocPlurality: k = m only when k is None", "", "BlocPlurality's default budget is not `m when k is None`")
    # parameters are not altered between constructor and use
    for attr in ("L", "k", "m", "tiebreak"):
        ws = [(g, n) for g, n in facts.writers_of_attr(prog, attr, classes=prog.subclasses("GeneralRating"))]
        good = len(ws) == 1 and ws[0][0].short == "GeneralRating.__init__" and astx.u(astx.parents(ws[0][0].node)[ws[0][1]].value) == attr
        ctx.check(good, ws[0][0] if ws else gr, ws[0][1] if ws else gr.node, f"self.{attr} is the unmodified constructor parameter", "",
                  f"self.{attr} is written {len(ws)} times or not from the parameter")


def _optional_numeric_params(f):
    out = []
    a = f.node.args
    for p in a.posonlyargs + a.args + a.kwonlyargs:
        ann = astx.u(p.annotation) if p.annotation is not None else ""
        if ann.startswith("Optional[") and any(t in ann for t in ("int", "float", "Fraction")):
            out.append(p.arg)
    return out


def r6_optional_vs_zero(ctx):
    prog = ctx.prog
    n = 0
    for cls in prog.subclasses("GeneralRating"):
        init = cls.methods.get("__init__")
        if init is None:
            continue
        opt = _optional_numeric_params(init)
        if not opt:
            continue
        # the parameter itself in the constructor, and self.<p> in every method of the family
        for f in [m for c in prog.subclasses("GeneralRating") for m in c.methods.values()]:
            N = Normalizer(f.node, inline=False)
            for t in (x.test for x in astx.walk_own(f.node) if isinstance(x, (ast.If, ast.IfExp, ast.While))):
                for a in atoms_of(simplify(N.guard(t))):
                    for p in opt:
                        names = {p} if f is init else set()
                        if cls.name == "GeneralRating" or f.cls is cls:
                            names.add(f"self.{p}")
                        if any(a == f"truthy({nm})" for nm in names):
                            n += 1
                            ctx.violated(f, t, f"Optional numeric `{p}` tested by truthiness", f"`{astx.u(t)}`: 0 is treated like None, so {p}=0 silently means 'no limit'")
                        elif any(a == f"isnone({nm})" for nm in names):
                            n += 1
                            ctx.ok(f, t, f"Optional numeric `{p}` tested with is None", astx.u(t))
    if n == 0:
        ctx.vanished("no test of an Optional numeric limit found in the rating family")


def r7_election(ctx):
    _sub(ctx, c04.r6_top_m, "C05.R7", only=lambda o: "GeneralRating" in o.construct or "selector consumes" in o.construct)
    f = ctx.prog.find_func("GeneralRating._is_finished")
    ctx.consult(f)
    # "the m highest totals win, ties broken or rejected": totals that are equal must land in one group, different ones never
    _sub(ctx, c04.r5_grouping_direction, "C05.R7", only=lambda o: o.function.endswith("score_dict_to_ranking"))
    # replaying the single round must not record again (shared with C09.R2)
    from rules import c09
    sub = type(ctx)(ctx.prog, ctx.prop, ctx.tier)
    c09.r2_writes_guarded(sub)
    for o in sub.obs:
        if o.function.endswith("GeneralRating._run_step"):
            o.rule = "C05.R7"
            ctx.obs.append(o)


RULES = [
    ("C05.R1", r1_r3_validation, 7, "for-all validation loop; reject iff score > L, score < 0, sum > k (budget set); TypeError; ordering"),
    ("C05.R4", r4_totals, 3, "totals = sum of score * weight over all ballots, exact, over all candidates"),
    ("C05.R5", r5_subclass_table, 10, "subclass parameter table (Rating, Limited, Cumulative, Approval, BlocPlurality); parameters unmodified"),
    ("C05.R6", r6_optional_vs_zero, 3, "Optional numeric limits are tested with `is None`, not truthiness"),
    ("C05.R7", r7_election, 2, "winners chosen by the shared top-m selector over the recorded order"),
]

RT = "src/votekit/elections/election_types/scores/rating.py"
AP = "src/votekit/elections/election_types/approval/approval.py"
UT = "src/votekit/utils.py"
FAULTS = [
    ("limit >= L", [(RT, "elif any(score > self.L for score in b.scores.values()):", "elif any(score >= self.L for score in b.scores.values()):")], "C05.R1"),
    ("budget test truthiness again", [(RT, "            if self.k is not None:\n", "            if self.k:\n")], "C05.R"),
    ("budget compares max not sum", [(RT, "                if sum(b.scores.values()) > self.k:", "                if max(b.scores.values()) > self.k:")], "C05.R1"),
    ("validation stops at first good ballot", [(RT, "            if self.k is not None:\n                if sum(b.scores.values()) > self.k:", "            if self.k is not None:\n                if sum(b.scores.values()) <= self.k:\n                    break\n                if sum(b.scores.values()) > self.k:")], "C05.R1"),
    ("totals ignore weight", [(UT, "                scores[c] += score * ballot.weight\n", "                scores[c] += score\n")], "C05.R4"),
    ("totals via float", [(UT, "                scores[c] += score * ballot.weight\n", "                scores[c] += Fraction(float(score) * float(ballot.weight))\n")], "C05.R4"),
    ("approval limit 2", [(AP, "super().__init__(profile, m=m, L=1, tiebreak=tiebreak)", "super().__init__(profile, m=m, L=2, tiebreak=tiebreak)")], "C05.R5"),
    ("bloc plurality no budget", [(AP, "super().__init__(profile, m=m, L=1, k=k, tiebreak=tiebreak)", "super().__init__(profile, m=m, L=1, tiebreak=tiebreak)")], "C05.R5"),
    ("cumulative budget m+1", [(RT, "super().__init__(profile, m=m, k=m, tiebreak=tiebreak)", "super().__init__(profile, m=m, k=m + 1, tiebreak=tiebreak)")], "C05.R5"),
    ("limited per-candidate limit 1", [(RT, "super().__init__(profile, m=m, L=k, k=k, tiebreak=tiebreak)", "super().__init__(profile, m=m, L=1, k=k, tiebreak=tiebreak)")], "C05.R5"),
    ("L stored halved", [(RT, "        self.L = L\n", "        self.L = L / 2\n")], "C05.R5"),
    ("bloc plurality truthiness default", [(AP, "        if k is None:\n            k = m", "        if not k:\n            k = m")], "C05.R"),
    ("rating step records by default", [(RT, "        self, profile: PreferenceProfile, prev_state: ElectionState, store_states=False\n    ) -> PreferenceProfile:\n        \"\"\"\n        Run one step of an election from the given profile and previous state.\n\n        Args:", "        self, profile: PreferenceProfile, prev_state: ElectionState, store_states=True\n    ) -> PreferenceProfile:\n        \"\"\"\n        Run one step of an election from the given profile and previous state.\n\n        Args:")], "C05.R7"),
    ("rating elects m+1", [(RT, "prev_state.remaining, self.m, profile=profile, tiebreak=self.tiebreak", "prev_state.remaining, self.m + 1, profile=profile, tiebreak=self.tiebreak")], None),
]
BENIGN = [
    ("limit comparison flipped operands", [(RT, "elif any(score > self.L for score in b.scores.values()):", "elif any(self.L < score for score in b.scores.values()):")]),
    ("is not None spelled via not-is", [(RT, "            if self.k is not None:\n", "            if not (self.k is None):\n")]),
]
