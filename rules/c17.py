"""C17 — randomised rules and random tiebreaks: structural clauses (DESIGN §5/C17)."""
from __future__ import annotations

import ast
import re

from vk import astx, align, elect
from vk.report import shape_rule
from vk.algebra import Normalizer, bool_key, literals, spec_rat, spec_guard, NotClosedForm
from vk.loader import AnalysisError

EXPLANATION = (
    "Alignment, formula and primitive rules over RandomDictator, BoostedRandomDictator and the random "
    "branch of tiebreak_set. Decides: the dictator ballot is drawn by random.choices over the "
    "profile's ballots with exactly their weights (aligned, k=1); the winner is the ballot's first "
    "position, a tied first position is broken by tiebreak_set(..., 'random') and its first element "
    "wins; BoostedRandomDictator takes the squares branch iff u <= 1/(c-1) with u = "
    "random.uniform(0,1) and c the number of remaining candidates, the squares law being "
    "(tally/total)^2 renormalised by its sum over the current tallies, aligned with the candidates; a "
    "single remaining candidate wins outright; the random tiebreak is random.sample(list(S), "
    "k=len(S)), a uniform permutation. Does NOT decide the frequencies themselves."
)
EXPLANATION += ' Also decided (prerequisites and later clauses): the seat winner and nobody else is removed before the next draw (C12.R1 on remove_cand).'
ASSUMPTIONS = ["random.choices / numpy.random.choice draw with the given weights; random.sample(list, k=len) is a uniform permutation (trusted)"]
TRUSTED = ["random.choices", "numpy.random.choice", "random.sample", "random.uniform"]


def _dictator_branch(ctx, f, scope_node, label):
    """scope_node: function node or the else-branch body wrapper where the dictator draw lives."""
    prog = ctx.prog
    pm = astx.parents(f.node)
    draws = [d for d in align.draws_in(prog, f) if d.kind == "random.choices" and any(n is d.call for n in ast.walk(scope_node))]
    if len(draws) != 1:
        ctx.violated(f, f.node, f"{label}: one weighted ballot draw", f"{len(draws)} random.choices calls")
        return None
    d = draws[0]
    ok, why = align.aligned(align.sigs(f, d.pop, d.call), align.sigs(f, d.probs, d.call)) if d.probs is not None else (False, "unweighted")
    pop_atoms = {s[1] for s in align.sigs(f, d.pop, d.call) if s[0] == "atom"}
    w = d.probs
    wd = astx.unique_def(f.node, w.id) if isinstance(w, ast.Name) else w
    okw = isinstance(wd, astx.LCOMP) and re.fullmatch(rf"{wd.generators[0].target.id}\.weight", astx.u(wd.elt)) is not None
    okk = astx.is_const(d.kw.get("k"), 1)
    okpop = pop_atoms == {f"{f.params[1]}.ballots"}
    ctx.check(ok and okw and okk and okpop, f, d.call, f"{label}: dictator ballot ~ random.choices(profile.ballots, weights=[b.weight ...], k=1)", why[:150],
              f"`{astx.u(d.call)[:90]}`: aligned={ok} ({why[:80]}), weights are ballot weights={okw}, k=1: {okk}, population is the step's profile ballots={okpop}")
    st = astx.stmt_of(d.call, pm)
    rb = st.targets[0].id if isinstance(st, ast.Assign) and isinstance(st.targets[0], ast.Name) else None
    good = rb is not None and astx.u(st.value).endswith("[0]")
    # tiebreak on a tied first position
    tb = [c for c in astx.calls_in(f.node, "tiebreak_set") if any(n is c for n in ast.walk(scope_node))]
    tbf = prog.find_func("tiebreak_set")
    okt = False
    T = None
    if len(tb) == 1 and rb:
        b = astx.bind_args(tb[0], tbf.params)
        stt = astx.stmt_of(tb[0], pm)
        T = stt.targets[0].id if isinstance(stt, ast.Assign) and isinstance(stt.targets[0], ast.Name) else None
        okt = astx.u(b.get(tbf.params[0])) == f"{rb}.ranking[0]" and astx.is_const(b.get(tbf.params[2]), "random")
        # untied: (ranking[0],)
        other = [dv for s_, dv in astx.defs_of(f.node, T) if dv is not None and not (isinstance(dv, ast.Call))] if T else []
        okt = okt and len(other) == 1 and astx.u(other[0]) == f"({rb}.ranking[0],)"
        # ... exactly when the first position holds more than one candidate: no further condition may suppress the draw
        Ng = Normalizer(f.node, inline=False, int_atoms=lambda a: True)
        extra = literals(Ng.conj(astx.path_condition(f.node, tb[0], pm))) - literals(Ng.conj(astx.path_condition(f.node, d.call, pm)))
        extra = {l for l in extra if l != f"truthy({rb}.ranking)"}
        want_tb = literals(Normalizer(None, inline=False, int_atoms=lambda a: True).conj([(ast.parse(f"len({rb}.ranking[0]) > 1", mode="eval").body, True)]))
        if extra != want_tb:
            okt = False
            ctx.violated(f, tb[0], f"{label}: a tied first place is always broken at random",
                         f"the random tiebreak runs under {sorted(extra)}; documented: whenever {sorted(want_tb)} (otherwise the winner is taken from a set in iteration order)")
    ctx.check(good and okt, f, tb[0] if tb else d.call, f"{label}: winner = first position of the drawn ballot; tied first place broken uniformly at random", "",
              "the winner is not taken from the drawn ballot's first position with a random tiebreak on ties")
    return T


def r1_random_dictator(ctx):
    prog = ctx.prog
    f = prog.find_func("RandomDictator._run_step")
    T = _dictator_branch(ctx, f, f.node, "RandomDictator")
    # the winner is whatever is removed from the profile (found by role, not by name)
    rcs = astx.calls_in(f.node, "remove_cand")
    W = rcs[0].args[0].id if len(rcs) == 1 and rcs[0].args and isinstance(rcs[0].args[0], ast.Name) else None
    wc = [st for st, dv in astx.defs_of(f.node, W) if dv is not None] if W else []
    good = len(wc) == 1 and T is not None and astx.u(wc[0].value) == f"list({T}[0])[0]"
    good = good and len(rcs) == 1 and astx.u(rcs[0].args[1]) == f.params[1]
    el = []
    for sc in elect.state_ctor_calls(prog, f):
        v = elect.state_kwargs(prog, sc).get("elected")
        if isinstance(v, ast.Name):
            v = astx.unique_def(f.node, v.id)
        if v is not None:
            el.append(v)
    good = good and len(el) == 1 and astx.u(el[0]) == f"(frozenset({{{W}}}),)"
    ctx.check(good, f, wc[0] if wc else f.node, "RandomDictator: first element of the resolution is elected alone and removed from the profile", "",
              "winner selection / recording / removal changed")


def _read_through(f, pm, d, CV):
    """The probability argument of draw d as one expression: the plain statements that precede the draw in its block are
    read through (x = e; x /= y; ...).  None when the block holds anything else before the draw."""
    from vk.loopsym import IterationExec, Unsupported
    st = astx.stmt_of(d.call, pm)
    blk = pm.get(st)
    body = None
    for fld in ("body", "orelse"):
        lst = getattr(blk, fld, None)
        if isinstance(lst, list) and any(x is st for x in lst):
            body = lst[:next(i for i, x in enumerate(lst) if x is st)]
    if body is None or any(isinstance(x, (ast.If, ast.For, ast.While, ast.Try, ast.With, ast.Return, ast.Raise)) for x in body):
        return None
    ex = IterationExec(f.node, body, lists=set())
    try:
        outs = ex.run()
    except Unsupported:
        return None
    if len(outs) != 1:
        return None
    e = ex.sub(d.probs, outs[0].state)
    if CV:
        dv = astx.unique_def(f.node, CV)
        if dv is not None:
            from vk.seqeval import subst
            e = subst(e, {CV: dv})
    return astx.u(e)


def r2_boosted(ctx):
    prog = ctx.prog
    f = prog.find_func("BoostedRandomDictator._run_step")
    pm = astx.parents(f.node)
    prof = f.params[1]
    # roles, found by what the locals hold: RC = the current profile's candidates, CV = the previous state's tallies,
    # W = the candidate that is removed from the profile
    singles = astx.single_assignments(f.node, text=False)
    RC = next((k for k, v in singles.items() if isinstance(v, ast.AST) and astx.u(v) == f"{prof}.candidates" and k.isidentifier()), None)
    CV = next((k for k, v in singles.items() if isinstance(v, ast.AST) and astx.u(v) == f"{f.params[2]}.scores" and k.isidentifier()), None)
    rcs0 = astx.calls_in(f.node, "remove_cand")
    W = astx.u(rcs0[0].args[0]) if len(rcs0) == 1 and rcs0[0].args and isinstance(rcs0[0].args[0], ast.Name) else None
    rc = astx.unique_def(f.node, RC) if RC else None
    # (the count may be taken from profile.candidates directly; what the tests compare is checked below under the name NC)
    direct = any(astx.u(n) == f"len({prof}.candidates)" for n in astx.walk_own(f.node) if isinstance(n, ast.Call))
    ctx.check(rc is not None or direct, f, rc or f.node, "c = number of candidates of the current profile", "", "no local holds profile.candidates: the candidate count of the mixing test is taken from something else")
    # the mixing draw, found by what it is (the one random.uniform call of the step), whether or not it is held in a local
    uni = [c for c in astx.calls_in(f.node) if prog.resolve_expr(f.module, c.func) == "random.uniform"]
    u = uni[0] if len(uni) == 1 else None
    ust = astx.stmt_of(u, pm) if u is not None else None
    UVAR = ust.targets[0].id if isinstance(ust, ast.Assign) and isinstance(ust.targets[0], ast.Name) and ust.value is u else None
    ctx.check(u is not None and [astx.u(a) for a in u.args] == ["0", "1"], f, u or f.node,
              "u = random.uniform(0, 1)", astx.u(u) if u is not None else "", "the mixing variable is not one uniform draw on [0,1]")
    # squares branch
    draws = [d for d in align.draws_in(prog, f) if d.kind == "numpy.random.choice"]
    if len(draws) != 1:
        ctx.violated(f, f.node, "BoostedRandomDictator: one squares-law draw", f"{len(draws)} numpy draws")
        return
    d = draws[0]
    def _rn(e):
        if astx.u(e) in (f"len({RC})", f"len({prof}.candidates)"):
            return "NC"
        if e is u or (UVAR and astx.is_name(e, UVAR)):
            return "u"
        return None
    N = Normalizer(f.node, inline=True, int_atoms=lambda a: a.startswith("len("), rename=_rn, no_inline=[UVAR] if UVAR else [])
    lits = literals(N.conj(astx.path_condition(f.node, d.call, pm)))
    want = literals(Normalizer(None, inline=False).conj([(ast.parse("NC == 1", mode="eval").body, False), (ast.parse("u <= 1 / (NC - 1)", mode="eval").body, True)]))
    ctx.check(lits == want, f, d.call, "squares branch iff c > 1 and u <= 1/(c-1)", str(sorted(lits)), f"squares branch is taken under {sorted(lits)}; documented {sorted(want)}")
    ok, why = align.aligned(align.sigs(f, d.pop, d.call), align.sigs(f, d.probs, d.call))
    cv = astx.unique_def(f.node, CV) if CV else None
    okcv = cv is not None and astx.u(cv) == f"{f.params[2]}.scores"
    ctx.check(ok and okcv, f, d.call, "squares draw: candidates and probabilities are keys/values of the current tallies", why[:150],
              f"aligned={ok} ({why[:100]}); tallies are prev_state.scores={okcv}")
    # p pipeline: values -> / total -> ^2 -> / sum
    steps = [astx.u(st) for st, dv in astx.defs_of(f.node, astx.u(d.probs))]
    want_steps = [f"p = np.array(list({CV}.values())).astype('float64')", f"p /= float({prof}.total_ballot_wt)", "p = np.power(p, 2)", "p /= np.sum(p)"]
    if steps != want_steps:
        # the same pipeline under other names / in fewer or more steps: the statements of the branch are read through
        # and the value handed to the draw is compared as one expression
        got = _read_through(f, pm, d, CV)
        tallies = f"np.array(list({f.params[2]}.scores.values())).astype('float64')"
        sq = f"np.power({tallies} / float({prof}.total_ballot_wt), 2)"
        want_expr = astx.A(f"{sq} / np.sum({sq})")
        if got is not None and got == want_expr:
            steps = want_steps
        elif got is not None:
            steps = [got[:200]]
    ctx.check(steps == want_steps, f, d.call, "squares law: (tally / total)^2 renormalised by its sum", str(steps), f"probability pipeline is {steps}; documented {want_steps}")
    # single candidate
    one = [st for st, dv in astx.defs_of(f.node, W or "?") if dv is not None and astx.u(dv) in (f"{RC}[0]", f"{prof}.candidates[0]")]
    good = len(one) == 1 and literals(N.conj(astx.path_condition(f.node, one[0], pm))) == {"eq(NC, 1)"}
    ctx.check(good, f, one[0] if one else f.node, "a single remaining candidate wins outright", "", "single-candidate branch changed")
    # dictator branch: the branch of the mixing test that holds the weighted ballot draw
    dd = [x for x in align.draws_in(prog, f) if x.kind == "random.choices"]
    else_body = None
    if len(dd) == 1:
        node = dd[0].call
        while node in pm:
            par = pm[node]
            if isinstance(par, ast.If) and isinstance(node, ast.stmt) and not any(x is d.call for x in ast.walk(ast.Module(body=(par.body if node in par.body else par.orelse), type_ignores=[]))):
                else_body = ast.Module(body=par.body if node in par.body else par.orelse, type_ignores=[])
                break
            node = par
    if else_body is None or not else_body.body:
        ctx.violated(f, f.node, "BoostedRandomDictator: dictator branch", "no branch holding exactly the dictator draw")
        return
    lits_d = literals(N.conj(astx.path_condition(f.node, dd[0].call, pm)))
    want_d = literals(Normalizer(None, inline=False).conj([(ast.parse("NC == 1", mode="eval").body, False), (ast.parse("u <= 1 / (NC - 1)", mode="eval").body, False)]))
    ctx.check(lits_d == want_d, f, dd[0].call, "dictator branch iff c > 1 and u > 1/(c-1)", str(sorted(lits_d)), f"dictator branch is taken under {sorted(lits_d)}; documented {sorted(want_d)}")
    T = _dictator_branch(ctx, f, else_body, "BoostedRandomDictator")
    wc = [st for st, dv in astx.defs_of(f.node, W or "?") if dv is not None and T is not None and astx.u(dv) == f"list({T}[0])[0]"]
    rcs = astx.calls_in(f.node, "remove_cand")
    good = len(wc) == 1 and len(rcs) == 1 and W is not None and astx.u(rcs[0].args[1]) == prof
    el = [astx.u(kw_) for sc_ in elect.state_ctor_calls(prog, f) for k_, kw_ in elect.state_kwargs(prog, sc_).items() if k_ == "elected"]
    el = [astx.u(astx.unique_def(f.node, x)) if x.isidentifier() and astx.unique_def(f.node, x) is not None else x for x in el]
    good = good and len(el) == 1 and el[0] == f"(frozenset({{{W}}}),)"
    ctx.check(good, f, f.node, "BoostedRandomDictator: the chosen candidate is elected alone and removed from the profile", "", "winner recording / removal changed")


def r3_random_tiebreak(ctx):
    prog = ctx.prog
    f = prog.find_func("tiebreak_set")
    pm = astx.parents(f.node)
    s, prof, tb = f.params[:3]
    calls = [c for c in astx.calls_in(f.node, "sample", own_only=False)]
    good = False
    d = ""
    if len(calls) == 1:
        c = calls[0]
        q = prog.resolve_expr(f.module, c.func)
        kw = {k.arg: astx.u(k.value) for k in c.keywords}
        size = kw.get("k", astx.u(c.args[1]) if len(c.args) > 1 else None)
        d = astx.u(c)
        lits = literals(Normalizer(f.node, inline=False).conj(astx.path_condition(f.node, astx.stmt_of(c, pm), pm)))
        good = q == "random.sample" and astx.u(c.args[0]) == f"list({s})" and size == f"len({s})" and lits in ({f"eq('random', {tb})"}, {f"eq({tb}, 'random')"})
    ctx.check(good, f, calls[0] if calls else f.node, "random tiebreak = random.sample(list(S), k=len(S)) (uniform permutation of exactly the tied set)", d,
              f"random branch is `{d}`")
    ctx.check(astx.is_const(f.param_default(tb), "random"), f, f.node, "tiebreak_set defaults to the random rule", "", "default tiebreak changed")


def r4_stv_elimination_tie(ctx):
    """A last-place tie in STV is broken by the initial first-place votes "and only then at random": the random part lives
    in tiebreak_set (C17.R3, C10.R4), so the elimination branch must hand the tied set to tiebreak_set with the
    'first_place' rule.  Who-must-call rule over STV._run_step and everything else defined in its module (a helper
    the step delegates to counts); an ordering computed in place (sorted by the stored tallies) has no random
    fallback and leaves the choice among still-tied candidates to set iteration order."""
    prog = ctx.prog
    f = prog.find_func("STV._run_step")
    tb = prog.find_func("tiebreak_set")
    mod_funcs = [g for g in prog.functions.values() if g.module is f.module]
    hits = []
    for g in mod_funcs:
        for c in astx.calls_in(g.node, "tiebreak_set"):
            b = astx.bind_args(c, tb.params)
            if astx.is_const(b.get("tiebreak"), "first_place"):
                hits.append((g, c))
    ctx.check(bool(hits), f, hits[0][1] if hits else f.node, "STV: a last-place tie is handed to tiebreak_set(..., tiebreak='first_place') (random fallback among the still tied)",
              astx.u(hits[0][1])[:100] if hits else "", "no call of tiebreak_set with the 'first_place' rule in the STV module: an elimination tie has no random fallback")


def r5_winner_removed_exactly(ctx):
    """The documented probabilities of a multi-seat RandomDictator / BoostedRandomDictator run are products over the seats:
    after a seat is filled the next draw is over the profile without that one candidate.  That holds only if remove_cand,
    given the single name, removes exactly that name (a bare string tested with `in` is a substring test: electing "Anna"
    would take "Ann" out as well) and keeps every ballot that still ranks someone.  Decided by the clauses of C12.R1."""
    from rules import c12
    sub = type(ctx)(ctx.prog, ctx.prop, ctx.tier)
    c12.r1_filter_polarity(sub)
    n = 0
    for o in sub.obs:
        if (o.function or "").endswith("remove_cand"):
            o.rule = "C17.R5"
            ctx.obs.append(o)
            n += 1
    if n < 2:
        ctx.vanished(f"remove_cand obligations: only {n}")


RULES = [
    ("C17.R4", r4_stv_elimination_tie, 1, "STV elimination ties go through tiebreak_set with the 'first_place' rule (the only place with a random fallback)"),
    ("C17.R5", r5_winner_removed_exactly, 2, "prerequisite: the seat winner, and nobody else, is removed before the next draw (C12.R1 on remove_cand)"),
    ("C17.R1", r1_random_dictator, 3, "RandomDictator: weighted ballot draw aligned with weights; first position wins; random tiebreak on ties"),
    ("C17.R2", r2_boosted, 10, "BoostedRandomDictator: mixing threshold 1/(c-1), squares law pipeline, alignment, dictator branch"),
    ("C17.R3", r3_random_tiebreak, 2, "random tiebreak is a uniform permutation of exactly the tied set"),
]

RD = "src/votekit/elections/election_types/ranking/random_dictator.py"
BRD = "src/votekit/elections/election_types/ranking/boosted_random_dictator.py"
UT = "src/votekit/utils.py"
FAULTS = [
    ("RD unweighted", [(RD, "random_ballot = random.choices(ballots, weights=weights, k=1)[0]", "random_ballot = random.choices(ballots, k=1)[0]")], "C17.R1"),
    ("RD weights reversed", [(RD, "        weights = [b.weight for b in ballots]", "        weights = [b.weight for b in ballots][::-1]")], "C17.R1"),
    ("RD last place wins", [(RD, "            tiebroken_ranking = (random_ballot.ranking[0],)", "            tiebroken_ranking = (random_ballot.ranking[-1],)")], "C17.R1"),
    ("RD tie favours last of resolution", [(RD, "        winning_cand = list(tiebroken_ranking[0])[0]", "        winning_cand = list(tiebroken_ranking[-1])[0]")], "C17.R1"),
    ("STV elimination tie ordered in place, no tiebreak_set", [("src/votekit/elections/election_types/ranking/stv.py", "                tiebroken_ranking = tiebreak_set(\n                    lowest_fpv_cands, self.get_profile(0), tiebreak=\"first_place\"\n                )", "                initial = self.election_states[0].scores\n                tiebroken_ranking = tuple(frozenset({c}) for c in sorted(lowest_fpv_cands, key=lambda c: initial[c], reverse=True))")], "C17.R4"),
    ("BRD threshold 1/c", [(BRD, "        elif u <= 1 / (len(remaining_cands) - 1):", "        elif u <= 1 / len(remaining_cands):")], "C17.R2"),
    ("BRD threshold inverted", [(BRD, "        elif u <= 1 / (len(remaining_cands) - 1):", "        elif u > 1 / (len(remaining_cands) - 1):")], "C17.R2"),
    ("BRD cubes", [(BRD, "            p = np.power(p, 2)", "            p = np.power(p, 3)")], "C17.R2"),
    ("BRD pipeline under two names, shares not divided by the total", [(BRD, "            p = np.array(list(candidate_votes.values())).astype(\"float64\")\n            p /= float(profile.total_ballot_wt)\n            p = np.power(p, 2)\n            p /= np.sum(p)\n            winning_candidate = np.random.choice(list(candidate_votes.keys()), p=p)", "            shares = np.array(list(candidate_votes.values())).astype(\"float64\")\n            probs = np.power(shares, 2)\n            probs /= float(profile.total_ballot_wt)\n            winning_candidate = np.random.choice(list(candidate_votes.keys()), p=probs)")], "C17.R2"),
    ("BRD probabilities sorted", [(BRD, "            p /= np.sum(p)\n", "            p /= np.sum(p)\n            p = np.sort(p)\n")], "C17.R2"),
    ("BRD squares over initial tallies", [(BRD, "            candidate_votes = prev_state.scores", "            candidate_votes = self.election_states[0].scores")], "C17.R2"),
    ("BRD dictator draws unweighted", [(BRD, "random_ballot = random.choices(profile.ballots, weights=weights, k=1)[0]", "random_ballot = random.choices(profile.ballots, k=1)[0]")], "C17.R2"),
    ("tiebreak sample k-1", [(UT, "frozenset({c}) for c in random.sample(list(r_set), k=len(r_set))", "frozenset({c}) for c in random.sample(list(r_set), k=len(r_set) - 1)")], "C17.R3"),
    ("tiebreak sorted not sampled", [(UT, "frozenset({c}) for c in random.sample(list(r_set), k=len(r_set))", "frozenset({c}) for c in sorted(r_set)")], "C17.R3"),
]
BENIGN = [
    ("BRD pipeline under two names", [(BRD, "            p = np.array(list(candidate_votes.values())).astype(\"float64\")\n            p /= float(profile.total_ballot_wt)\n            p = np.power(p, 2)\n            p /= np.sum(p)\n            winning_candidate = np.random.choice(list(candidate_votes.keys()), p=p)", "            shares = np.array(list(candidate_votes.values())).astype(\"float64\")\n            shares /= float(profile.total_ballot_wt)\n            probs = np.power(shares, 2)\n            probs /= np.sum(probs)\n            winning_candidate = np.random.choice(list(candidate_votes.keys()), p=probs)")]),
    ("BRD threshold rearranged", [(BRD, "        elif u <= 1 / (len(remaining_cands) - 1):", "        elif 1 / (len(remaining_cands) - 1) >= u:")]),
]
