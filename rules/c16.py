"""C16 — generated ballots follow the model distributions: structural clauses (DESIGN §5/C16).
The distributional claims themselves are declined; these are necessary shape conditions."""
from __future__ import annotations

import ast
import re

from vk import astx, align
from vk.report import shape_rule
from vk.algebra import Normalizer, bool_key, literals, spec_rat, spec_guard, NotClosedForm, simplify
from vk.loader import AnalysisError

EXPLANATION = (
    "Reaching-definition alignment, Metropolis-form, sort-direction and parallel-array rules over the "
    "ballot generators (read from source; the module cannot be imported in this sandbox). Decides: at "
    "every weighted draw choice(X, p=P) / choices(X, weights=P) in the package, every reaching "
    "definition of X and of P derives from the same ordered source (keys/values of one mapping, a "
    "list and a comprehension over it, one zip(*items)) and no loop re-binds one without the other; "
    "each MCMC kernel proposes a uniform adjacent swap and accepts with min(1, r) or with a reciprocal "
    "pair (r, 1/r) for the two directions, r being the stationary ratio; spatial models rank by "
    "ascending distance; slate models index pref_intervals_by_bloc[voter bloc][slate]; the cohesion "
    "sampler keeps its bloc and value lists parallel and renormalises. The distributional statements "
    "(frequencies, uniformity) are NOT decided - they need sampling theory and executions."
)
EXPLANATION += ' Also decided (prerequisites and later clauses): each bloc receives its own share of the voters (apportionment keyed in the order of the proportions, C14.G1).'
ASSUMPTIONS = ["numpy.random.choice(p=...) / random.choices(weights=...) draw independently with the given weights in population order (trusted)",
               "iterating the same unmodified frozenset / dict twice yields the same order (CPython guarantee)"]
TRUSTED = ["numpy.random.choice", "random.choices", "random.random"]


def d1_alignment(ctx):
    prog = ctx.prog
    weighted = 0
    total = 0
    for f in prog.iter_functions():
        if isinstance(f.node, ast.Lambda):
            continue
        for d in align.draws_in(prog, f):
            total += 1
            if d.probs is None:
                continue
            weighted += 1
            ps = align.sigs(f, d.pop, d.call)
            ws = align.sigs(f, d.probs, d.call)
            ok, why = align.aligned(ps, ws)
            label = f"{f.short}: draw `{astx.u(d.pop)[:30]}` ~ `{astx.u(d.probs)[:30]}`"
            if ok:
                ctx.ok(f, d.call, label + " aligned", why[:200])
            else:
                ctx.violated(f, d.call, f"{f.short}: population and probabilities of a weighted draw are misaligned",
                             f"{astx.u(d.call)[:80]}: {why}; candidates would be drawn with another candidate's probability")
    ctx.note(f"D1: {weighted} weighted draws among {total} draw sites")
    if weighted < 12:
        ctx.vanished("weighted draw sites" + ": " + f"only {weighted} weighted draws found (floor 12)")


def _accept_tests(f):
    out = []
    for n in astx.walk_own(f.node):
        if isinstance(n, ast.If) and isinstance(n.test, ast.Compare) and len(n.test.ops) == 1 and isinstance(n.test.ops[0], ast.Lt) \
                and astx.u(n.test.left) in ("random.random()", "np.random.random()", "np.random.rand()", "np.random.uniform()"):
            out.append(n)
    return out


def d2_metropolis(ctx):
    prog = ctx.prog
    kernels = [("name_BradleyTerry._BT_mcmc", "name"), ("slate_BradleyTerry._sample_ballot_types_MCMC", "slate")]
    for qn, kind in kernels:
        f = prog.find_func(qn)
        pm = astx.parents(f.node)
        tests = _accept_tests(f)
        if len(tests) != 1:
            ctx.violated(f, f.node, f"{f.short}: accept test `random() < a`", f"{len(tests)} acceptance tests found")
            continue
        t = tests[0]
        a = t.test.comparators[0]
        # the accepted move is the swap of positions j1, j2
        sw = [n for n in t.body if isinstance(n, ast.Assign) and isinstance(n.targets[0], ast.Tuple) and isinstance(n.value, ast.Tuple)]
        good = False
        if sw:
            l = [astx.u(x) for x in sw[0].targets[0].elts]
            r = [astx.u(x) for x in sw[0].value.elts]
            good = len(l) == 2 and l == r[::-1]
        ctx.check(good, f, t, f"{f.short}: accepted move swaps the two proposed positions", "", "the accepted move is not the swap of the proposed pair")
        # proposal: uniform adjacent pair
        idx = [n for n in astx.walk_own(f.node) if isinstance(n, astx.LCOMP) and isinstance(n.elt, ast.Tuple) and len(n.elt.elts) == 2]
        good = False
        d = ""
        if idx:
            lc = idx[0]
            v = astx.u(lc.generators[0].target)
            it = lc.generators[0].iter
            d = astx.u(lc)[:100]
            Nn = Normalizer(f.node, inline=True, int_atoms=lambda a_: True)
            okpair = astx.u(lc.elt.elts[0]) == v and astx.u(lc.elt.elts[1]) == f"{v} + 1"
            itq = prog.resolve_expr(f.module, it.func) if isinstance(it, ast.Call) else None
            unweighted = isinstance(it, ast.Call) and not any(k.arg in ("p", "weights") for k in it.keywords) and itq in ("random.choices", "numpy.random.choice")
            pop = it.args[0] if isinstance(it, ast.Call) and it.args else None
            okpop = pop is not None and re.fullmatch(r"(range\()?len\((\w+)\) - 1\)?|range\((\w+) - 1\)|(\w+) - 1", astx.u(pop)) is not None
            good = okpair and unweighted and okpop
        ctx.check(good, f, idx[0] if idx else f.node, f"{f.short}: proposal = uniformly chosen adjacent pair (j, j+1)", d, f"proposal is `{d}`")
        # acceptance probability
        defs = astx.defs_of(f.node, a.id) if isinstance(a, ast.Name) else [(t, a)]
        if kind == "name":
            ok_all = bool(defs)
            d = ""
            for st, dv in defs:
                d = astx.u(dv)[:120] if dv is not None else "?"
                if not (isinstance(dv, ast.Call) and astx.u(dv.func) == "min" and len(dv.args) == 2 and astx.is_const(dv.args[0], 1)):
                    ok_all = False
                    continue
                ratio = dv.args[1]
                if not (isinstance(ratio, ast.BinOp) and isinstance(ratio.op, ast.Div)):
                    ok_all = False
                    continue
                num, den = astx.u(ratio.left), astx.u(ratio.right)
                # stationary ratio for BT: support of the candidate that would move up (lower, j2) over the one moving down (upper, j1)
                m1 = re.fullmatch(r"(\w+)\[next\(iter\((\w+)\[(\w+)\]\)\)\]", num)
                m2 = re.fullmatch(r"(\w+)\[next\(iter\((\w+)\[(\w+)\]\)\)\]", den)
                pair = [n for n in astx.walk_own(f.node) if isinstance(n, ast.Assign) and isinstance(n.targets[0], ast.Tuple) and astx.u(n.value).startswith("swap_indices[")]
                names = [astx.u(x) for x in pair[0].targets[0].elts] if pair else []
                if not pair:
                    # the pair taken straight from a loop over the presampled indices:  for (j1, j2) in swap_indices  /  for i, (j1, j2) in enumerate(swap_indices)
                    for lp in (n for n in astx.walk_own(f.node) if isinstance(n, ast.For)):
                        tgt = lp.target
                        if astx.u(lp.iter) == "enumerate(swap_indices)" and isinstance(tgt, ast.Tuple) and len(tgt.elts) == 2:
                            tgt = tgt.elts[1]
                        elif astx.u(lp.iter) != "swap_indices":
                            continue
                        if isinstance(tgt, ast.Tuple) and len(tgt.elts) == 2:
                            names = [astx.u(x) for x in tgt.elts]
                ok_all = ok_all and bool(m1 and m2) and m1.group(1) == m2.group(1) == f.params[2] and m1.group(2) == m2.group(2) \
                    and names == [m2.group(3), m1.group(3)]
            ctx.check(ok_all, f, defs[0][0] if defs else t, f"{f.short}: acceptance = min(1, support[lower] / support[upper])", d,
                      f"acceptance probability is `{d}`; Metropolis for Bradley-Terry needs min(1, pi[cand at j2] / pi[cand at j1]) with (j1, j2) = (j, j+1)")
        else:
            # slate BT: reciprocal pair
            cohesion = astx.unique_def(f.node, "cohesion")
            okc = cohesion is not None and re.fullmatch(rf"self\.cohesion_parameters\[{f.params[1]}\]\[{f.params[1]}\]", astx.u(cohesion)) is not None
            ctx.check(okc, f, cohesion or f.node, f"{f.short}: cohesion = the voter bloc's own cohesion", astx.u(cohesion) if cohesion is not None else "",
                      "cohesion is not self.cohesion_parameters[bloc][bloc]")
            N = Normalizer(f.node, inline=True, rename=lambda e: "C" if astx.is_name(e, "cohesion") else None, no_inline=["cohesion"])
            Nl = Normalizer(f.node, inline=False)
            fwd = rev = False
            others_one = True
            details = []
            for st, dv in defs:
                if dv is None:
                    others_one = False
                    continue
                x = dv
                if isinstance(x, ast.Call) and astx.u(x.func) == "min" and len(x.args) == 2 and astx.is_const(x.args[0], 1):
                    x = x.args[1]
                try:
                    r = N.rat(x)
                except NotClosedForm:
                    others_one = False
                    continue
                lits = literals(Nl.conj(astx.path_condition(f.node, st, pm)))
                own_upper = any(re.fullmatch(rf"eq\((\w+\[\w+\]), {f.params[1]}\)|eq\({f.params[1]}, (\w+\[\w+\])\)", l) for l in lits)
                differ = any(l.startswith("not eq(") and "[" in l and f.params[1] not in l for l in lits)
                details.append(f"{r.key()} under {sorted(lits)}")
                if r.equals(spec_rat("(1 - C) / C")) and own_upper and differ:
                    fwd = True
                elif r.equals(spec_rat("C / (1 - C)")) and differ and not own_upper:
                    rev = True
                elif not r.equals(spec_rat("1")):
                    others_one = False
            ctx.check(fwd, f, t, f"{f.short}: moving the own bloc down is accepted with (1-c)/c", "; ".join(details)[:200],
                      f"no acceptance value (1-c)/c on the path `own bloc above other`: {details}")
            ctx.check(rev and others_one, f, t, f"{f.short}: the reverse move is accepted with the reciprocal c/(1-c) (Metropolis pair)", "; ".join(details)[:200],
                      f"acceptance values are {details}: the move that raises the own bloc must use the reciprocal ratio (values > 1 always accept), "
                      "otherwise the chain is correct only for cohesion >= 1/2")


def d3_spatial_sort(ctx):
    prog = ctx.prog
    n = 0
    for qn in ("OneDimSpatial.generate_profile", "Spatial.generate_profile", "ClusteredSpatial.generate_profile_with_dict"):
        f = prog.find_func(qn)
        srt = [c for c in astx.calls_in(f.node, "sorted")]
        good = False
        d = ""
        if len(srt) == 1:
            c = srt[0]
            n += 1
            kw = {k.arg: astx.u(k.value) for k in c.keywords}
            dd = astx.u(c.args[0])
            d = astx.u(c)
            dist = astx.unique_def(f.node, dd)
            okd = isinstance(dist, ast.DictComp) and astx.u(dist.generators[0].iter) == "candidate_position_dict.items()" and \
                astx.u(dist.key) == astx.u(dist.generators[0].target.elts[0])
            val = astx.u(dist.value) if okd else ""
            okv = bool(re.search(r"self\.distance\(|abs\(", val))
            good = kw == {"key": f"{dd}.__getitem__"} and okd and okv
            st = astx.stmt_of(c, astx.parents(f.node))
            lp = astx.enclosing(c, astx.parents(f.node), ast.For)
            good = good and lp is not None
        ctx.check(good, f, srt[0] if srt else f.node, f"{f.short}: candidates ranked by ascending distance from the voter", d,
                  f"ranking is `{d}`; documented sorted(distances, key=distance) with no reverse")
    if n < 3:
        ctx.vanished("spatial sort sites" + ": " + f"{n} of 3 spatial generators sort by distance")


def d4_interval_indexing(ctx):
    prog = ctx.prog
    for qn in ("slate_PlackettLuce.generate_profile", "slate_BradleyTerry.generate_profile"):
        f = prog.find_func(qn)
        pm = astx.parents(f.node)
        pi = [st for st, dv in astx.defs_of(f.node, "pref_intervals") if dv is not None]
        good = False
        if len(pi) == 1:
            lp = astx.enclosing(pi[0], pm, ast.For)
            bloc = astx.assigned_names(lp.target)[-1] if lp is not None else None
            good = lp is not None and "self.blocs" in astx.u(lp.iter) and astx.u(pi[0].value) == f"self.pref_intervals_by_bloc[{bloc}]"
        ctx.check(good, f, pi[0] if pi else f.node, f"{f.short}: intervals taken from the voter's bloc", "", "pref_intervals is not self.pref_intervals_by_bloc[<voter bloc>]")
        draws = [d for d in align.draws_in(prog, f) if d.probs is not None]
        good = False
        if len(draws) == 1:
            d = draws[0]
            lp = astx.enclosing(d.call, pm, ast.For)
            b = astx.u(lp.target) if lp is not None else "?"
            cands = astx.unique_def(f.node, "cands")
            iv = astx.unique_def(f.node, "bloc_cand_pref_interval")
            good = lp is not None and astx.u(lp.iter) == "self.blocs" and cands is not None and astx.u(cands) == f"pref_intervals[{b}].non_zero_cands" \
                and iv is not None and astx.u(iv) == f"pref_intervals[{b}].interval"
            kw = d.kw
            good = good and astx.is_const(kw.get("replace"), False) and astx.u(kw.get("size")) == "len(cands)"
        ctx.check(good, f, draws[0].call if draws else f.node, f"{f.short}: each slate is ordered by Plackett-Luce over [voter bloc][slate]'s interval", "",
                  "the within-slate draw does not use pref_intervals[slate] of the voter's bloc, without replacement, full length")
        # ballot assembled by popping the next candidate of the slate named at each position of the type
        lps = [n for n in astx.walk_own(f.node) if isinstance(n, ast.For) and astx.u(n.iter) == "enumerate(bt)"]
        good = False
        if not lps:
            # the ranking grown position by position instead of filled by index:  for b in bt: ranking.append(frozenset({order[b].pop(0)}))
            lps = [n for n in astx.walk_own(f.node) if isinstance(n, ast.For) and astx.u(n.iter) == "bt" and isinstance(n.target, ast.Name)]
            if lps:
                b = lps[0].target.id
                body = [astx.u(s) for s in lps[0].body]
                good = body in ([f"ranking.append(frozenset({{cand_ordering_by_bloc[{b}].pop(0)}}))"],
                                [f"ranking.append(frozenset({{cand_ordering_by_bloc[{b}][0]}}))", f"cand_ordering_by_bloc[{b}].pop(0)"])
        elif lps:
            body = [astx.u(s) for s in lps[0].body]
            i, b = [astx.u(x) for x in lps[0].target.elts]
            good = body in ([f"ranking[{i}] = frozenset({{cand_ordering_by_bloc[{b}][0]}})", f"cand_ordering_by_bloc[{b}].pop(0)"],
                            [f"ranking[{i}] = frozenset({{cand_ordering_by_bloc[{b}].pop(0)}})"])
        ctx.check_shape(good, f, lps[0] if lps else f.node, f"{f.short}: position i takes the next unused candidate of the slate the type names", "", "ballot assembly from the type changed")
    f = prog.find_func("AlternatingCrossover.generate_profile")
    defs = astx.single_assignments(f.node, names_only=True)
    good = defs.get("pref_interval_dict") == "self.pref_intervals_by_bloc[bloc]" and defs.get("opposing_slate") == "self.blocs[(i + 1) % 2]" \
        and defs.get("pref_for_bloc") == "list(pref_interval_dict[bloc].interval.values())" and defs.get("pref_for_opposing") == "list(pref_interval_dict[opposing_slate].interval.values())"
    ctx.check(good, f, f.node, "AlternatingCrossover: own / opposing slate intervals of the voter's bloc", "", "AlternatingCrossover interval indexing changed")
    # crossover vs bloc ballots
    pm = astx.parents(f.node)
    rk = [st for st, dv in astx.defs_of(f.node, "ranking")]
    N = Normalizer(f.node, inline=False, int_atoms=lambda a: True)
    cross = bloc_first = False
    for st in rk:
        lits = literals(N.conj(astx.path_condition(f.node, st, pm)))
        v = astx.u(st.value)
        # the ballot counter is the variable of the loop that builds the ballots, whatever it is called
        blp = astx.enclosing(st, pm, ast.For)
        iv = blp.target.id if blp is not None and isinstance(blp.target, ast.Name) else "i"
        lt = literals(spec_guard(f"{iv} < num_cross_ballots", int_atoms=lambda a: True))
        ge = literals(spec_guard(f"{iv} >= num_cross_ballots", int_atoms=lambda a: True))
        if lt <= lits:
            m = re.search(r"zip\((\w+), (\w+)\)", v)
            cross = bool(m) and m.group(1).startswith("opposing") and m.group(2).startswith("bloc")
        elif ge <= lits:
            m = re.fullmatch(r"\[frozenset\(\{_b0\}\) for _b0 in (\w+)\] \+ \[frozenset\(\{_b1\}\) for _b1 in (\w+)\]", v)
            bloc_first = bool(m) and m.group(1).startswith("bloc") and m.group(2).startswith("opposing")
    ctx.check(cross and bloc_first, f, f.node, "AlternatingCrossover: first num_cross ballots alternate opposing/bloc, the rest list bloc then opposing", "",
              "the crossover / bloc ballot construction or their split changed")
    # voter-type shares and their pairing with the apportioned counts (shared with C14.G1)
    from rules import c14
    sub = type(ctx)(prog, ctx.prop, ctx.tier)
    c14.g1_apportionment(sub)
    for o in sub.obs:
        if "AlternatingCrossover" in o.function or "CambridgeSampler" in o.function:
            o.rule = "C16.D4"
            ctx.obs.append(o)
    f = prog.find_func("CambridgeSampler.generate_profile")
    comb = astx.calls_in(f.node, "combine_preference_intervals")
    good = len(comb) == 1 and [astx.u(a) for a in comb[0].args] == ["list(self.pref_intervals_by_bloc[bloc].values())", "[cohesion_parameters[bloc], 1 - cohesion_parameters[bloc]]"]
    ctx.check(good, f, comb[0] if comb else f.node, "CambridgeSampler: candidates ordered by PL over the voter bloc's combined interval", "", "Cambridge combined-interval construction changed")
    pm = astx.parents(f.node)
    sel = [(st, dv) for st, dv in astx.defs_of(f.node, "bloc_ordering")]
    ok1 = ok2 = False
    for st, dv in sel:
        if dv is None:
            ctx.undecided(f, st, "Cambridge bloc/cross split", "bloc_ordering is bound by a loop / unpacking, not by the two documented assignments")
            return
        lits = literals(N.conj(astx.path_condition(f.node, st, pm)))
        v = astx.u(dv)
        if literals(spec_guard("i < bloc_voters", int_atoms=lambda a: True)) <= lits:
            ok1 = v == "bloc_voter_ordering[i]"
        elif literals(spec_guard("i >= bloc_voters", int_atoms=lambda a: True)) <= lits:
            ok2 = v == "cross_voter_ordering[i - bloc_voters]"
    ctx.check(ok1 and ok2, f, f.node, "CambridgeSampler: first bloc_voters ballots use bloc-first types, the rest opposing-first types", "", "Cambridge bloc/cross split changed")


def d5_cohesion_sampler(ctx):
    prog = ctx.prog
    f = prog.find_func("sample_cohesion_ballot_types")
    pm = astx.parents(f.node)
    coh = f.params[2]
    # blocs_og, values_og from one zip(*items)
    sb = align.sigs(f, ast.Name(id="blocs_og", ctx=ast.Load()), f.node.body[-1])
    sv = align.sigs(f, ast.Name(id="values_og", ctx=ast.Load()), f.node.body[-1])
    ctx.check(sb == {("keys", coh)} and sv == {("values", coh)}, f, f.node, "bloc list and cohesion list come from one zip(*items) of the cohesion mapping", f"{sb} / {sv}",
              f"bloc / value lists derive from {sb} / {sv}")
    cp = [n for n in astx.walk_own(f.node) if isinstance(n, ast.Assign) and astx.u(n.value) == "(blocs_og.copy(), values_og.copy())"]
    ctx.check(len(cp) == 1 and astx.u(cp[0].targets[0]) == "(blocs, values)" and isinstance(pm.get(cp[0]), ast.For), f, cp[0] if cp else f.node,
              "both lists are copied together at the start of every ballot", "", "per-ballot copies of the parallel lists changed")
    dels = [n for n in astx.walk_own(f.node) if isinstance(n, ast.Delete)]
    tg = sorted(astx.u(t) for d in dels for t in d.targets)
    ctx.check(tg == ["blocs[bloc_index]", "values[bloc_index]"] and len({id(pm.get(d)) for d in dels}) == 1, f, dels[0] if dels else f.node,
              "an exhausted slate is deleted from both lists at the same index", str(tg), f"deletions are {tg}")
    # a slate is struck exactly when the ballot holds as many of its slots as it has supported candidates
    Nd = Normalizer(f.node, inline=False, int_atoms=lambda a: True)
    if dels:
        got = {l for l in literals(Nd.conj(astx.path_condition(f.node, dels[0], pm, carried=False)))}
        want = literals(Normalizer(None, inline=False, int_atoms=lambda a: True).conj(
            [(ast.parse(f"ballot_type.count(bloc_type) == len({f.params[0]}[bloc_type])", mode="eval").body, True)]))
        ctx.check_shape(got == want, f, dels[0], "a slate is exhausted when its count on the ballot equals its number of supported candidates", str(sorted(got)),
                        f"slates are struck under {sorted(got)}; documented {sorted(want)}")
    ren = [st for st, dv in astx.defs_of(f.node, "values") if isinstance(dv, astx.LCOMP)]
    good = False
    if len(ren) == 1:
        v = astx.u(ren[0].value)
        tot = astx.unique_def(f.node, "total_value_sum")
        tot_st = [st for st, dv in astx.defs_of(f.node, "total_value_sum") if dv is not None]
        # the sum is taken over the values that REMAIN: after both deletions, in the same block, before the renormalisation
        order_ok = bool(dels) and len(tot_st) == 1 and max(d.lineno for d in dels) < tot_st[0].lineno < ren[0].lineno and \
            pm.get(tot_st[0]) is pm.get(dels[0]) is pm.get(ren[0])
        good = v == astx.A("[v / total_value_sum for v in values]") and tot is not None and astx.u(tot) == "sum(values)" and order_ok
    ctx.check(good, f, ren[0] if ren else f.node, "remaining cohesion values are renormalised by their sum after the deletion", "", "renormalisation after exhausting a slate changed")
    # (blocs and values are parallel lists - copied, deleted from and measured together, see above - so either length serves)
    bins = [dv for st, dv in astx.defs_of(f.node, "distribution_bins") if dv is not None]
    ctx.check(len(bins) == 2 and all(astx.u(b) in (astx.A("[0] + [sum(values[:i + 1]) for i in range(len(blocs))]"), astx.A("[0] + [sum(values[:i + 1]) for i in range(len(values))]")) for b in bins), f, bins[0] if bins else f.node,
              "bins are the cumulative sums of the current values (recomputed after renormalising)", "", "bin computation changed or is not repeated after renormalising")
    # zero-cohesion completion: the remaining slots (one per remaining candidate) are shuffled as slots
    sh = [c for c in astx.calls_in(f.node, "shuffle")]
    good = False
    if len(sh) == 1 and isinstance(sh[0].args[0], ast.Name):
        v = sh[0].args[0].id
        dv = astx.unique_def(f.node, v)
        okexp = isinstance(dv, astx.LCOMP) and len(dv.generators) == 2 and astx.u(dv.generators[0].iter) == "blocs" and \
            astx.u(dv.generators[1].iter) == f"range(len({f.params[0]}[{astx.u(dv.generators[0].target)}]))" and astx.u(dv.elt) == astx.u(dv.generators[0].target)
        blk = pm.get(astx.stmt_of(sh[0], pm))
        seq = [astx.u(x) for x in getattr(blk, "body", [])]
        lits = literals(Normalizer(f.node, inline=False).conj(astx.path_condition(f.node, sh[0], pm, carried=False)))
        after = seq[seq.index(astx.u(astx.stmt_of(sh[0], pm))) + 1:] if astx.u(astx.stmt_of(sh[0], pm)) in seq else []
        # the position: index of the enumerate loop over this ballot's coin flips, the one the drawn bloc is stored at
        elp = astx.enclosing(sh[0], pm, ast.For)
        pos = elp.target.elts[0].id if elp is not None and astx.call_name(elp.iter) == "enumerate" and isinstance(elp.target, ast.Tuple) and len(elp.target.elts) == 2 \
            and isinstance(elp.target.elts[0], ast.Name) else "i"
        stored = elp is not None and any(isinstance(n, ast.Assign) and astx.u(n.targets[0]) == f"ballot_type[{pos}]" for n in elp.body)
        zero_case = literals(Normalizer(None, inline=False, int_atoms=lambda a: True).conj([(ast.parse("total_value_sum == 0 and len(values) > 0", mode="eval").body, True)]))
        own = literals(Normalizer(f.node, inline=False, int_atoms=lambda a: True).conj(astx.path_condition(f.node, sh[0], pm, carried=False)[-1:]))
        # (the sum of non-negative cohesion values is a number: `not total_value_sum` tests the same zero)
        zero_alt = literals(Normalizer(None, inline=False, int_atoms=lambda a: True).conj([(ast.parse("not total_value_sum and len(values) > 0", mode="eval").body, True)]))
        good = okexp and stored and own in (zero_case, zero_alt) and after == [f"ballot_type[{pos} + 1:] = {v}", "break"] and any("total_value_sum" in l for l in lits) and dv.lineno < sh[0].lineno
    ctx.check(good, f, sh[0] if sh else f.node, "zero-cohesion tail: one slot per remaining candidate, the slots shuffled uniformly, written after position i, round stops", "",
              "the completion of a ballot among zero-cohesion slates changed (slots must be expanded per candidate BEFORE shuffling)")
    wb = prog.nested_func(f, "which_bin")
    tests = [n.test for n in astx.walk_own(wb.node) if isinstance(n, ast.If)]
    k = astx.u(tests[0]) if tests else ""
    shape_ok = len(wb.node.body) == 1 and isinstance(wb.node.body[0], ast.For) and astx.u(wb.node.body[0].iter) == f"enumerate({wb.params[0]})" \
        and len([n for n in astx.walk_own(wb.node) if isinstance(n, ast.Return)]) == 1
    ctx.check(bool(re.fullmatch(r"(\w+) < flip <= \w+\[\w+ \+ 1\]", k)) and shape_ok, wb, tests[0] if tests else wb.node,
              "bin lookup: the only result is the bin with lo < flip <= hi, over all bins (no fallback bin)", k,
              f"bin test is `{k}`; the lookup must scan all bins and return only on a match (a fallback silently assigns probability mass to another slate): shape ok={shape_ok}")


def d6_model_parameters(ctx):
    """Constructor-level wiring the distribution claims rest on."""
    prog = ctx.prog
    want = astx.A("{bloc: combine_preference_intervals([self.pref_intervals_by_bloc[bloc][b] for b in self.blocs], "
                  "[self.cohesion_parameters[bloc][b] for b in self.blocs]) for bloc in self.blocs}")
    seen = {}
    for cname in ("short_name_PlackettLuce", "name_BradleyTerry", "name_Cumulative"):
        f = prog.find_func(f"{cname}.__init__")
        pm = astx.parents(f.node)
        st = [n for n in astx.walk_own(f.node) if isinstance(n, ast.Assign) and astx.u(n.targets[0]) == "self.pref_interval_by_bloc"]
        from vk import listform
        comb = [n for n in st if isinstance(n.value, ast.DictComp) or (isinstance(n.value, ast.Name) and listform.dict_build_of(f.node, n.value) is not None)]
        good = False
        d = ""
        if len(comb) == 1:
            # the mapping bloc -> combined interval, as a comprehension or as a fresh dictionary filled in a loop over the blocs
            db = listform.dict_build_of(f.node, comb[0].value)
            dc = comb[0].value if isinstance(comb[0].value, ast.DictComp) else None
            if dc is None and db is not None and len(db.loops) == 1 and not db.conditional:
                import copy
                gen = ast.comprehension(target=ast.Name(id=db.loops[0][0], ctx=ast.Store()), iter=db.loops[0][1], ifs=[], is_async=0)
                dc = ast.fix_missing_locations(ast.DictComp(key=copy.deepcopy(db.key), value=copy.deepcopy(db.value), generators=[gen]))
            if dc is None:
                dc = ast.DictComp(key=ast.Constant(value=None), value=ast.Constant(value=None), generators=[ast.comprehension(target=ast.Name(id="_", ctx=ast.Store()), iter=ast.Constant(value=None), ifs=[], is_async=0)])
            bloc = astx.u(dc.key)
            call = dc.value
            if isinstance(call, ast.Call) and astx.call_name(call) == "combine_preference_intervals" and len(call.args) == 2:
                a0, a1 = call.args
                ok0 = isinstance(a0, astx.LCOMP) and astx.u(a0.generators[0].iter) == "self.blocs" and astx.u(a0.elt) == f"self.pref_intervals_by_bloc[{bloc}][{astx.u(a0.generators[0].target)}]"
                ok1 = isinstance(a1, astx.LCOMP) and astx.u(a1.generators[0].iter) == "self.blocs" and astx.u(a1.elt) == f"self.cohesion_parameters[{bloc}][{astx.u(a1.generators[0].target)}]"
                good = ok0 and ok1 and astx.u(dc.generators[0].iter) == "self.blocs" and astx.u(dc.generators[0].target) == bloc
            d = astx.u(dc)[:160]
            seen[cname] = astx.u(dc)
        ctx.check(good, f, comb[0] if comb else f.node, f"{cname}: a bloc's interval = its slate intervals combined with its own cohesion row, both listed over self.blocs", d,
                  f"combined interval is built as `{d}`; documented combine([intervals[bloc][b] for b in blocs], [cohesion[bloc][b] for b in blocs])")
        # flat dictionaries of intervals are used as they are
        flat = [n for n in st if astx.u(n.value) == "self.pref_intervals_by_bloc"]
        good = False
        if len(flat) == 1:
            lits = literals(Normalizer(f.node, inline=False).conj(astx.path_condition(f.node, flat[0], pm)))
            ISFLAT = "truthy(isinstance(self.pref_intervals_by_bloc.values()[0], PreferenceInterval))"
            good = lits == {ISFLAT}
            # the same as a default that only the nested case overrides:  X = flat; if not isinstance(...): X = combined
            if not good and not lits and len(comb) == 1 and flat[0].lineno < comb[0].lineno:
                lc = literals(Normalizer(f.node, inline=False).conj(astx.path_condition(f.node, comb[0], pm)))
                good = lc == {"not " + ISFLAT}
        ctx.check(good, f, flat[0] if flat else f.node, f"{cname}: already-combined intervals are used unchanged", "", "the flat-interval branch changed")
    # the exact sampler's tables: one per bloc, from that bloc's own combined interval (shared with C15.R3)
    from rules import c15
    sub = type(ctx)(prog, ctx.prop, ctx.tier)
    c15.r3_name_bt(sub)
    for o in sub.obs:
        if "BT table per bloc" in o.construct or "_BT_pdf" in o.construct or "BT table" in o.construct:
            o.rule = "C16.D6"
            ctx.obs.append(o)
    ctx.check(len(set(seen.values())) == 1 and len(seen) == 3, None, None, "sibling agreement: the three name-models combine intervals identically", str(sorted(seen)),
              f"the combine expressions differ between {sorted(seen)}")
    # complete rankings: name-PL asks for as many positions as there are candidates
    f = prog.find_func("name_PlackettLuce.__init__")
    bl = {bool_key(Normalizer(f.node, inline=False).conj(astx.path_condition(f.node, st, astx.parents(f.node), carried=False))): astx.u(dv)
          for st, dv in astx.defs_of(f.node, "ballot_length") if dv is not None}
    good = bl.get("in('candidates', data)") == "len(data['candidates'])" and \
        any(v == astx.A("sum((len(c_list) for c_list in data['slate_to_candidates'].values()))") for v in bl.values())
    call = facts_super(f)
    good = good and call is not None and {k.arg: astx.u(k.value) for k in call.keywords if k.arg}.get("ballot_length") == "ballot_length"
    ctx.check(good, f, f.node, "name-PL ballots are as long as the candidate list", str(bl), f"ballot_length is {bl}")
    # impartial cultures
    for cname, alpha in (("ImpartialCulture", "float('inf')"), ("ImpartialAnonymousCulture", "1")):
        f = prog.find_func(f"{cname}.__init__")
        call = facts_super(f)
        got = {k.arg: astx.u(k.value) for k in call.keywords if k.arg} if call is not None else {}
        ctx.check(got.get("alpha") == alpha, f, call or f.node, f"{cname}: Dirichlet alpha = {alpha}", str(got), f"{cname} passes {got}")
    f = prog.find_func("BallotSimplex.__init__")
    pm = astx.parents(f.node)
    N = Normalizer(f.node, inline=False)
    defs = {}
    for n in astx.walk_own(f.node):
        if isinstance(n, ast.Assign) and astx.u(n.targets[0]) == "self.alpha":
            defs[bool_key(N.conj(astx.path_condition(f.node, n, pm, carried=False)))] = astx.u(n.value)
    good = defs.get("True") == "alpha" and any("inf" in k and v in ("1e+20", "1e20", "1e+20") for k, v in defs.items()) and any(k.startswith("eq(alpha, 0)") or "eq(0, alpha)" in k for k in defs)
    ctx.check(good, f, f.node, "BallotSimplex: alpha=inf is replaced by a huge finite value (near-uniform), alpha=0 by a tiny one", str(defs), f"alpha handling is {defs}")
    f = prog.find_func("BallotSimplex.generate_profile")
    dr = [n for n in astx.walk_own(f.node) if isinstance(n, ast.Call) and astx.u(n.func).endswith(".dirichlet")]
    good = len(dr) == 1 and astx.u(dr[0].args[0]) == "[self.alpha] * len(perm_rankings)"
    perms = astx.unique_def(f.node, "perm_set")
    good = good and perms is not None and astx.u(perms) == astx.A("it.permutations(self.candidates, len(self.candidates))")
    ctx.check(good, f, dr[0] if dr else f.node, "ballot-simplex models draw one symmetric Dirichlet weight per complete ranking", "", "Dirichlet parameter vector or the ranking enumeration changed")


@shape_rule
def d7_cambridge(ctx):
    """CambridgeSampler: historical ballot types are mapped onto the model's two blocs consistently."""
    prog = ctx.prog
    init = prog.find_func("CambridgeSampler.__init__")
    pm = astx.parents(init.node)
    N = Normalizer(init.node, inline=False)
    defs = {}
    for n in astx.walk_own(init.node):
        if isinstance(n, ast.Assign) and isinstance(n.targets[0], ast.Attribute):
            defs.setdefault(astx.u(n.targets[0]), []).append((bool_key(N.conj(astx.path_condition(init.node, n, pm, carried=False))), astx.u(n.value)))
    w = dict(defs.get("self.W_bloc", []))
    c = dict(defs.get("self.C_bloc", []))
    good = w.get("isnone(W_bloc)") == astx.A("[bloc for bloc, prop in self.bloc_voter_prop.items() if 0.5 <= prop][0]") and w.get("not isnone(W_bloc)") == "W_bloc" \
        and c.get("isnone(C_bloc)") == astx.A("[bloc for bloc in self.bloc_voter_prop.keys() if bloc != self.W_bloc][0]") and c.get("not isnone(C_bloc)") == "C_bloc"
    ctx.check(good, init, init.node, "Cambridge: majority bloc = the bloc with share >= 1/2 unless given; minority bloc = the other one", f"{w} / {c}", f"bloc defaults are {w} / {c}")
    m = dict(defs.get("self.bloc_to_historical", []))
    ctx.check(m.get("True") == "{self.W_bloc: self.historical_majority, self.C_bloc: self.historical_minority}", init, init.node,
              "Cambridge: majority bloc <-> historical majority label, minority bloc <-> historical minority label", str(m), f"bloc_to_historical is {m}")
    hm = dict(defs.get("self.historical_majority", []))
    hn = dict(defs.get("self.historical_minority", []))
    ctx.check(hm.get("True") == "historical_majority" and hn.get("True") == "historical_minority" and astx.is_const(init.param_default("historical_majority"), "W")
              and astx.is_const(init.param_default("historical_minority"), "C"), init, init.node, "Cambridge: historical labels default to W (majority) and C (minority)", "", "historical label defaults changed")
    f = prog.find_func("CambridgeSampler.generate_profile")
    tables = {}
    for name in ("prob_ballot_given_bloc_first", "prob_ballot_given_opp_first", "bloc_first_count", "opp_bloc_first_count"):
        dv = astx.unique_def(f.node, name)
        tables[name] = astx.u(dv) if dv is not None else None
    good = tables["prob_ballot_given_bloc_first"] == astx.A("{ballot: freq / bloc_first_count for ballot, freq in ballot_frequencies.items() if ballot[0] == self.bloc_to_historical[bloc]}") \
        and tables["prob_ballot_given_opp_first"] == astx.A("{ballot: freq / opp_bloc_first_count for ballot, freq in ballot_frequencies.items() if ballot[0] == self.bloc_to_historical[opp_bloc]}") \
        and tables["bloc_first_count"] == astx.A("sum([freq for ballot, freq in ballot_frequencies.items() if ballot[0] == self.bloc_to_historical[bloc]])") \
        and tables["opp_bloc_first_count"] == astx.A("sum([freq for ballot, freq in ballot_frequencies.items() if ballot[0] == self.bloc_to_historical[opp_bloc]])")
    ctx.check(good, f, f.node, "Cambridge: bloc-first / opposing-first type tables are the historical frequencies conditioned on the first label, normalised by their own totals", "",
              f"type tables are {tables}")
    ob = astx.unique_def(f.node, "opp_bloc")
    ctx.check(ob is not None and astx.u(ob) == "self.blocs[(i + 1) % 2]", f, ob or f.node, "Cambridge: the opposing bloc is the other of the two blocs", "", "opp_bloc changed")
    # assembling a ballot from a type
    lps = [n for n in astx.walk_own(f.node) if isinstance(n, ast.For) and astx.u(n.iter) == "bloc_ordering"]
    good = False
    if len(lps) == 1:
        b = astx.u(lps[0].target)
        txt = astx.u(lps[0])
        want = (f"for {b} in bloc_ordering:\n    if {b} == self.bloc_to_historical[bloc]:\n        if ordered_bloc_slate:\n            full_ballot.append(ordered_bloc_slate.pop(0))\n"
                f"    elif ordered_opp_slate:\n        full_ballot.append(ordered_opp_slate.pop(0))")
        good = txt == want
    ctx.check(good, f, lps[0] if lps else f.node, "Cambridge: each position of the type takes the next unused candidate of the slate it names (own label -> own slate)", "",
              "ballot assembly from the historical type changed")
    sl = {n: astx.u(astx.unique_def(f.node, n)) if astx.unique_def(f.node, n) is not None else None for n in ("ordered_bloc_slate", "ordered_opp_slate")}
    ctx.check(sl["ordered_bloc_slate"] == astx.A("[c for c in pl_ordering if c in self.slate_to_candidates[bloc]]") and
              sl["ordered_opp_slate"] == astx.A("[c for c in pl_ordering if c in self.slate_to_candidates[opp_bloc]]"), f, f.node,
              "Cambridge: the PL ordering is split into the two slates, each keeping its order", str(sl), f"slate orderings are {sl}")


def facts_super(f):
    from vk import facts
    return facts.super_init_call(f)


def d8_interval_normal_form(ctx):
    """Every model reads its supports from a PreferenceInterval after the constructor has split off the candidates whose
    support is exactly zero and divided the rest by their sum; a candidate with a tiny positive share must stay among the
    ranked ones.  Decided by C15.R1's rules on PreferenceInterval."""
    from rules import c15
    sub = type(ctx)(ctx.prog, ctx.prop, ctx.tier)
    c15.r1_interval(sub)
    for o in sub.obs:
        o.rule = "C16.D8"
        ctx.obs.append(o)
    if len(sub.obs) < 8:
        ctx.vanished(f"PreferenceInterval obligations: only {len(sub.obs)}")


def d9_bloc_mixture(ctx):
    """The ballots of a bloc model are a mixture: bloc b contributes its share of the voters, drawn from b's own model.
    Which bloc receives which share is decided by C14.G1 (the apportionment is keyed in the order of its proportions, and
    self.blocs is that order; the crossover / Cambridge voter types are cohesion * share and consumed by key) - a share
    handed to another bloc leaves every ballot well-formed and changes the distribution."""
    from rules import c14
    sub = type(ctx)(ctx.prog, ctx.prop, ctx.tier)
    c14.g1_apportionment(sub)
    n = 0
    for o in sub.obs:
        o.rule = "C16.D9"
        ctx.obs.append(o)
        n += 1
    if n < 11:
        ctx.vanished(f"bloc mixture obligations: only {n}")


RULES = [
    ("C16.D8", d8_interval_normal_form, 8, "prerequisite: PreferenceInterval splits off exactly the zero supports, then normalises by the sum (C15.R1)"),
    ("C16.D9", d9_bloc_mixture, 11, "prerequisite: each bloc receives its own share of the voters (C14.G1: apportionment keyed in the order of the proportions; voter types by key)"),
    ("C16.D1", d1_alignment, 12, "population/probability alignment at every weighted draw in the package (reaching definitions incl. loop-carried)"),
    ("C16.D2", d2_metropolis, 7, "MCMC kernels: uniform adjacent proposal, swap move, Metropolis acceptance (min(1,r) or reciprocal pair)"),
    ("C16.D3", d3_spatial_sort, 3, "spatial models rank candidates by ascending distance"),
    ("C16.D4", d4_interval_indexing, 10, "slate models use the voter bloc's interval for each slate; crossover / Cambridge splits"),
    ("C16.D5", d5_cohesion_sampler, 6, "cohesion sampler: parallel lists stay parallel, renormalised, half-open bins"),
    ("C16.D7", d7_cambridge, 7, "CambridgeSampler: bloc <-> historical label mapping, conditional type tables, ballot assembly"),
    ("C16.D6", d6_model_parameters, 11, "constructor wiring: combined intervals (3 siblings), name-PL length, impartial-culture alphas, Dirichlet vector"),
]

BG = "src/votekit/ballot_generator.py"
FAULTS = [
    ("cohesion sampler strikes a slate one slot late", [(BG, "            if ballot_type.count(bloc_type) == len(\n                slate_to_non_zero_candidates[bloc_type]\n            ):", "            if ballot_type.count(bloc_type) > len(\n                slate_to_non_zero_candidates[bloc_type]\n            ):")], "C16.D5"),
    ("AC rebinding again", [(BG, "                bloc_order = list(\n                    np.random.choice(\n                        bloc_cands,", "                bloc_cands = list(\n                    np.random.choice(\n                        bloc_cands,")], "C16.D1"),
    ("PL values sorted", [(BG, "            pref_interval_values = [\n                self.pref_interval_by_bloc[bloc].interval[c] for c in non_zero_cands\n            ]", "            pref_interval_values = sorted([\n                self.pref_interval_by_bloc[bloc].interval[c] for c in non_zero_cands\n            ], reverse=True)")], "C16.D1"),
    ("cumulative support from zero-cands list", [(BG, "cand_support_vec = [pref_interval.interval[cand] for cand in non_zero_cands]", "cand_support_vec = list(pref_interval.interval.values())")], "C16.D1"),
    ("cambridge weights from other table", [(BG, "                weights=list(prob_ballot_given_bloc_first.values()),", "                weights=list(prob_ballot_given_opp_first.values()),")], "C16.D1"),
    ("BT mcmc ratio inverted", [(BG, "                pref_interval[next(iter(current_ranking[j2]))]\n                / pref_interval[next(iter(current_ranking[j1]))],", "                pref_interval[next(iter(current_ranking[j1]))]\n                / pref_interval[next(iter(current_ranking[j2]))],")], "C16.D2"),
    ("BT mcmc no min", [(BG, "            acceptance_prob = min(\n                1,\n                pref_interval[next(iter(current_ranking[j2]))]\n                / pref_interval[next(iter(current_ranking[j1]))],\n            )", "            acceptance_prob = (\n                pref_interval[next(iter(current_ranking[j2]))]\n                + pref_interval[next(iter(current_ranking[j1]))]\n            )")], "C16.D2"),
    ("slate mcmc one-sided again", [(BG, "            elif current_ranking[j1] != current_ranking[j2] and odds > 0:\n                acceptance_prob = 1 / odds\n", "")], "C16.D2"),
    ("slate mcmc odds inverted", [(BG, "        odds = (1 - cohesion) / cohesion\n", "        odds = cohesion / (1 - cohesion)\n")], "C16.D2"),
    ("slate mcmc non-adjacent swap", [(BG, "            (j1, j1 + 1)\n            for j1 in np.random.choice(len(seed_ballot_type) - 1, size=num_ballots)", "            (j1, j1 + 2)\n            for j1 in np.random.choice(len(seed_ballot_type) - 2, size=num_ballots)")], "C16.D2"),
    ("spatial farthest first", [(BG, "            candidate_order = sorted(distance_dict, key=distance_dict.__getitem__)\n            ballot_pool[v] = candidate_order\n\n        return (\n            self.ballot_pool_to_profile(ballot_pool, self.candidates),\n            candidate_position_dict,\n            voter_positions,",
                                  "            candidate_order = sorted(distance_dict, key=distance_dict.__getitem__, reverse=True)\n            ballot_pool[v] = candidate_order\n\n        return (\n            self.ballot_pool_to_profile(ballot_pool, self.candidates),\n            candidate_position_dict,\n            voter_positions,")], "C16.D3"),
    ("slate PL uses slate's own bloc intervals", [(BG, "                    bloc_cand_pref_interval = pref_intervals[b].interval\n                    cands = pref_intervals[b].non_zero_cands\n\n                    # if there are no non-zero candidates, skip this bloc\n                    if len(cands) == 0:\n                        continue\n\n                    distribution = [bloc_cand_pref_interval[c] for c in cands]\n\n                    # sample\n                    cand_ordering = np.random.choice(\n                        a=list(cands), size=len(cands), p=distribution, replace=False\n                    )\n                    cand_ordering_by_bloc[b] = list(cand_ordering)",
                                                   "                    bloc_cand_pref_interval = self.pref_intervals_by_bloc[b][b].interval\n                    cands = pref_intervals[b].non_zero_cands\n\n                    # if there are no non-zero candidates, skip this bloc\n                    if len(cands) == 0:\n                        continue\n\n                    distribution = [bloc_cand_pref_interval[c] for c in cands]\n\n                    # sample\n                    cand_ordering = np.random.choice(\n                        a=list(cands), size=len(cands), p=distribution, replace=False\n                    )\n                    cand_ordering_by_bloc[b] = list(cand_ordering)")], "C16.D4"),
    ("cohesion sampler deletes one list", [(BG, "                del blocs[bloc_index]\n                del values[bloc_index]", "                del blocs[bloc_index]")], "C16.D5"),
    ("cohesion sampler no renormalise", [(BG, "                values = [v / total_value_sum for v in values]\n", "")], "C16.D5"),
    ("cohesion bins closed on the left", [(BG, "            if bin < flip <= dist_bins[i + 1]:", "            if bin <= flip < dist_bins[i + 1] - 0.01:")], "C16.D5"),
    ("AC cross/bloc split swapped", [(BG, "                if i < num_cross_ballots:\n                    # alternate", "                if i < num_bloc_ballots:\n                    # alternate")], "C16.D4"),
]
FAULTS += [
    ("cambridge labels swapped", [(BG, "            self.W_bloc: self.historical_majority,\n            self.C_bloc: self.historical_minority,", "            self.W_bloc: self.historical_minority,\n            self.C_bloc: self.historical_majority,")], "C16.D7"),
    ("cambridge majority threshold strict", [(BG, "bloc for bloc, prop in self.bloc_voter_prop.items() if prop >= 0.5", "bloc for bloc, prop in self.bloc_voter_prop.items() if prop > 0.5")], "C16.D7"),
    ("cambridge opp table normalised by bloc total", [(BG, "                ballot: freq / opp_bloc_first_count", "                ballot: freq / bloc_first_count")], "C16.D7"),
    ("cambridge assembly pops own slate for other label", [(BG, "                    else:\n                        if ordered_opp_slate:\n                            full_ballot.append(ordered_opp_slate.pop(0))", "                    else:\n                        if ordered_opp_slate:\n                            full_ballot.append(ordered_opp_slate.pop())")], "C16.D7"),
    ("zero-cohesion tail overwrites the position just filled", [(BG, "                    ballot_type[i + 1 :] = remaining_blocs", "                    ballot_type[i:] = remaining_blocs")], "C16.D5"),
    ("zero-cohesion tail shuffles slates not slots", [(BG, "                    remaining_blocs = [\n                        b\n                        for b in blocs\n                        for _ in range(len(slate_to_non_zero_candidates[b]))\n                    ]\n                    random.shuffle(remaining_blocs)", "                    remaining_blocs = list(blocs)\n                    random.shuffle(remaining_blocs)\n                    remaining_blocs = [\n                        b\n                        for b in remaining_blocs\n                        for _ in range(len(slate_to_non_zero_candidates[b]))\n                    ]")], "C16.D5"),
    ("BT tables bound late", [(BG, "                bloc: self._BT_pdf(self.pref_interval_by_bloc[bloc].interval)\n                for bloc in self.blocs", "                bloc: self._BT_pdf(self.pref_interval_by_bloc[self.blocs[-1]].interval)\n                for bloc in self.blocs")], "C16.D6"),
    ("cohesion sum taken before the deletion", [(BG, "                del blocs[bloc_index]\n                del values[bloc_index]\n                total_value_sum = sum(values)\n", "                total_value_sum = sum(values)\n                del blocs[bloc_index]\n                del values[bloc_index]\n")], "C16.D5"),
    ("bin lookup falls back to the last bin", [(BG, "            if bin < flip <= dist_bins[i + 1]:\n                return i\n", "            if bin < flip <= dist_bins[i + 1]:\n                return i\n        return len(dist_bins) - 2\n")], "C16.D5"),
    ("combined interval pairs dict orders", [(BG, "                    [self.pref_intervals_by_bloc[bloc][b] for b in self.blocs],\n                    [self.cohesion_parameters[bloc][b] for b in self.blocs],", "                    list(self.pref_intervals_by_bloc[bloc].values()),\n                    list(self.cohesion_parameters[bloc].values()),", "all")], "C16.D6"),
    ("combined interval uses other bloc's cohesion row", [(BG, "[self.cohesion_parameters[bloc][b] for b in self.blocs],", "[self.cohesion_parameters[b][bloc] for b in self.blocs],", "all")], "C16.D6"),
    ("impartial culture alpha 1", [(BG, "        super().__init__(alpha=float(\"inf\"), **data)", "        super().__init__(alpha=1.0, **data)")], "C16.D6"),
    ("dirichlet one short", [(BG, "np.random.default_rng().dirichlet([self.alpha] * len(perm_rankings))", "np.random.default_rng().dirichlet([self.alpha] * len(self.candidates))")], "C16.D"),
]
BENIGN = [
    ("zero-cohesion test by truthiness", [(BG, "                if total_value_sum == 0 and len(values) > 0:", "                if not total_value_sum and values:")]),
    ("PL values via local dict", [(BG, "            pref_interval_values = [\n                self.pref_interval_by_bloc[bloc].interval[c] for c in non_zero_cands\n            ]", "            iv = self.pref_interval_by_bloc[bloc].interval\n            pref_interval_values = [iv[c] for c in non_zero_cands]")]),
]
