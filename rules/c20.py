"""C20 — invalid requests are rejected up front with the documented error (DESIGN §5/C20, Appendix A)."""
from __future__ import annotations

import ast
import re

from vk import astx, facts, elect
from vk.algebra import Normalizer, bool_key, literals, simplify
from vk.loader import AnalysisError
from vk.precond import obligation, called_before

EXPLANATION = (
    "One path-condition obligation per documented precondition: in the named function there is a "
    "`raise` of the documented type whose guard (union of the raise sites that mention the tested "
    "quantity, modulo earlier early-exits) is propositionally equivalent to the documented condition in "
    "normal form (so `m <= 0` == `m < 1` for ints, but `k and k <= 0` != `k is not None and k <= 0`); "
    "per-ballot conditions sit in a loop over all ballots that has no other exit; the rejection precedes "
    "the base-class constructor (which runs the election) or the first use. Does NOT decide behaviour "
    "on inputs violating several preconditions at once."
)
EXPLANATION += " Also decided (prerequisites and later clauses): the rating subclasses hand the user's limits to the validating constructor unmodified (C05.R5)."
ASSUMPTIONS = ["distinct comparison atoms are treated as independent when comparing guards (propositional canonicalisation, no solving)",
               "Election.__init__ is the only place an election runs (C01.R2 who-may-call)"]
TRUSTED = ["python ast module"]

INT = lambda a: True  # noqa: E731  (seat counts, lengths)


def _ballot_loop_var(f, contains="ballots", ctx=None):
    for n in astx.walk_own(f.node):
        if isinstance(n, ast.For) and contains in astx.u(n.iter):
            names = astx.assigned_names(n.target)
            return names[-1]
    # the validator may range over a derived view of the profile (<profile>.to_scores_dict() ...): its for-all claim is
    # then only as good as the view's coverage of the ballots, which C11.R7 decides; the per-ballot tests themselves
    # are in a shape this rule does not evaluate (UNDECIDED)
    if ctx is not None and len(f.params) > 1:
        from rules import c11
        for n in astx.walk_own(f.node):
            if isinstance(n, ast.For) and isinstance(n.iter, ast.Call) and isinstance(n.iter.func, ast.Attribute) and astx.is_name(n.iter.func.value, f.params[1]):
                view = n.iter.func.attr
                sub = type(ctx)(ctx.prog, ctx.prop, ctx.tier)
                c11.r7_dict_views(sub)
                for o in sub.obs:
                    if o.status == "VIOLATED" and view in o.construct:
                        ctx.violated(f, n, f"{f.short}: every ballot is validated", f"the validator ranges over `{astx.u(n.iter)}`, and that view does not cover every ballot ({o.construct}): "
                                     "ballots it skips are never checked against the limits")
    raise AnalysisError(f"anchor-missing: ballot loop in {f.short}")


def _own_validator(prog, cls_name, hint):
    """The class's own ballot validator, found by what it does (a loop over <param>.ballots raising TypeError), not by its name."""
    cls = prog.find_class(cls_name)
    hits = []
    for m in cls.methods.values():
        if m.name == "__init__" or isinstance(m.node, ast.Lambda) or len(m.params) < 2:
            continue
        loops = [n for n in astx.walk_own(m.node) if isinstance(n, ast.For) and astx.u(n.iter) == f"{m.params[1]}.ballots"]
        if loops and any(astx.raise_type(r) == "TypeError" for r in astx.raises_in(m.node)):
            hits.append(m)
    if not hits:
        # the validation may live in the constructor itself (a helper that the rules do not know is analysed as part of it)
        init = cls.methods.get("__init__")
        if init is not None and len(init.params) > 1 and any(astx.raise_type(r) == "TypeError" for r in astx.raises_in(init.node)) \
                and any(isinstance(n, ast.For) and astx.u(n.iter) == f"{init.params[1]}.ballots" for n in astx.walk_own(init.node)):
            return init
    if len(hits) != 1:
        raise AnalysisError(f"anchor-missing: {cls_name}: expected one own ballot validator ({hint}), found {[m.name for m in hits]}")
    return hits[0]


def _rn(mapping):
    """rename: exact unparse text -> symbol"""
    def rename(e):
        return mapping.get(astx.u(e))
    return rename


def r1_ballot_data(ctx):
    prog = ctx.prog
    # 1 RankingElection
    f = prog.find_func("RankingElection._validate_profile")
    b = _ballot_loop_var(f)
    obligation(ctx, f, "row 1: ranking rules reject ballots without ranking (TypeError, every ballot)", "not b.ranking", "TypeError",
               rename=_rn({b: "b"}), forall=True)
    el = prog.find_func("Election.__init__")
    vc = [c for c in astx.calls_in(el.node, "_validate_profile")]
    rc = [c for c in astx.calls_in(el.node, "_run_election")]
    ctx.check(len(vc) == 1 and len(rc) == 1 and vc[0].lineno < rc[0].lineno and astx.is_name(vc[0].args[0], el.params[1]) and el.node.body and
              astx.stmt_of(vc[0], astx.parents(el.node)) is [s for s in el.node.body if not (isinstance(s, ast.Expr) and isinstance(s.value, ast.Constant))][0],
              el, vc[0] if vc else el.node, "Election.__init__ validates the profile first, then runs", "", "validation is not the first action of Election.__init__")
    # 2,3 STV
    f = _own_validator(prog, "STV", "_stv_validate_profile")
    b = _ballot_loop_var(f)
    obligation(ctx, f, "row 2: STV rejects ballots without ranking (TypeError, every ballot)", "not b.ranking", "TypeError", rename=_rn({b: "b"}), forall=True)
    obligation(ctx, f, "row 3: STV rejects tied positions (TypeError, every ballot)", "any(len(s) > 1 for s in b.ranking)", "TypeError", rename=_rn({b: "b"}), forall=True)
    init = prog.find_func("STV.__init__")
    if f is init:
        sup = facts.super_init_call(init)
        rs_ = [r for r in astx.raises_in(init.node) if astx.raise_type(r) == "TypeError"]
        ctx.check(sup is not None and all(r.lineno < sup.lineno for r in rs_), init, init.node, "STV validates its profile before anything else", "", "the ballot validation does not precede the election")
    else:
        called_before(ctx, init, f.name, "STV validates its profile before anything else", first_arg=init.params[1])
    # 4,5 PluralityVeto
    f = _own_validator(prog, "PluralityVeto", "_pv_validate_profile")
    b = _ballot_loop_var(f)
    obligation(ctx, f, "row 4: PluralityVeto rejects ballots without ranking (TypeError, every ballot)", "not b.ranking", "TypeError", rename=_rn({b: "b"}), forall=True)
    obligation(ctx, f, "row 5: PluralityVeto rejects non-integer weights (TypeError, every ballot)", "int(b.weight) != b.weight", "TypeError",
               rename=_rn({b: "b"}), forall=True)
    init = prog.find_func("PluralityVeto.__init__")
    if f is init:
        rebound = [n for n in astx.walk_own(init.node) if isinstance(n, ast.Name) and n.id == init.params[1] and isinstance(n.ctx, ast.Store)]
        rs_ = [r for r in astx.raises_in(init.node) if astx.raise_type(r) == "TypeError"]
        ctx.check(bool(rs_) and all(r.lineno < min((n.lineno for n in rebound), default=10 ** 9) for r in rs_), init, init.node, "PluralityVeto validates its profile before anything else", "",
                  "the ballot validation does not precede the re-binding of the profile")
    else:
        called_before(ctx, init, f.name, "PluralityVeto validates its profile before anything else", first_arg=init.params[1])
    # 6,7 transfers
    for name in ("random_transfer", "fractional_transfer"):
        f = prog.find_func(name)
        b = _ballot_loop_var(f, contains=f.params[2])
        obligation(ctx, f, f"row 7: {name} rejects ballots without ranking (TypeError, every ballot)", "not b.ranking", "TypeError",
                   rename=_rn({b: "b"}), forall=True)
    f = prog.find_func("random_transfer")
    b = _ballot_loop_var(f, contains=f.params[2])
    obligation(ctx, f, "row 6: random_transfer rejects non-integer weights (TypeError, every ballot)", "not math.isclose(int(b.weight) - b.weight, 0)", "TypeError",
               rename=_rn({b: "b"}), forall=True)
    # 8 scores missing
    f = prog.find_func("GeneralRating._validate_profile")
    b = _ballot_loop_var(f, ctx=ctx)
    obligation(ctx, f, "row 8: rating rules reject ballots without scores (TypeError, every ballot)", "not b.scores", "TypeError", rename=_rn({b: "b"}), forall=True)
    f = prog.find_func("score_profile_from_ballot_scores")
    b = _ballot_loop_var(f)
    obligation(ctx, f, "row 12: score_profile_from_ballot_scores rejects ballots without scores (TypeError)", "not b.scores", "TypeError", rename=_rn({b: "b"}), forall=True)
    # scoring helpers on rankings
    for name in ("score_profile_from_rankings", "mentions", "add_missing_cands", "ballots_by_first_cand"):
        f = prog.find_func(name)
        b = _ballot_loop_var(f)
        obligation(ctx, f, f"{name} rejects ballots without ranking (TypeError, every ballot)", "not b.ranking", "TypeError", rename=_rn({b: "b"}), forall=True)


def r2_score_limits(ctx):
    prog = ctx.prog
    f = prog.find_func("GeneralRating._validate_profile")
    b = _ballot_loop_var(f, ctx=ctx)
    rn = _rn({b: "b", "self.L": "L", "self.k": "k"})
    obligation(ctx, f, "row 9: a score above the per-candidate limit is rejected (TypeError, every ballot)",
               "any(score > L for score in b.scores.values())", "TypeError", rename=rn, forall=True)
    obligation(ctx, f, "row 10: a negative score is rejected (TypeError, every ballot)",
               "any(score < 0 for score in b.scores.values())", "TypeError", rename=rn, forall=True)
    obligation(ctx, f, "row 11: scores summing above the budget are rejected when a budget is set (TypeError, every ballot)",
               "k is not None and sum(b.scores.values()) > k", "TypeError", rename=rn, forall=True)
    init = prog.find_func("GeneralRating.__init__")
    vc = astx.calls_in(init.node, "_validate_profile")
    stores = {astx.u(t): n.lineno for n in astx.walk_own(init.node) if isinstance(n, ast.Assign) for t in n.targets}
    good = len(vc) == 1 and stores.get("self.L", 10 ** 9) < vc[0].lineno and stores.get("self.k", 10 ** 9) < vc[0].lineno and astx.is_name(vc[0].args[0], init.params[1])
    sup = facts.super_init_call(init)
    good = good and sup is not None and vc[0].lineno < sup.lineno
    ctx.check(good, init, vc[0] if vc else init.node, "limits are stored, then the profile is validated, then the election runs", "",
              "GeneralRating.__init__ does not validate the profile after storing L and k and before running")
    # the limits that are enforced are the caller's: self.L / self.k are the parameters themselves, which nothing re-binds
    # (a conversion such as Fraction(L).limit_denominator() moves a rational limit and with it the set of legal ballots)
    for attr, par in (("self.L", "L"), ("self.k", "k")):
        if par not in init.params:
            ctx.vanished(f"GeneralRating.__init__ parameter {par}")
            continue
        st = [n for n in astx.walk_own(init.node) if isinstance(n, (ast.Assign, ast.AnnAssign)) and any(astx.u(t) == attr for t in (n.targets if isinstance(n, ast.Assign) else [n.target]))]
        rebound = [n for n in astx.walk_own(init.node) if isinstance(n, ast.Name) and n.id == par and isinstance(n.ctx, (ast.Store, ast.Del))]
        # (an exact conversion, `L = Fraction(L)`, leaves the value - and every comparison with it - as it was)
        pmi = astx.parents(init.node)
        rebound = [n for n in rebound if not (isinstance(pmi.get(n), ast.Assign) and astx.u(pmi[n].value) == f"Fraction({par})")]
        good = len(st) == 1 and st[0].value is not None and astx.is_name(st[0].value, par) and not rebound
        ctx.check(good, init, st[0] if st else init.node, f"{attr} is the constructor's argument {par}, unconverted", "",
                  f"{attr} is not the argument {par} as given (" + (f"`{astx.u(st[0])[:60]}`" if st else "no store") + (f"; {par} is re-bound at line {rebound[0].lineno}" if rebound else "") + ")")


def _seat_obligation(ctx, f, label, p, mname):
    """The seat-range rejection of a constructor: in the constructor itself (before it runs the election), or in a
    validator method of the class that the constructor calls before running, handing it the seat count and the profile."""
    from vk.precond import _Probe
    probe = _Probe(ctx)
    if obligation(probe, f, label, f"{mname} < 1 or {mname} > NC", "ValueError", rename=_rn({f"len({p}.candidates)": "NC"}), int_atoms=INT, before_super=True):
        probe.replay()
        return True
    sup = facts.super_init_call(f)
    for c in astx.calls_in(f.node):
        if not (isinstance(c.func, ast.Attribute) and astx.is_name(c.func.value, "self")) or (sup is not None and c.lineno >= sup.lineno) or f.cls is None:
            continue
        callee = f.cls.lookup(c.func.attr)
        if callee is None or callee is f:
            continue
        b = astx.bind_args(c, callee.params, skip_self=True)
        pm_ = [k for k, v in b.items() if astx.is_name(v, mname)]
        pp_ = [k for k, v in b.items() if astx.is_name(v, p)]
        if pm_ and pp_:
            probe2 = _Probe(ctx)
            if obligation(probe2, callee, label, f"{pm_[0]} < 1 or {pm_[0]} > NC", "ValueError", rename=_rn({f"len({pp_[0]}.candidates)": "NC"}), int_atoms=INT):
                probe2.replay()
                return True
    probe.replay()
    return False


def r3_seat_range(ctx):
    prog = ctx.prog
    for cname in ("STV", "PluralityVeto", "RandomDictator", "BoostedRandomDictator"):
        f = prog.find_func(f"{cname}.__init__")
        p = f.params[1]
        _seat_obligation(ctx, f, f"rows 13-16: {cname} rejects m < 1 or m > number of candidates (ValueError, before running)", p, "m")
    f = prog.find_func("GeneralRating.__init__")
    obligation(ctx, f, "row 17: rating rules reject m < 1 (ValueError, before validation)", "m < 1", "ValueError", int_atoms=INT, before_super=True)
    f = prog.find_func("elect_cands_from_set_ranking")
    rk = f.params[0]

    def rn(e):
        cb = elect.counted_base(e)
        if cb is not None and astx.u(cb) == rk:
            return "NC"
        return None
    good = obligation(ctx, f, "row 18: the top-m selector rejects m < 1 or m > number of ranked candidates (ValueError)",
                      "m < 1 or m > NC", "ValueError", rename=rn, int_atoms=INT)
    # ... before anything is elected
    loops = [n for n in astx.walk_own(f.node) if isinstance(n, ast.While)]
    rs = [r for r in astx.raises_in(f.node) if not astx.enclosing(r, astx.parents(f.node), ast.While)]
    # (the two range rejections; a rejection after the loop - e.g. "tie cannot be broken" - is not a range check)
    N18 = Normalizer(f.node, rename=rn, inline=False, int_atoms=INT)
    pm18 = astx.parents(f.node)
    range_rs = [r for r in rs if any(("NC" in l or re.search(r"ge\(m, 1\)", l)) for l in literals(N18.conj(astx.path_condition(f.node, r, pm18, carried=False))))]
    ctx.check(bool(loops) and len(range_rs) >= 2 and all(r.lineno < loops[0].lineno for r in range_rs), f, loops[0] if loops else f.node,
              "the selector's range checks precede the election loop", "", "range checks do not precede the election loop")
    f = prog.find_func("Alaska.__init__")
    obligation(ctx, f, "row 19: Alaska rejects m_1 < 1", "m_1 < 1", "ValueError", int_atoms=INT, before_super=True)
    obligation(ctx, f, "row 20: Alaska rejects m_2 < 1", "m_2 < 1", "ValueError", int_atoms=INT, before_super=True)
    obligation(ctx, f, "row 21: Alaska rejects m_1 < m_2", "m_1 < m_2", "ValueError", int_atoms=INT, before_super=True)


def r4_vectors_limits_quota(ctx):
    prog = ctx.prog
    from rules import c04, c02
    # rows 22-23
    sub = type(ctx)(prog, ctx.prop, ctx.tier)
    sub.cur_rule = "C20.R4"
    c04.r7_validate_vector(sub)
    for o in sub.obs:
        o.rule = "C20.R4"
        o.construct = "rows 22-23: " + o.construct
        ctx.obs.append(o)
    init = prog.find_func("Borda.__init__")
    called_before(ctx, init, "validate_score_vector", "Borda validates its score vector before running")
    # rows 24-26
    f = prog.find_func("GeneralRating.__init__")
    obligation(ctx, f, "row 24: rating rules reject L <= 0 (ValueError)", "L <= 0", "ValueError", before_super=True)
    obligation(ctx, f, "row 25: rating rules reject a budget k <= 0 when one is given (ValueError)", "k is not None and k <= 0", "ValueError", before_super=True)
    obligation(ctx, f, "row 26: rating rules reject L > k when a budget is given (ValueError)", "k is not None and L > k", "ValueError", before_super=True)
    f = prog.find_func("Limited.__init__")
    obligation(ctx, f, "row 27: Limited rejects k > m (ValueError)", "k > m", "ValueError", before_super=True)
    # row 28
    sub = type(ctx)(prog, ctx.prop, ctx.tier)
    c02.r1_quota(sub)
    for o in sub.obs:
        if "unknown quota" in o.construct:
            o.rule = "C20.R4"
            o.construct = "row 28: " + o.construct
            ctx.obs.append(o)


def r5_generators_profiles(ctx):
    prog = ctx.prog
    f = prog.find_func("BallotGenerator.__init__")
    rn = _rn({"kwargs['bloc_voter_prop']": "bvp", "kwargs['pref_intervals_by_bloc']": "pib", "kwargs['cohesion_parameters']": "cp"})
    # locals bound from kwargs are inlined
    obligation(ctx, f, "row 29: bloc proportions must sum to 1 (ValueError)", "round(sum(bvp.values()), 8) != 1.0", "ValueError", rename=rn, inline=True, allow_context=True)
    obligation(ctx, f, "row 31: bloc names of proportions and intervals must agree (ValueError)", "bvp.keys() != pib.keys()", "ValueError", rename=rn, inline=True, allow_context=True)
    obligation(ctx, f, "row 32: bloc names of proportions and cohesion must agree (ValueError)", "bvp.keys() != cp.keys()", "ValueError", rename=rn, inline=True, allow_context=True)
    obligation(ctx, f, "row 33: bloc names of intervals and cohesion must agree (ValueError)", "pib.keys() != cp.keys()", "ValueError", rename=rn, inline=True, allow_context=True)
    # what is validated is what the caller passed: the keyword dictionary is only read
    kw = f.node.args.kwarg.arg if f.node.args.kwarg is not None else None
    if kw is None:
        ctx.vanished("BallotGenerator.__init__(**kwargs)")
    else:
        MUT = {"update", "pop", "popitem", "setdefault", "clear", "__setitem__", "__delitem__"}
        writes = [n for n in astx.walk_own(f.node)
                  if (isinstance(n, ast.Subscript) and isinstance(n.ctx, (ast.Store, ast.Del)) and astx.is_name(n.value, kw))
                  or (isinstance(n, ast.Name) and n.id == kw and isinstance(n.ctx, (ast.Store, ast.Del)))
                  or (isinstance(n, ast.Call) and isinstance(n.func, ast.Attribute) and n.func.attr in MUT and astx.is_name(n.func.value, kw))]
        ctx.check(not writes, f, writes[0] if writes else f.node, "rows 29-34 are checked on the caller's own values (the keyword dictionary is not written)", "",
                  f"`{astx.u(astx.stmt_of(writes[0], astx.parents(f.node)))[:80]}` replaces a value the caller passed before / instead of validating it" if writes else "")
    # row 30: every bloc's cohesion row
    pm = astx.parents(f.node)
    N = Normalizer(f.node, inline=True, rename=rn)
    rows = [r for r in astx.raises_in(f.node) if isinstance(astx.enclosing(r, pm, ast.For), ast.For)]
    good = False
    d = ""
    for r in rows:
        lp = astx.enclosing(r, pm, ast.For)
        if N.key(lp.iter) == "cp.items()" and isinstance(lp.target, ast.Tuple):
            row = astx.u(lp.target.elts[1])
            lits = {l for l in literals(N.conj(astx.path_condition(f.node, r, pm))) if row in l}
            d = str(sorted(lits))
            no_exit = not any(isinstance(n, (ast.Break, ast.Continue, ast.Return)) for n in astx.walk_own(lp))
            good = lits == {f"not eq(round(sum({row}.values()), 8), 1)"} and astx.raise_type(r) == "ValueError" and no_exit
    ctx.check(good, f, rows[0] if rows else f.node, "row 30: every bloc's cohesion row must sum to 1 (ValueError, every bloc)", d,
              f"cohesion rows are rejected under {d}; documented round(sum(row), 8) != 1 for every bloc")
    # row 34: some but not all
    rs = [r for r in astx.raises_in(f.node)]
    good = False
    for r in rs:
        k = bool_key(Normalizer(f.node, inline=True).conj(astx.path_condition(f.node, r, pm)))
        if k.count("any(") == 1 and "not" in k and k.count("any(in(") == 1 and "nec_parameters" not in k or ("any(" in k and "all" not in k and "not any(not in(" in k):
            good = good or astx.raise_type(r) == "ValueError"
    ctx.check(good, f, f.node, "row 34: some but not all of the three bloc parameters is rejected (ValueError)", "", "partial bloc parameters are no longer rejected")
    # the checks precede the stores
    first_store = min((n.lineno for n in astx.walk_own(f.node) if isinstance(n, ast.Assign) and astx.u(n.targets[0]) in
                       ("self.pref_intervals_by_bloc", "self.bloc_voter_prop", "self.cohesion_parameters")), default=0)
    bloc_raises = [r for r in rs if r.lineno > 20 + f.node.lineno]
    ctx.check(first_store > 0 and all(r.lineno < first_store for r in rs), f, f.node, "bloc parameters are stored only after all checks", "", "a bloc parameter is stored before the checks finish")
    # row 35 from_params
    f = prog.find_func("BallotGenerator.from_params")
    obligation(ctx, f, "row 35a: from_params rejects proportions not summing to 1 (ValueError)", "round(sum(bloc_voter_prop.values()), 8) != 1.0", "ValueError")
    obligation(ctx, f, "row 35b: from_params rejects mismatched bloc names (ValueError)", "slate_to_candidates.keys() != bloc_voter_prop.keys()", "ValueError")
    draws = astx.calls_in(f.node, "from_dirichlet")
    ctx.check(bool(draws) and all(r.lineno < draws[0].lineno for r in astx.raises_in(f.node)), f, draws[0] if draws else f.node,
              "from_params checks precede the interval draws", "", "intervals are drawn before the parameter checks")
    # row 36 combine
    f = prog.find_func("combine_preference_intervals")
    obligation(ctx, f, "row 36a: overlapping candidate sets are rejected (ValueError)",
               "not (len(frozenset.union(*[pi.candidates for pi in intervals])) == sum(len(pi.candidates) for pi in intervals))", "ValueError")
    obligation(ctx, f, "row 36b: proportions not summing to 1 are rejected (ValueError)", "round(sum(proportions), 8) != 1", "ValueError")
    # row 37 duplicates
    f = prog.find_func("PreferenceProfile.cands_must_be_unique")
    obligation(ctx, f, "row 37: duplicate candidates are rejected (ValueError)", "candidates and not len(set(candidates)) == len(candidates)", "ValueError")
    decos = [astx.u(d) for d in f.node.decorator_list]
    ctx.check(any(d.startswith("field_validator('candidates'") or d.startswith('field_validator("candidates"') for d in decos), f, f.node,
              "the duplicate check is registered as field validator of `candidates`", str(decos), "cands_must_be_unique is no longer a field validator of candidates")


def r6_limits_reach_validation(ctx):
    """The limit checks of rows 23-26 live in GeneralRating.__init__; a request made through Rating / Limited / Cumulative /
    Approval / BlocPlurality is rejected only if the subclass hands the user's L, k and m on as they are (a default filled
    in with `k or m` turns the invalid k = 0 into a valid request).  Decided by C05.R5 (subclass parameter table)."""
    from rules import c05
    sub = type(ctx)(ctx.prog, ctx.prop, ctx.tier)
    fn = [r for r in c05.RULES if r[0] == "C05.R5"][0][1]
    fn(sub)
    n = 0
    for o in sub.obs:
        if "->" in o.construct or "only when" in o.construct or "unmodified constructor parameter" in o.construct:
            o.rule = "C20.R6"
            ctx.obs.append(o)
            n += 1
    if n < 8:
        ctx.vanished(f"subclass parameter obligations: only {n}")


RULES = [
    ("C20.R1", r1_ballot_data, 16, "rows 1-8, 12: ballots lacking the data a rule needs are rejected with TypeError, every ballot, before running"),
    ("C20.R2", r2_score_limits, 6, "rows 9-11: per-candidate limit, non-negativity and budget are enforced for every ballot"),
    ("C20.R3", r3_seat_range, 10, "rows 13-21: seat ranges and Alaska stage sizes are rejected with ValueError before running"),
    ("C20.R4", r4_vectors_limits_quota, 9, "rows 22-28: score vectors, rating limits, Limited budget, unknown quota"),
    ("C20.R6", r6_limits_reach_validation, 8, "prerequisite: rating subclasses hand the user's limits and seats to the validating constructor unmodified (C05.R5)"),
    ("C20.R5", r5_generators_profiles, 14, "rows 29-37: generator bloc parameters, interval overlap, duplicate candidates"),
]

RT = "src/votekit/elections/election_types/scores/rating.py"
STV = "src/votekit/elections/election_types/ranking/stv.py"
AK = "src/votekit/elections/election_types/ranking/alaska.py"
UT = "src/votekit/utils.py"
BG = "src/votekit/ballot_generator.py"
PI = "src/votekit/pref_interval.py"
PP = "src/votekit/pref_profile.py"
PV = "src/votekit/elections/election_types/ranking/plurality_veto.py"
AR = "src/votekit/elections/election_types/ranking/abstract_ranking.py"
FAULTS = [
    ("ranking check only first ballot", [(AR, "                raise TypeError(f\"Ballot {ballot} has no ranking.\")", "                raise TypeError(f\"Ballot {ballot} has no ranking.\")\n            break")], "C20.R1"),
    ("ranking check ValueError", [(AR, "                raise TypeError(f\"Ballot {ballot} has no ranking.\")", "                raise ValueError(f\"Ballot {ballot} has no ranking.\")")], "C20.R1"),
    ("rating limits moved onto the 10**6 grid", [(RT, "        self.m = m\n        if L <= 0:", "        self.m = m\n        L = Fraction(L).limit_denominator()\n        if L <= 0:")], "C20.R2"),
    ("one-bloc convenience overwrites the caller's proportions", [(BG, "        if any(x in kwargs for x in nec_parameters):", "        if len(kwargs.get(\"pref_intervals_by_bloc\", {})) == 1:\n            kwargs[\"bloc_voter_prop\"] = {b: 1.0 for b in kwargs[\"pref_intervals_by_bloc\"]}\n        if any(x in kwargs for x in nec_parameters):")], "C20.R5"),
    ("stv tie check len>2", [(STV, "elif any(len(s) > 1 for s in ballot.ranking):", "elif any(len(s) > 2 for s in ballot.ranking):")], "C20.R1"),
    ("stv tie check first position only", [(STV, "elif any(len(s) > 1 for s in ballot.ranking):", "elif any(len(s) > 1 for s in ballot.ranking[:1]):")], "C20.R1"),
    ("stv validates after running", [(STV, "        self._stv_validate_profile(profile)\n\n        if m <= 0", "        if m <= 0")], "C20.R1"),
    ("pv integer check truncated compare", [(PV, "elif int(ballot.weight) != ballot.weight:", "elif int(ballot.weight) > ballot.weight:")], "C20.R1"),
    ("limit >= L", [(RT, "elif any(score > self.L for score in b.scores.values()):", "elif any(score >= self.L for score in b.scores.values()):")], "C20.R2"),
    ("budget >= k", [(RT, "                if sum(b.scores.values()) > self.k:", "                if sum(b.scores.values()) >= self.k:")], "C20.R2"),
    ("negative scores allowed", [(RT, "elif any(score < 0 for score in b.scores.values()):", "elif any(score < -1 for score in b.scores.values()):")], "C20.R2"),
    ("budget check skipped after first ballot", [(RT, "                    raise TypeError(f\"Ballot {b} violates total score budget {self.k}.\")", "                    raise TypeError(f\"Ballot {b} violates total score budget {self.k}.\")\n                return")], "C20.R2"),
    ("stv m upper bound >=", [(STV, "if m <= 0 or m > len(profile.candidates):", "if m <= 0 or m >= len(profile.candidates) + 2:")], "C20.R3"),
    ("stv m lower bound < 0", [(STV, "if m <= 0 or m > len(profile.candidates):", "if m < 0 or m > len(profile.candidates):")], "C20.R3"),
    ("selector upper bound dropped", [(UT, "    if m > len([c for s in ranking for c in s]):", "    if m > len(ranking) + len([c for s in ranking for c in s]):")], "C20.R3"),
    ("alaska m_1 < m_2 loosened", [(AK, "elif m_1 < m_2:", "elif m_1 + 1 < m_2:")], "C20.R3"),
    ("alaska m_2 check dropped", [(AK, "        elif m_2 <= 0:\n            raise ValueError(\"m_2 must be positive.\")\n", "")], "C20.R3"),
    ("L check < 0", [(RT, "        if L <= 0:", "        if L < 0:")], "C20.R4"),
    ("limited k > m loosened", [(RT, "        if k > m:", "        if k > m + 1:")], "C20.R4"),
    ("proportion sum tolerance", [(BG, "            if round(sum(bloc_voter_prop.values()), 8) != 1.0:\n                raise ValueError(\"Voter proportion for blocs must sum to 1\")", "            if round(sum(bloc_voter_prop.values()), 1) != 1.0:\n                raise ValueError(\"Voter proportion for blocs must sum to 1\")")], "C20.R5"),
    ("cohesion rows only first bloc", [(BG, "                        f\"Cohesion parameters for bloc {bloc} must sum to 1.\"\n                    )", "                        f\"Cohesion parameters for bloc {bloc} must sum to 1.\"\n                    )\n                break")], "C20.R5"),
    ("bloc mismatch check dropped", [(BG, "            if bloc_voter_prop.keys() != cohesion_parameters.keys():", "            if False:")], "C20.R5"),
    ("overlap check inverted", [(PI, "    if not (\n        len(frozenset.union", "    if (\n        len(frozenset.union")], "C20.R5"),
    ("duplicate check >= ", [(PP, "            if not len(set(candidates)) == len(candidates):", "            if len(set(candidates)) > len(candidates):")], "C20.R5"),
]
BENIGN = [
    ("rating limit converted exactly", [(RT, "        self.m = m\n        if L <= 0:", "        self.m = m\n        L = Fraction(L)\n        if L <= 0:")]),
    ("m <= 0 as m < 1", [(STV, "if m <= 0 or m > len(profile.candidates):", "if m < 1 or len(profile.candidates) < m:")]),
    ("alaska reordered tests", [(AK, "        if m_1 <= 0:\n            raise ValueError(\"m_1 must be positive.\")\n        elif m_2 <= 0:\n            raise ValueError(\"m_2 must be positive.\")",
                                 "        if m_2 < 1:\n            raise ValueError(\"m_2 must be positive.\")\n        elif not m_1 > 0:\n            raise ValueError(\"m_1 must be positive.\")")]),
    ("ranking test via not-not", [(AR, "            if not ballot.ranking:", "            if not bool(ballot.ranking):")]),
]
