"""C13 — composite and alias rules equal their documented composition: wiring rules (DESIGN §5/C13)."""
from __future__ import annotations

import ast
import re

from vk import astx, facts, elect
from vk.report import shape_rule
from vk.algebra import Normalizer, bool_key, literals, spec_rat
from vk.loader import AnalysisError

EXPLANATION = (
    "Argument-to-parameter binding rules compared with a wiring table. Decides: IRV overrides only "
    "the constructor and calls STV(profile, m=1, quota, tiebreak) leaving transfer/simultaneous at "
    "their defaults; SNTV overrides only the constructor and passes (profile, m, tiebreak) to "
    "Plurality; SequentialRCV passes m/quota/simultaneous/tiebreak through with a full-weight "
    "transfer; TopTwo stage 0 is Plurality(profile, 2, tiebreak) with elected->remaining, "
    "remaining->eliminated and the eliminated removed from the same profile, stage 1 is "
    "Plurality(profile, 1, tiebreak) whose round-1 state is appended renumbered 2; Alaska stage 0 is "
    "Plurality(profile, m_1, tiebreak) with the same role mapping, stage 1 is STV(profile, m_2, "
    "transfer, quota, simultaneous, tiebreak) with each attribute bound to the parameter of the same "
    "meaning, its states[1:] appended shifted by +1; Alaska.get_profile rebuilds the same STV from "
    "get_profile(1) and asks for round rn-1. Does NOT decide equality of whole state lists with "
    "independently run components."
)
ASSUMPTIONS = ["the component rules themselves are decided by C01-C04, C09, C10"]
TRUSTED = ["python ast module"]


def _own_methods(cls):
    return sorted(cls.methods)


def r1_aliases(ctx):
    prog = ctx.prog
    stv_init = prog.find_func("STV.__init__")
    # IRV
    irv = prog.find_class("IRV")
    ctx.check(_own_methods(irv) == ["__init__"] and irv.base_names[0].endswith(".STV"), irv.methods.get("__init__"), irv.node,
              "IRV overrides only the constructor of STV", str(_own_methods(irv)), f"IRV defines {_own_methods(irv)} / bases {irv.base_names}")
    f = prog.find_func("IRV.__init__")
    call = facts.super_init_call(f)
    b = astx.bind_args(call, stv_init.params, skip_self=True) if call is not None else {}
    got = {k: astx.u(v) for k, v in b.items()}
    ctx.check(got == {"profile": f.params[1], "m": "1", "quota": "quota", "tiebreak": "tiebreak"}, f, call or f.node,
              "IRV = STV(profile, m=1, quota=quota, tiebreak=tiebreak), default transfer and simultaneous", str(got), f"IRV passes {got}")
    # defaults that IRV relies on
    ctx.check(astx.u(stv_init.param_default("transfer")) == "fractional_transfer" and astx.is_const(stv_init.param_default("simultaneous"), True)
              and astx.is_const(stv_init.param_default("quota"), "droop") and astx.is_const(stv_init.param_default("m"), 1), stv_init, stv_init.node,
              "STV defaults: fractional transfer, simultaneous, droop, m=1", "", "an STV default that IRV/Alaska rely on changed")
    ctx.check(astx.is_const(f.param_default("quota"), "droop") and astx.is_const(f.param_default("tiebreak"), None), f, f.node, "IRV defaults: droop, no tiebreak", "", "IRV defaults changed")
    # SNTV
    sntv = prog.find_class("SNTV")
    pl_init = prog.find_func("Plurality.__init__")
    ctx.check(_own_methods(sntv) == ["__init__"] and sntv.base_names[0].endswith(".Plurality"), sntv.methods.get("__init__"), sntv.node,
              "SNTV overrides only the constructor of Plurality", str(_own_methods(sntv)), f"SNTV defines {_own_methods(sntv)}")
    f = prog.find_func("SNTV.__init__")
    call = facts.super_init_call(f)
    b = astx.bind_args(call, pl_init.params, skip_self=True) if call is not None else {}
    got = {k: astx.u(v) for k, v in b.items()}
    ctx.check(got == {"profile": f.params[1], "m": "m", "tiebreak": "tiebreak"}, f, call or f.node, "SNTV = Plurality(profile, m, tiebreak)", str(got), f"SNTV passes {got}")
    ctx.check([astx.u(f.param_default(p)) for p in ("m", "tiebreak")] == [astx.u(pl_init.param_default(p)) for p in ("m", "tiebreak")], f, f.node,
              "SNTV and Plurality have the same defaults", "", "SNTV's defaults differ from Plurality's")
    # SequentialRCV
    srcv = prog.find_class("SequentialRCV")
    ctx.check(_own_methods(srcv) == ["__init__"] and srcv.base_names[0].endswith(".STV"), srcv.methods.get("__init__"), srcv.node,
              "SequentialRCV overrides only the constructor of STV", str(_own_methods(srcv)), f"SequentialRCV defines {_own_methods(srcv)}")
    f = prog.find_func("SequentialRCV.__init__")
    call = facts.super_init_call(f)
    b = astx.bind_args(call, stv_init.params, skip_self=True) if call is not None else {}
    got = {k: astx.u(v) for k, v in b.items() if k != "transfer"}
    ctx.check(got == {"profile": f.params[1], "m": "m", "quota": "quota", "simultaneous": "simultaneous", "tiebreak": "tiebreak"}, f, call or f.node,
              "SequentialRCV passes m, quota, simultaneous, tiebreak through", str(got), f"SequentialRCV passes {got}")
    t = b.get("transfer")
    good = False
    if isinstance(t, ast.Lambda) and len(t.args.args) == 4 and isinstance(t.body, ast.Call) and astx.call_name(t.body) == "remove_cand":
        w, fpv, bal, thr = [a.arg for a in t.args.args]
        rc = prog.find_func("remove_cand")
        bb = astx.bind_args(t.body, rc.params)
        used = {n.id for n in ast.walk(t.body) if isinstance(n, ast.Name)}
        good = astx.is_name(bb.get(rc.params[0]), w) and astx.u(astx.strip_wrappers(bb.get(rc.params[1]))) == bal and fpv not in used and thr not in used and len(bb) == 2
    ctx.check(good, f, t if t is not None else f.node, "SequentialRCV transfer = winner's ballots moved on at full weight", astx.u(t) if t is not None else "",
              "SequentialRCV's transfer is not `lambda winner, fpv, ballots, threshold: remove_cand(winner, tuple(ballots))`")


def _stage0(ctx, f, seats_expr, label):
    prog = ctx.prog
    pm = astx.parents(f.node)
    N = Normalizer(f.node, inline=False)
    pl_init = prog.find_func("Plurality.__init__")
    prev = f.params[2]
    pls = [c for c in astx.calls_in(f.node, "Plurality")]
    stage0 = [c for c in pls if f"eq({prev}.round_number, 0)" in literals(N.conj(astx.path_condition(f.node, c, pm)))]
    if len(stage0) != 1:
        ctx.violated(f, f.node, f"{label}: stage 0 runs one Plurality election", f"{len(stage0)} Plurality(...) calls under `prev_state.round_number == 0`")
        return None
    c = stage0[0]
    b = {k: astx.u(v) for k, v in astx.bind_args(c, pl_init.params, skip_self=True).items()}
    ctx.check(b == {"profile": f.params[1], "m": seats_expr, "tiebreak": "self.tiebreak"}, f, c,
              f"{label}: stage 0 = Plurality(profile, {seats_expr}, self.tiebreak)", str(b), f"stage 0 constructs Plurality with {b}")
    st = astx.stmt_of(c, pm)
    pv = st.targets[0].id if isinstance(st, ast.Assign) and isinstance(st.targets[0], ast.Name) else None
    # role mapping
    ctors = [sc for sc in elect.state_ctor_calls(prog, f)]
    good = False
    d = ""
    if len(ctors) == 1 and pv:
        kw = elect.state_kwargs(prog, ctors[0])

        def src(name):
            v = kw.get(name)
            dv = astx.unique_def(f.node, v.id) if isinstance(v, ast.Name) else v
            return astx.u(dv) if dv is not None else None
        d = f"remaining<-{src('remaining')}, eliminated<-{src('eliminated')}, tiebreaks<-{src('tiebreaks')}, round<-{src('round_number')}, elected<-{src('elected')}"
        good = (src("remaining") == f"{pv}.get_elected()" and src("eliminated") == f"{pv}.get_remaining()" and "elected" not in kw
                and src("tiebreaks") in (f"{pv}.election_states[-1].tiebreaks", f"{pv}.election_states[1].tiebreaks")
                and src("round_number") == f"{prev}.round_number + 1")
    ctx.check(good, f, ctors[0] if ctors else f.node, f"{label}: stage-0 state: sub-election's elected -> remaining, its remaining -> eliminated", d,
              f"stage-0 state is built as {d}")
    # next profile = remove eliminated from the same profile
    rcs = astx.calls_in(f.node, "remove_cand")
    rc = prog.find_func("remove_cand")
    good = False
    if len(rcs) == 1:
        bb = astx.bind_args(rcs[0], rc.params)
        x = elect.flatten_base(bb[rc.params[0]], f.node)
        xd = astx.unique_def(f.node, x.id) if isinstance(x, ast.Name) else x
        good = xd is not None and astx.u(xd) == f"{pv}.get_remaining()" and astx.is_name(bb.get(rc.params[1]), f.params[1]) and len(bb) == 2
    ctx.check(good, f, rcs[0] if rcs else f.node, f"{label}: next profile = same profile minus everybody the Plurality stage did not keep", "",
              "the stage-0 profile is not remove_cand(<sub-election's remaining>, profile)")
    return pv


def r2_toptwo(ctx):
    prog = ctx.prog
    f = prog.find_func("TopTwo._run_step")
    _stage0(ctx, f, "2", "TopTwo")
    pm = astx.parents(f.node)
    N = Normalizer(f.node, inline=False)
    prev = f.params[2]
    pl_init = prog.find_func("Plurality.__init__")
    later = [c for c in astx.calls_in(f.node, "Plurality") if f"not eq({prev}.round_number, 0)" in literals(N.conj(astx.path_condition(f.node, c, pm)))]
    if len(later) != 1:
        ctx.violated(f, f.node, "TopTwo: runoff stage", f"{len(later)} Plurality(...) calls in the later-round branch")
        return
    c = later[0]
    b = {k: astx.u(v) for k, v in astx.bind_args(c, pl_init.params, skip_self=True).items()}
    ctx.check(b == {"profile": f.params[1], "m": "1", "tiebreak": "self.tiebreak"}, f, c, "TopTwo: runoff = Plurality(profile, 1, self.tiebreak)", str(b),
              f"runoff constructs Plurality with {b}")
    st = astx.stmt_of(c, pm)
    pv = st.targets[0].id
    blk = pm[st]
    seq = blk.orelse if st in getattr(blk, "orelse", []) else blk.body
    txt = [astx.u(s) for s in ast.walk(ast.Module(body=seq, type_ignores=[])) if isinstance(s, (ast.Assign, ast.Expr))]
    good = (f"new_profile = {pv}.get_profile()" in txt and f"{pv}.election_states[1].round_number = 2" in txt
            and f"self.election_states.append({pv}.election_states[1])" in txt)
    if not good:
        # the state held in a local: s = runoff.election_states[1]; s.round_number = 2; self.election_states.append(s)
        for s_ in (x for x in ast.walk(ast.Module(body=seq, type_ignores=[])) if isinstance(x, ast.Assign) and isinstance(x.targets[0], ast.Name) and astx.u(x.value) == f"{pv}.election_states[1]"):
            nm = s_.targets[0].id
            good = good or (f"new_profile = {pv}.get_profile()" in txt and f"{nm}.round_number = 2" in txt and f"self.election_states.append({nm})" in txt)
    ctx.check(good, f, st, "TopTwo: runoff's round-1 state appended as round 2; its final profile returned", str(txt)[:160],
              f"runoff branch does {txt}")


def _stv_binding(prog, call):
    stv_init = prog.find_func("STV.__init__")
    return {k: astx.u(v) for k, v in astx.bind_args(call, stv_init.params, skip_self=True).items()}


def r3_alaska(ctx):
    prog = ctx.prog
    f = prog.find_func("Alaska._run_step")
    _stage0(ctx, f, "self.m_1", "Alaska")
    pm = astx.parents(f.node)
    N = Normalizer(f.node, inline=False)
    prev = f.params[2]
    want = {"m": "self.m_2", "transfer": "self.transfer", "quota": "self.quota", "simultaneous": "self.simultaneous", "tiebreak": "self.tiebreak"}
    stvs = [c for c in astx.calls_in(f.node, "STV") if f"not eq({prev}.round_number, 0)" in literals(N.conj(astx.path_condition(f.node, c, pm)))]
    if len(stvs) != 1:
        ctx.violated(f, f.node, "Alaska: STV stage", f"{len(stvs)} STV(...) calls in the later-round branch")
        return
    b = _stv_binding(prog, stvs[0])
    ctx.check(b == dict(want, profile=f.params[1]), f, stvs[0], "Alaska: stage 1 = STV(profile, m_2, transfer, quota, simultaneous, tiebreak)", str(b),
              f"stage 1 binds {b}; each attribute must reach the STV parameter of the same meaning")
    st = astx.stmt_of(stvs[0], pm)
    sv = st.targets[0].id
    blk = pm[st]
    seq = blk.orelse if st in getattr(blk, "orelse", []) else blk.body
    body = ast.Module(body=seq, type_ignores=[])
    txt = [astx.u(s) for s in ast.walk(body) if isinstance(s, (ast.Assign, ast.AugAssign, ast.Expr))]
    shifts = [s for s in ast.walk(body) if isinstance(s, ast.AugAssign) and astx.u(s.target).endswith(".round_number")]
    good = f"new_profile = {sv}.get_profile()" in txt and len(shifts) == 1 and isinstance(shifts[0].op, ast.Add) and astx.is_const(shifts[0].value, 1)
    if good:
        lp = astx.enclosing(shifts[0], astx.parents(body), ast.For)
        good = lp is not None and astx.u(lp.iter) == f"{sv}.election_states[1:]" and astx.u(shifts[0].target) == f"{astx.u(lp.target)}.round_number"
        # the renumbered states are added wholesale afterwards, or one by one in the renumbering loop (after the shift)
        whole = f"self.election_states += {sv}.election_states[1:]" in txt
        one_by_one = lp is not None and any(isinstance(x, ast.Expr) and astx.u(x) == f"self.election_states.append({astx.u(lp.target)})" and x.lineno > shifts[0].lineno for x in lp.body)
        good = good and (whole != one_by_one)
    # (recognised by the spelling of its statements: in a function restructured beyond a small edit this clause cannot decide)
    ctx.check_shape(good, f, st, "Alaska: STV states[1:] appended with round numbers shifted by +1; STV's final profile returned", str(txt)[:200],
                    f"later-round branch does {txt}")
    # attributes are the unmodified constructor parameters
    init = prog.find_func("Alaska.__init__")
    for attr in ("m_1", "m_2", "transfer", "quota", "simultaneous", "tiebreak"):
        ws = facts.writers_of_attr(prog, attr, classes=[prog.find_class("Alaska")])
        good = len(ws) == 1 and ws[0][0] is init and astx.u(astx.parents(init.node)[ws[0][1]].value) == attr
        ctx.check(good, init, ws[0][1] if ws else init.node, f"Alaska.self.{attr} is the unmodified constructor parameter", "", f"self.{attr} is not stored unmodified")
    stv_init = prog.find_func("STV.__init__")
    same_defaults = all(astx.u(init.param_default(p)) == astx.u(stv_init.param_default(p)) for p in ("transfer", "quota", "simultaneous", "tiebreak"))
    ctx.check(same_defaults and astx.is_const(init.param_default("m_1"), 2) and astx.is_const(init.param_default("m_2"), 1), init, init.node,
              "Alaska defaults match STV's (and m_1=2, m_2=1)", "", "Alaska's defaults diverge from STV's")
    # get_profile: sibling agreement with the run
    g = prog.find_func("Alaska.get_profile")
    gpm = astx.parents(g.node)
    calls = astx.calls_in(g.node, "STV")
    if len(calls) != 1:
        ctx.violated(g, g.node, "Alaska.get_profile rebuilds the STV stage", f"{len(calls)} STV(...) calls")
        return
    gb = _stv_binding(prog, calls[0])
    # the profile argument may be held in a single-assignment temporary
    gprof = gb.get("profile")
    if gprof is not None and gprof.isidentifier():
        dvp = astx.unique_def(g.node, gprof)
        gprof = astx.u(dvp) if dvp is not None else gprof
    ctx.check({k: v for k, v in gb.items() if k != "profile"} == {k: v for k, v in b.items() if k != "profile"} and gprof == "self.get_profile(1)",
              g, calls[0], "Alaska.get_profile builds the same STV from get_profile(1) (sibling agreement)", str(gb),
              f"get_profile binds {gb}; the run binds {b}; the profile must be self.get_profile(1)")
    gst = astx.stmt_of(calls[0], gpm)
    if isinstance(gst, ast.Assign) and len(gst.targets) == 1 and isinstance(gst.targets[0], ast.Name):
        gv = gst.targets[0].id
        qs = [c for c in astx.calls_in(g.node, "get_profile") if astx.is_name(c.func.value, gv)]
    else:
        # the STV is asked at once: STV(...).get_profile(rn - 1)
        qs = [c for c in astx.calls_in(g.node, "get_profile") if isinstance(c.func, ast.Attribute) and c.func.value is calls[0]]
    Ng = Normalizer(g.node, inline=False, int_atoms=lambda a: True)
    good = len(qs) == 1 and qs[0].args and Ng.rat(qs[0].args[0]).equals(spec_rat("round_number - 1"))
    ctx.check(bool(good), g, qs[0] if qs else g.node, "Alaska.get_profile asks the STV for round rn - 1 (offset agrees with the +1 shift)",
              astx.u(qs[0]) if qs else "", "the round offset in Alaska.get_profile does not match the +1 renumbering")
    # rounds 0 and 1 are replayed
    from vk.algebra import implies, spec_guard, NOT
    early = spec_guard("round_number in [0, 1]", int_atoms=lambda a: True)
    cond_rep = None
    for lp in (n for n in astx.walk_own(g.node) if isinstance(n, ast.For)):
        cond_rep = Ng.conj(astx.path_condition(g.node, lp, gpm))
    cond_stv = Ng.conj(astx.path_condition(g.node, calls[0], gpm))
    good = cond_rep is not None and implies(cond_rep, early) and implies(cond_stv, NOT(early))
    ctx.check(good, g, g.node, "Alaska.get_profile: rounds 0 and 1 replayed, later rounds delegated to the STV", "", "the round split in Alaska.get_profile changed")


def r4_argument_order(ctx):
    from vk import wiring
    wiring.check_swapped(ctx, ("src/votekit/",), "package")


def r5_selector_partition(ctx):
    """TopTwo and Alaska strike `plurality.get_remaining()` from every ballot before their second stage, so their
    documented composition needs the Plurality selector to return, as remaining, exactly the candidates it did not
    seat (tie losers first, then every lower group).  Decided by C10.R5's shape rules on elect_cands_from_set_ranking."""
    from rules import c10
    sub = type(ctx)(ctx.prog, ctx.prop, ctx.tier)
    c10.r5_groups_obey(sub)
    for o in sub.obs:
        o.rule = "C13.R5"
        ctx.obs.append(o)
    if len(sub.obs) < 4:
        ctx.vanished(f"selector obligations: only {len(sub.obs)}")


def r6_candidate_universe(ctx):
    """The later stage must run on the profile restricted to the finalists: every other REGISTERED candidate is struck,
    whether or not a ballot ranks it.  Who-may-read rule: outside the profile class itself no election rule, utility or
    cleaning function reads `candidates_cast` (the candidates that happen to appear on a ballot); the candidate universe
    is `candidates`.  Decided over every function of those modules, whatever its shape."""
    prog = ctx.prog
    n = 0
    for f in prog.iter_functions(("src/votekit/elections/", "src/votekit/utils.py", "src/votekit/cleaning.py", "src/votekit/models.py")):
        if isinstance(f.node, ast.Lambda):
            continue
        n += 1
        hits = [x for x in astx.walk_own(f.node) if isinstance(x, ast.Attribute) and x.attr == "candidates_cast" and isinstance(x.ctx, ast.Load)]
        if hits:
            ctx.violated(f, hits[0], f"{f.short}: candidate universe read from candidates_cast",
                         f"`{astx.u(hits[0])}`: a registered candidate that no ballot ranks is not in candidates_cast, so it is neither struck nor scored "
                         "(the profile handed to the next stage keeps it)")
    ctx.ok(None, None, "no election rule / utility reads candidates_cast", f"{n} functions examined")
    # positive example: the matcher must see the attribute read
    fx = ast.parse("def g(profile):\n    return [c for c in profile.candidates_cast]\n").body[0]
    if not [x for x in ast.walk(fx) if isinstance(x, ast.Attribute) and x.attr == "candidates_cast"]:
        ctx.undecided(None, None, "candidates_cast matcher fixture", "matcher failed on the embedded positive example")


RULES = [
    ("C13.R6", r6_candidate_universe, 1, "who-may-read: election code takes the candidate universe from `candidates`, never from `candidates_cast`"),
    ("C13.R1", r1_aliases, 10, "IRV / SNTV / SequentialRCV are thin constructor-only subclasses with the documented arguments"),
    ("C13.R2", r2_toptwo, 5, "TopTwo: Plurality(2) role mapping, then Plurality(1) runoff renumbered 2"),
    ("C13.R4", r4_argument_order, 1, "no call binds an argument to a differently named parameter while a same-named parameter exists (package-wide)"),
    ("C13.R5", r5_selector_partition, 4, "prerequisite: the Plurality selector's `remaining` is exactly the unseated candidates (struck by TopTwo / Alaska)"),
    ("C13.R3", r3_alaska, 14, "Alaska: Plurality(m_1) then STV(m_2,...) with +1 renumbering; get_profile agrees with the run"),
]

STV = "src/votekit/elections/election_types/ranking/stv.py"
PL = "src/votekit/elections/election_types/ranking/plurality.py"
TT = "src/votekit/elections/election_types/ranking/top_two.py"
AK = "src/votekit/elections/election_types/ranking/alaska.py"
FAULTS = [
    ("IRV drops tiebreak", [(STV, "super().__init__(profile, m=1, quota=quota, tiebreak=tiebreak)", "super().__init__(profile, m=1, quota=quota)")], "C13.R1"),
    ("IRV one-by-one", [(STV, "super().__init__(profile, m=1, quota=quota, tiebreak=tiebreak)", "super().__init__(profile, m=1, quota=quota, simultaneous=False, tiebreak=tiebreak)")], "C13.R1"),
    ("SNTV swaps args", [(PL, "        super().__init__(profile, m, tiebreak)", "        super().__init__(profile, tiebreak=tiebreak)")], "C13.R1"),
    ("SeqRCV simultaneous dropped", [(STV, "            quota=quota,\n            simultaneous=simultaneous,\n            tiebreak=tiebreak,\n        )", "            quota=quota,\n            tiebreak=tiebreak,\n        )")], "C13.R1"),
    ("TopTwo keeps three", [(TT, "plurality = Plurality(profile, 2, self.tiebreak)", "plurality = Plurality(profile, 3, self.tiebreak)")], "C13.R2"),
    ("TopTwo runoff without tiebreak", [(TT, "plurality = Plurality(profile, 1, self.tiebreak)", "plurality = Plurality(profile, 1)")], "C13.R2"),
    ("TopTwo roles swapped", [(TT, "            remaining = plurality.get_elected()\n            eliminated = plurality.get_remaining()", "            remaining = plurality.get_remaining()\n            eliminated = plurality.get_elected()")], "C13.R2"),
    ("TopTwo runoff state renumbered 1", [(TT, "plurality.election_states[1].round_number = 2", "plurality.election_states[1].round_number = 1")], "C13.R2"),
    ("Alaska plurality uses m_2", [(AK, "plurality = Plurality(profile, self.m_1, self.tiebreak)", "plurality = Plurality(profile, self.m_2, self.tiebreak)")], "C13.R3"),
    ("Alaska run passes quota as transfer slot", [(AK, "            stv = STV(\n                profile,\n                self.m_2,\n                self.transfer,\n                self.quota,\n                self.simultaneous,\n                self.tiebreak,\n            )\n            new_profile",
                                                   "            stv = STV(\n                profile,\n                self.m_2,\n                self.transfer,\n                self.quota,\n                tiebreak=self.tiebreak,\n            )\n            new_profile")], "C13.R3"),
    ("Alaska get_profile forgets simultaneous", [(AK, "                self.get_profile(1),  # plurality profile\n                self.m_2,\n                self.transfer,\n                self.quota,\n                self.simultaneous,\n                self.tiebreak,",
                                                  "                self.get_profile(1),  # plurality profile\n                self.m_2,\n                self.transfer,\n                self.quota,\n                True,\n                self.tiebreak,")], "C13.R3"),
    ("Alaska get_profile offset", [(AK, "profile = stv.get_profile(round_number - 1)", "profile = stv.get_profile(round_number - 2)")], "C13.R3"),
    ("Alaska no renumbering", [(AK, "                    state.round_number += 1", "                    state.round_number += 0")], "C13.R3"),
    ("Alaska appends all STV states", [(AK, "                self.election_states += stv.election_states[1:]", "                self.election_states += stv.election_states")], "C13.R3"),
]
BENIGN = [
    ("IRV positional m", [(STV, "super().__init__(profile, m=1, quota=quota, tiebreak=tiebreak)", "super().__init__(profile, 1, quota=quota, tiebreak=tiebreak)")]),
    ("Alaska keywords", [(AK, "            stv = STV(\n                profile,\n                self.m_2,\n                self.transfer,\n                self.quota,\n                self.simultaneous,\n                self.tiebreak,\n            )\n            new_profile",
                          "            stv = STV(\n                profile,\n                m=self.m_2,\n                transfer=self.transfer,\n                tiebreak=self.tiebreak,\n                quota=self.quota,\n                simultaneous=self.simultaneous,\n            )\n            new_profile")]),
]

AL_PY = "src/votekit/elections/election_types/ranking/alaska.py"
FAULTS += [
    ("cut taken from the candidates that were cast", [(AL_PY, "new_profile = remove_cand([c for s in eliminated for c in s], profile)",
                                                     "new_profile = remove_cand([c for c in profile.candidates_cast if c not in [x for s in remaining for x in s]], profile)")], "C13.R"),
]
