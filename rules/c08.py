"""C08 — neutrality, anonymity, representation and hash-seed independence: structural clauses (DESIGN §5/C08)."""
from __future__ import annotations

import ast
import re

from vk import astx, elect, facts, pairsym
from vk.report import shape_rule
from vk.algebra import Normalizer, NotClosedForm, bool_key, literals
from vk.loader import AnalysisError
from rules import c10

EXPLANATION = (
    "An outcome can depend on candidate names or on set/dict iteration order only through a small set "
    "of constructs; the rules enumerate them in the election, scoring and pairwise modules. Decides: "
    "no ordering primitive (sorted/min/max/.sort, or an order comparison) ranges over candidate names "
    "or over candidates-by-score outside the equal-score grouping idiom; no positional pick "
    "(list(S)[0], next(iter(S)), S.pop(), first-of-loop) from an unordered collection unless the "
    "collection is singleton-proved or the pick is used only as a key into the scores that define its "
    "equal-score class; the tuple order of every recorded elected/eliminated/remaining group comes "
    "from a score ranking, the selector, a tier list ordered by reach size, or a singleton; no hash()/ "
    "id() in rule code; no RNG on deterministic paths (= C10.R1). Does NOT decide invariance under "
    "splitting/merging ballot weights (arithmetic; condense is C11)."
)
EXPLANATION += ' Also decided (prerequisites and later clauses): the weight a ballot carries out of a surplus transfer is an exact product (C03.R5 / R7), hence additive under merging and splitting.'
ASSUMPTIONS = ["F2: tiebreak_set returns singletons (checked by C10.R4)", "F3: an m=1 selection elects one singleton (C01.R5/C10.R5)",
               "dict equality and frozenset equality ignore insertion order"]
TRUSTED = ["python set/dict semantics"]

SCOPE = elect.SCOPE_ELECTION
ORDERING = {"sorted", "min", "max", "sort", "argmax", "argmin", "argsort", "nlargest", "nsmallest"}
CAND_HINT = re.compile(r"candidates|cands|\.keys\(\)|\.items\(\)|ranking|remaining|elected|eliminated|scores|tiers|score_dict|score_to_cand")


def _iterable_text(f, e, depth=0):
    """Source text of the iterable with locals expanded one or two levels (for the hint test)."""
    if isinstance(e, ast.Name) and depth < 2:
        dv = astx.unique_def(f.node, e.id)
        if dv is not None:
            return e.id + " := " + _iterable_text(f, dv, depth + 1)
    return astx.u(e)


def r1_ordering_primitives(ctx):
    prog = ctx.prog
    n = 0
    for f in prog.iter_functions(SCOPE):
        if isinstance(f.node, ast.Lambda):
            continue
        if f.name in ("head", "tail", "__str__", "_sum_row", "draw", "create_df"):
            continue  # display helpers (pandas sort_values); they do not feed outcomes
        pm = astx.parents(f.node)
        for c in astx.calls_in(f.node):
            nm = astx.call_name(c)
            if nm not in ORDERING:
                continue
            if isinstance(c.func, ast.Attribute) and astx.u(c.func.value) in ("np", "numpy", "math"):
                pass
            n += 1
            it = c.args[0] if c.args else (c.func.value if isinstance(c.func, ast.Attribute) else None)
            txt = _iterable_text(f, it) if it is not None else ""
            kw = {k.arg: k.value for k in c.keywords}
            key = kw.get("key")
            verdict, why = _classify_ordering(prog, f, c, it, txt, key, pm)
            if verdict:
                ctx.ok(f, c, f"{f.short}: {nm}(...) does not order candidates by name or iteration order", why)
            else:
                # (the classification reads the construction of the sorted collection off the statements around it)
                ctx.violated_shape(f, c, f"{f.short}: ordering primitive over candidates: {astx.u(c)[:60]}",
                                   f"{why}: ties between candidates would be decided by their names or by set/dict iteration order")
    # order comparisons on candidate variables
    for f in prog.iter_functions(("src/votekit/elections/", "src/votekit/utils.py", "src/votekit/models.py")):
        if isinstance(f.node, ast.Lambda):
            continue
        cand_vars = _candidate_vars(f)
        for node in astx.walk_own(f.node):
            if isinstance(node, ast.Compare) and any(isinstance(o, (ast.Lt, ast.LtE, ast.Gt, ast.GtE)) for o in node.ops):
                ops = [node.left] + node.comparators
                bad = [o for o in ops if isinstance(o, ast.Name) and o.id in cand_vars]
                if bad:
                    ctx.violated(f, node, f"{f.short}: order comparison on candidate name `{bad[0].id}`", f"`{astx.u(node)}` compares candidate names")
        for node in astx.walk_all(f.node):
            if isinstance(node, ast.Call) and astx.u(node.func) in ("hash", "id"):
                ctx.violated(f, node, f"{f.short}: {astx.u(node.func)}() in rule code", "hash/id values depend on the interpreter run")
    ctx.note(f"R1: {n} ordering-primitive call sites examined")
    # positive fixture
    fx = ast.parse("def g(scores):\n    return max(scores, key=scores.get)\n").body[0]
    hit = [c for c in astx.calls_in(fx) if astx.call_name(c) in ORDERING]
    if len(hit) != 1:
        ctx.undecided(None, None, "ordering matcher fixture", "matcher failed on the embedded positive example")


def _candidate_vars(f):
    """Loop / comprehension variables that range over candidates."""
    out = set()
    for n in astx.walk_own(f.node):
        if isinstance(n, (ast.For, ast.comprehension)):
            it = astx.u(n.iter)
            if re.search(r"\.candidates\b|candidates_cast", it) and isinstance(n.target, ast.Name):
                out.add(n.target.id)
            if re.fullmatch(r"\w+", it) and isinstance(n.target, ast.Name):
                # for c in s   where s ranges over ranking positions / groups
                for m in astx.walk_own(f.node):
                    if isinstance(m, (ast.For, ast.comprehension)) and astx.is_name(m.target, it) and re.search(r"ranking|remaining|elected|eliminated", astx.u(m.iter)):
                        out.add(n.target.id)
    return out


def _classify_ordering(prog, f, c, it, txt, key, pm):
    nm = astx.call_name(c)
    if it is None:
        return False, "no iterable"
    # (a) the equal-score grouping idiom: sorted(<score -> group>.items(), key=lambda x: x[0])
    from vk import accum
    if nm == "sorted" and key is not None and accum.is_first_component_key(key) and astx.u(it).endswith(".items()"):
        grp = astx.u(it)[: -len(".items()")]
        gs = [g for g in accum.groupings(f.node) if g.dict_name == grp]
        if len(gs) == 1 and astx.u(gs[0].loop.iter).endswith(".items()") and isinstance(gs[0].loop.target, ast.Tuple) and len(gs[0].loop.target.elts) == 2 \
                and gs[0].key == astx.u(gs[0].loop.target.elts[1]) and gs[0].member == astx.u(gs[0].loop.target.elts[0]):
            return True, "grouping idiom: candidates grouped under their score (the mapping's value), groups sorted by the score alone"
        return False, "sorted by first component of items whose keys are not provably scores"
    # (a') the same idiom over the keys alone: sorted(<score -> group>) orders the scores themselves
    if nm == "sorted" and key is None and isinstance(c.args[0] if c.args else None, ast.Name):
        gs = [g for g in accum.groupings(f.node) if g.dict_name == c.args[0].id]
        if len(gs) == 1 and astx.u(gs[0].loop.iter).endswith(".items()") and isinstance(gs[0].loop.target, ast.Tuple) and len(gs[0].loop.target.elts) == 2 \
                and gs[0].key == astx.u(gs[0].loop.target.elts[1]) and gs[0].member == astx.u(gs[0].loop.target.elts[0]):
            return True, "grouping idiom: candidates grouped under their score (the mapping's value), the scores (keys) sorted"
    # (b) key is a size: len(x)
    if isinstance(key, ast.Lambda) and re.fullmatch(rf"len\({key.args.args[0].arg}\)", astx.u(key.body)):
        if nm == "sorted":
            return True, "sorted by len only (stable; ties keep the input order of a list that is not an outcome)"
    # (c) iterable of integers (dict keyed by len(...), range, counts)
    if isinstance(it, (ast.Name, ast.Attribute)) or astx.u(it).endswith(".keys()"):
        d = astx.u(it)[: -len(".keys()")] if astx.u(it).endswith(".keys()") else astx.u(it)
        ints = _dict_keys_are_sizes(f, d)
        if ints:
            return True, f"keys of `{d}` are set sizes (ints)"
    # (d) max(zip(values, keys)) used only where the two values differ
    if nm in ("max", "min") and isinstance(it, ast.Call) and astx.u(it.func) == "zip" and len(it.args) == 2:
        st = astx.stmt_of(c, pm)
        if isinstance(st, ast.Assign) and isinstance(st.targets[0], ast.Name):
            v = st.targets[0].id
            uses = [n for n in astx.walk_own(f.node) if isinstance(n, ast.Name) and n.id == v and isinstance(n.ctx, ast.Load)]
            N = Normalizer(f.node, inline=False)
            ok = bool(uses)
            for u_ in uses:
                lits = literals(N.conj(astx.path_condition(f.node, u_, pm)))
                ok = ok and any(l.startswith("not eq(") and "head2head_count" in l for l in lits)
            if ok:
                return True, "pair maximum is consumed only where the two counts differ, so the keys are never compared"
        return False, "max/min over (value, candidate) pairs compares candidates when the values tie"
    # (e) nothing candidate-like in the iterable
    root = effects_root(it)
    ann = astx.u(f.param_annotation(root)) if root in f.params and f.param_annotation(root) is not None else ""
    if "str" in ann:
        return False, f"{nm} over parameter `{root}: {ann}` (a collection of candidate names)" + (f" with key `{astx.u(key)[:40]}`" if key is not None else "")
    if not CAND_HINT.search(txt) and key is None:
        return True, f"iterable `{txt[:50]}` holds no candidates"
    if key is not None and not CAND_HINT.search(txt):
        return True, f"iterable `{txt[:50]}` holds no candidates"
    return False, f"{nm} over `{txt[:70]}`" + (f" with key `{astx.u(key)[:40]}`" if key is not None else "")


def effects_root(e):
    while isinstance(e, (ast.Attribute, ast.Subscript)):
        e = e.value
    if isinstance(e, ast.Call) and e.args:
        return effects_root(e.args[0])
    return e.id if isinstance(e, ast.Name) else None


def _dict_keys_are_sizes(f, d):
    stores = [n for n in astx.walk_own(f.node) if isinstance(n, ast.Assign) and isinstance(n.targets[0], ast.Subscript) and astx.u(n.targets[0].value) == d]
    if not stores:
        return False
    for s in stores:
        k = s.targets[0].slice
        if not isinstance(k, ast.Name):
            return False
        # k iterates the values of a dict that stores len(...)
        okk = False
        for n in astx.walk_own(f.node):
            if isinstance(n, ast.For) and isinstance(n.target, ast.Tuple) and k.id in astx.assigned_names(n.target) and astx.u(n.iter).endswith(".items()"):
                src = astx.u(n.iter)[: -len(".items()")]
                vals = [m for m in astx.walk_own(f.node) if isinstance(m, ast.Assign) and isinstance(m.targets[0], ast.Subscript) and astx.u(m.targets[0].value) == src]
                okk = bool(vals) and all(isinstance(m.value, ast.Call) and astx.u(m.value.func) == "len" for m in vals) and astx.u(n.target.elts[1]) == k.id
        if not okk:
            return False
    return True


# --------------------------------------------------------------------------------------------- R2
def _picks(f):
    """Positional picks from a collection: list(S)[0] / list(S)[-1], next(iter(S)), S.pop(), X[0] with X = list(S)."""
    out = []
    for n in astx.walk_own(f.node):
        if isinstance(n, ast.Subscript) and not isinstance(n.slice, ast.Slice) and astx.is_const(n.slice) and isinstance(n.value, ast.Call) \
                and astx.u(n.value.func) in ("list", "tuple") and len(n.value.args) == 1:
            out.append((n, n.value.args[0], "list(S)[k]"))
        elif isinstance(n, ast.Subscript) and astx.is_const(n.slice) and isinstance(n.value, ast.Name):
            dv = astx.unique_def(f.node, n.value.id)
            if isinstance(dv, ast.Call) and astx.u(dv.func) in ("list", "tuple") and len(dv.args) == 1 and _maybe_set(dv.args[0]):
                out.append((n, dv.args[0], "X = list(S); X[k]"))
        elif isinstance(n, ast.Call) and astx.u(n.func) == "next" and n.args and isinstance(n.args[0], ast.Call) and astx.u(n.args[0].func) == "iter":
            out.append((n, n.args[0].args[0], "next(iter(S))"))
        elif isinstance(n, ast.Call) and isinstance(n.func, ast.Attribute) and n.func.attr == "pop" and not n.args and _maybe_set(n.func.value) \
                and not _is_list_local(f, n.func.value):
            out.append((n, n.func.value, "S.pop()"))
    return out


def _is_list_local(f, e):
    """A local every binding of which is a list (display, list(...), list comprehension): pop() takes its LAST element."""
    if not isinstance(e, ast.Name):
        return False
    ds = astx.defs_of(f.node, e.id)
    plain = [(st, dv) for st, dv in ds if not isinstance(st, ast.AugAssign)]  # `x += ...` keeps the type of x
    return bool(plain) and all(isinstance(dv, (ast.List, ast.ListComp)) or (isinstance(dv, ast.Call) and astx.u(dv.func) == "list") for _, dv in plain)


def _maybe_set(e):
    t = astx.u(e)
    return bool(re.search(r"ranking\[|remaining|elected|eliminated|tiers|cands|set\(|\bs\b", t))


def _bound_by_comprehension(x, v, pm):
    n = x
    while n in pm:
        n = pm[n]
        if isinstance(n, (ast.ListComp, ast.SetComp, ast.GeneratorExp, ast.DictComp)):
            if any(v in astx.assigned_names(g.target) for g in n.generators):
                return True
    return False


def _singleton_proof(prog, f, node, S, pm, depth=0):
    N = Normalizer(f.node, inline=False, int_atoms=lambda a: True)
    sk = N.key(S)
    lits = literals(N.conj(astx.path_condition(f.node, node, pm)))
    if f"not ge(len({sk}), 2)" in lits or f"eq(len({sk}), 1)" in lits:
        return f"path condition bounds len({sk}) <= 1"
    # X[0] after `if len(X) > 1: raise`
    par = pm.get(node)
    if isinstance(node, ast.Subscript) and isinstance(node.value, ast.Name) and f"not ge(len({node.value.id}), 2)" in lits:
        return f"preceded by a raise when len({node.value.id}) > 1"
    # element of a tiebreak_set result / of a 1-tuple of a bounded set (F2)
    if isinstance(S, ast.Subscript) and isinstance(S.value, ast.Name):
        T = S.value.id
        defs = astx.defs_of(f.node, T)
        ok = bool(defs)
        for st, dv in defs:
            if isinstance(dv, ast.Call) and astx.call_name(dv) == "tiebreak_set":
                continue
            if isinstance(dv, ast.Tuple) and len(dv.elts) == 1:
                inner = N.key(dv.elts[0])
                l2 = literals(N.conj(astx.path_condition(f.node, st, pm)))
                if f"not ge(len({inner}), 2)" in l2:
                    continue
            # component 0 of an m=1 selection (F3)
            src = astx.tuple_unpack_source(f.node, T)
            if src is not None and src[1] == 0 and isinstance(src[0], ast.Call) and astx.call_name(src[0]) == "elect_cands_from_set_ranking":
                b = astx.bind_args(src[0], prog.find_func("elect_cands_from_set_ranking").params)
                if astx.is_const(b.get("m"), 1):
                    continue
            ok = False
        if not ok:
            # the same, case by case: a default 1-tuple that only survives when the test for a larger set failed
            # (T = (S,); if len(S) > 1: T = tiebreak_set(S, ...))
            cases = astx.value_cases(f.node, T, astx.stmt_of(node, pm), pm)
            ok = bool(cases)
            for conds, v in cases or []:
                if isinstance(v, ast.Call) and astx.call_name(v) == "tiebreak_set":
                    continue
                if isinstance(v, ast.Tuple) and len(v.elts) == 1:
                    cl = literals(N.conj(list(conds)))
                    inner = N.key(v.elts[0])
                    if f"not ge(len({inner}), 2)" in cl or f"eq(len({inner}), 1)" in cl:
                        continue
                ok = False
        if ok:
            return f"{T} holds singletons (tiebreak_set result / bounded 1-tuple / m=1 selection)"
    # guarded by a predicate summarised as len(S) == 1
    if "truthy(self.has_condorcet_winner())" in lits and "dominating_tiers()[0]" in astx.u(S):
        return "guarded by has_condorcet_winner(), i.e. len(tier 0) == 1"
    # a local that holds one of several sets, each a singleton under the condition it is assigned under
    # (x = S; if len(S) > 1: x = tiebreak_set(S, ...)[-1])
    if isinstance(S, ast.Name) and depth < 2:
        cases = astx.value_cases(f.node, S.id, astx.stmt_of(node, pm), pm)
        if cases and len(cases) > 1:
            whys = []
            for conds, v in cases:
                cl = literals(N.conj(list(conds)))
                vk = N.key(v)
                if f"not ge(len({vk}), 2)" in cl or f"eq(len({vk}), 1)" in cl:
                    whys.append(f"{vk}: bounded by its case")
                    continue
                # the same test written on the local itself while it still held this value (x = S; if len(x) > 1: x = ...)
                if (f"not ge(len({S.id}), 2)" in cl or f"eq(len({S.id}), 1)" in cl) and S.id not in astx.free_names(v):
                    whys.append(f"{vk}: bounded by the test on `{S.id}` in its case")
                    continue
                if isinstance(v, ast.Subscript) and isinstance(v.value, ast.Name):
                    dfs = astx.defs_of(f.node, v.value.id)
                    if dfs and all(isinstance(dv, ast.Call) and astx.call_name(dv) == "tiebreak_set" for _, dv in dfs):
                        whys.append(f"{vk}: element of a tiebreak_set result")
                        continue
                return None
            return "every case holds a singleton (" + "; ".join(whys) + ")"
    return None


def _default_pick_proof(f, node, S, pm):
    """x = list(S)[0] as a default that is overwritten whenever S has more than one member:  x = list(S)[0]; if len(S) > 1:
    x = ...  The value of the pick only reaches the reads of x in the cases where nothing overwrote it; if S is bounded by
    one member in each of those cases, the pick that matters is from a singleton."""
    st = astx.stmt_of(node, pm)
    if not (isinstance(st, ast.Assign) and len(st.targets) == 1 and isinstance(st.targets[0], ast.Name) and st.value is node):
        return None
    x = st.targets[0].id
    blk = pm.get(st)
    body = next((getattr(blk, fld) for fld in ("body", "orelse") if isinstance(getattr(blk, fld, None), list) and any(b is st for b in getattr(blk, fld))), None)
    if body is None:
        return None
    after = body[next(i for i, b in enumerate(body) if b is st) + 1:]
    # first statement of the block (after the default) that reads x outside an assignment to x
    use = None
    for b in after:
        reads = [n for n in ast.walk(b) if isinstance(n, ast.Name) and n.id == x and isinstance(n.ctx, ast.Load)]
        if reads:
            use = b
            break
    if use is None or any(isinstance(n, ast.Name) and n.id == x and isinstance(n.ctx, ast.Store) for n in ast.walk(use)):
        return None   # no reader in the block, or the first reader also re-binds x: not the default-then-override arrangement
    cases = astx.value_cases(f.node, x, use, pm)
    if not cases:
        return None
    N = Normalizer(f.node, inline=False, int_atoms=lambda a: True)
    sk = N.key(S)
    mine = [(c, v) for c, v in cases if v is node]
    if not mine:
        return None
    for conds, _ in mine:
        cl = literals(N.conj(list(conds)))
        if not (f"not ge(len({sk}), 2)" in cl or f"eq(len({sk}), 1)" in cl):
            return None
    return f"default that survives only where len({sk}) <= 1 (overwritten in every other case)"


def r2_positional_picks(ctx):
    prog = ctx.prog
    n = 0
    for f in prog.iter_functions(SCOPE):
        if isinstance(f.node, ast.Lambda):
            continue
        pm = astx.parents(f.node)
        for node, S, form in _picks(f):
            n += 1
            proof = _singleton_proof(prog, f, node, S, pm)
            if proof is None and isinstance(S, astx.LCOMP) and len(S.generators) == 1 and not S.generators[0].ifs:
                # the k-th element of an element-wise map of an ORDERED source is the map of its k-th element
                src = _origin(prog, f, S.generators[0].iter, at=node)
                if src is not None:
                    proof = f"position in a sequence whose order comes from: {src}"
            if proof is None:
                # used only as key into the scores that define the equal-score class
                st = astx.stmt_of(node, pm)
                if isinstance(st, ast.Assign) and isinstance(st.targets[0], ast.Name):
                    v = st.targets[0].id
                    uses = [x for x in astx.walk_own(f.node) if isinstance(x, ast.Name) and x.id == v and isinstance(x.ctx, ast.Load)
                            and not _bound_by_comprehension(x, v, pm)]
                    lp = astx.enclosing(node, pm, ast.For)
                    if uses and all(isinstance(pm.get(x), ast.Subscript) and astx.u(pm[x].value).endswith(".scores") for x in uses) and lp is not None \
                            and astx.u(lp.target) == astx.u(S):
                        it = astx.unique_def(f.node, astx.u(lp.iter)) if isinstance(lp.iter, ast.Name) else lp.iter
                        if it is not None and astx.u(it).endswith(".remaining"):
                            proof = "picked member is used only to look up the score shared by its equal-score group"
                # ... the same with the pick written where it is used:  <state>.scores[list(s)[0]]
                par = pm.get(node)
                lp = astx.enclosing(node, pm, ast.For)
                if proof is None and isinstance(par, ast.Subscript) and par.slice is node and astx.u(par.value).endswith(".scores") and lp is not None and astx.u(lp.target) == astx.u(S):
                    it = astx.unique_def(f.node, astx.u(lp.iter)) if isinstance(lp.iter, ast.Name) else lp.iter
                    if it is not None and astx.u(it).endswith(".remaining"):
                        proof = "picked member is used only to look up the score shared by its equal-score group"
            if proof is None:
                proof = _default_pick_proof(f, node, S, pm)
            if proof:
                ctx.ok(f, node, f"{f.short}: pick `{astx.u(node)[:40]}` is order-independent", proof)
            else:
                ctx.violated(f, node, f"{f.short}: positional pick from an unordered collection: {astx.u(node)[:50]}",
                             f"{form} on `{astx.u(S)[:50]}` with no singleton proof: the chosen candidate depends on set iteration order (hash seed)")
        # first-of-loop picks:  for x in S: ...; break  (unconditional break)
        for lp in (x for x in astx.walk_own(f.node) if isinstance(x, ast.For)):
            if lp.body and isinstance(lp.body[-1], ast.Break) and _maybe_set(lp.iter) and not astx.u(lp.iter).endswith(".ranking"):
                n += 1
                ctx.violated(f, lp, f"{f.short}: first-of-loop pick from `{astx.u(lp.iter)[:40]}`", "loop with unconditional break picks an arbitrary member")
    ctx.note(f"R2: {n} positional picks examined")


# --------------------------------------------------------------------------------------------- R4
def _helper_component(prog, f, call, idx, depth):
    if isinstance(call, ast.Call) and astx.call_name(call) == "elect_cands_from_set_ranking":
        return "selector component"
    if isinstance(call, ast.Call) and isinstance(call.func, ast.Attribute) and astx.is_name(call.func.value, "self") and f.cls is not None:
        h = f.cls.lookup(call.func.attr)
        if h is not None:
            rets = [r for r in astx.walk_own(h.node) if isinstance(r, ast.Return) and isinstance(r.value, ast.Tuple)]
            res = {_origin(prog, h, r.value.elts[idx], depth + 1, at=r) for r in rets if idx < len(r.value.elts)}
            if res and None not in res:
                return "; ".join(sorted(res))
    return None


def _origin(prog, f, e, depth=0, at=None):
    """Classify where the *tuple order* of a recorded group comes from (`at`: node where e is used)."""
    if depth > 9:
        return None
    if isinstance(e, ast.Name):
        defs = astx.reaching_defs(f.node, e.id, at) if at is not None else astx.defs_of(f.node, e.id)
        if not defs:
            return None
        res = set()
        for st, dv in defs:
            if dv is None:
                # tuple-unpacked component of a helper / selector call
                if isinstance(st, ast.Assign) and isinstance(st.targets[0], (ast.Tuple, ast.List)):
                    names = [astx.u(x) for x in st.targets[0].elts]
                    if e.id in names:
                        o = _helper_component(prog, f, st.value, names.index(e.id), depth)
                        if o is not None:
                            res.add(o)
                            continue
                return None
            if isinstance(dv, ast.List) and not dv.elts:
                apps = [c for c in astx.calls_in(f.node, "append") if astx.is_name(c.func.value, e.id)]
                pm = astx.parents(f.node)
                for a in apps:
                    lp = astx.enclosing(a, pm, ast.For)
                    if lp is None or not astx.is_name(a.args[0], getattr(lp.target, "id", None)):
                        return None
                    o = _origin(prog, f, lp.iter, depth + 1, at=lp)
                    if o is None:
                        return None
                    res.add("prefix of " + o)
                aug = [n for n in astx.walk_own(f.node) if isinstance(n, ast.AugAssign) and astx.is_name(n.target, e.id)]
                for a in aug:
                    o = _origin(prog, f, a.value, depth + 1, at=a)
                    if o is None:
                        return None
                    res.add(o)
                continue
            o = _origin(prog, f, dv, depth + 1, at=st)
            if o is None:
                return None
            res.add(o)
        return "; ".join(sorted(res))
    if isinstance(e, ast.Call):
        fn = astx.call_name(e)
        if fn == "score_dict_to_ranking":
            return "score ranking"
        if fn == "tiebreak_set":
            return "tiebreak resolution"
        if fn in ("tuple", "list") and len(e.args) == 1:
            return _origin(prog, f, e.args[0], depth + 1, at)
        if fn in ("get_elected", "get_remaining") and isinstance(e.func, ast.Attribute) and not astx.is_name(e.func.value, "self"):
            return "sub-election's recorded order"
        if fn == "dominating_tiers":
            return "tiers ordered by reach size"
        # order-preserving selections of an ordered source: a prefix / a sub-sequence keeps the source's order
        if fn in ("takewhile", "dropwhile", "filter", "filterfalse") and len(e.args) == 2:
            o = _origin(prog, f, e.args[1], depth + 1, at)
            return None if o is None else ("prefix of " if fn == "takewhile" else "sub-sequence of ") + o
        if fn == "islice" and e.args:
            o = _origin(prog, f, e.args[0], depth + 1, at)
            return None if o is None else "sub-sequence of " + o
        return None
    if isinstance(e, ast.Attribute) and e.attr in ("remaining", "elected", "eliminated"):
        return "previous state's recorded order"
    if isinstance(e, ast.Tuple):
        if len(e.elts) == 1:
            return "single group"
        return None
    if isinstance(e, ast.Subscript):
        return _origin(prog, f, e.value, depth + 1, at)
    if isinstance(e, (ast.ListComp, ast.GeneratorExp)) and len(e.generators) == 1:
        g = e.generators[0]
        if isinstance(e.elt, ast.Call) and astx.u(e.elt.func) == "frozenset" and astx.is_name(e.elt.args[0], getattr(g.target, "id", None)):
            return _origin(prog, f, g.iter, depth + 1, at)
        # [x for x in XS if ...]: a sub-sequence of XS in its order
        if astx.is_name(e.elt, getattr(g.target, "id", None)):
            o = _origin(prog, f, g.iter, depth + 1, at)
            return None if o is None else ("sub-sequence of " + o if g.ifs else o)
        return None
    return None


@shape_rule
def r4_recorded_order(ctx):
    prog = ctx.prog
    n = 0
    for f in prog.iter_functions(("src/votekit/elections/", "src/votekit/models.py")):
        if isinstance(f.node, ast.Lambda):
            continue
        for sc in elect.state_ctor_calls(prog, f):
            kw = elect.state_kwargs(prog, sc)
            for fld in ("elected", "eliminated", "remaining"):
                if fld not in kw:
                    continue
                n += 1
                o = _origin(prog, f, kw[fld], at=sc)
                if o is not None:
                    ctx.ok(f, sc, f"{f.short}: order of `{fld}` comes from: {o}", astx.u(kw[fld])[:60])
                else:
                    ctx.violated(f, sc, f"{f.short}: order of recorded `{fld}` has an unclassified origin",
                                 f"`{fld}={astx.u(kw[fld])[:60]}` is not a score ranking, a selector component, a tier list, a previous state's order or a single group: "
                                 "set/dict iteration order could become outcome order")
    if n < 20:
        ctx.vanished("recorded group sites" + ": " + f"only {n} elected/eliminated/remaining arguments found")
    # tiers: the list is built from a dict keyed by size and sorted by that key (C06.R3); groups are sets
    f = prog.find_func("tiebroken_ranking")
    ctx.consult(f)


def r3_no_rng(ctx):
    sub = type(ctx)(ctx.prog, ctx.prop, ctx.tier)
    c10.r1_rng_census(sub)
    for o in sub.obs:
        o.rule = "C08.R3"
        ctx.obs.append(o)


def _c02_wiring(sub):
    from rules import c02
    return c02.r8_transfer_wiring(sub)


def _c03_transfer_weights(sub):
    from rules import c03
    c03.r5_weight_provenance(sub)
    c03.r7_surplus_factor(sub)


def r5_exact_accumulation(ctx):
    """Reordering, splitting and merging ballots leave tallies unchanged only if weights and
    accumulators are exact rationals (Fraction addition is associative, float addition is not; a
    rounded weight is not additive). Re-states C04.R1/R2 (scoring accumulators) and C11.R2 (weights)."""
    from rules import c04, c11
    n = 0
    from rules import c12
    for fn, keep in ((c04.r1_exact, lambda o: True), (c04.r2_allocation, lambda o: True), (c11.r2_validators, lambda o: "weight" in o.construct),
                     # equal scores are grouped exactly (a float or truthiness key splits / merges groups by value or by name order)
                     (c04.r5_grouping_direction, lambda o: o.function.endswith("score_dict_to_ranking")),
                     # candidates are removed by identity, never by substring of their name (renaming would change outcomes)
                     (c12.r1_filter_polarity, lambda o: "wrapped" in o.construct),
                     # every elected candidate's pile is transferred once, from the round's own profile, and everybody else's carried
                     # over: otherwise co-elected candidates are processed in set order and the result depends on it
                     (_c02_wiring, lambda o: "transfer" in o.construct or "carried" in o.construct),
                     # the weight a ballot carries out of a surplus transfer is weight * (tally - threshold) / tally as an exact
                     # product: rounded per ballot it is no longer additive, and merging or splitting identical ballots moves tallies
                     (_c03_transfer_weights, lambda o: True)):
        sub = type(ctx)(ctx.prog, ctx.prop, ctx.tier)
        fn(sub)
        for o in sub.obs:
            if keep(o):
                o.rule = "C08.R5"
                ctx.obs.append(o)
                n += 1
    if n < 10:
        ctx.vanished(f"exact-accumulation obligations: only {n}")


def r6_pair_symmetry(ctx):
    """Neutrality of the pairwise rules: what is stored for an unordered pair {a, b} must not depend on which of the two
    `combinations(candidates, 2)` happens to list first (that order is the candidate tuple's, i.e. set iteration order).
    Decided by exchanging the two pair variables in the loop body and comparing the sets of guarded stores in normal form."""
    prog = ctx.prog
    n = 0
    for f in prog.iter_functions(("src/votekit/graphs/", "src/votekit/elections/", "src/votekit/utils.py")):
        if isinstance(f.node, ast.Lambda):
            continue
        loops = [x for x in astx.walk_own(f.node) if isinstance(x, ast.For)]
        for lp, a, b in pairsym.pair_loops(f.node):
            n += 1
            idx = loops.index(lp)
            try:
                s0 = pairsym.store_signature(f.node, idx, a, b, False)
                s1 = pairsym.store_signature(f.node, idx, a, b, True)
            except NotClosedForm as e:
                ctx.undecided(f, lp, f"{f.short}: pair loop stores are not in closed form", str(e))
                continue
            if not s0:
                ctx.ok(f, lp, f"{f.short}: pair loop over ({a}, {b}) stores nothing", "no subscript store in the loop")
            elif s0 == s1:
                ctx.ok(f, lp, f"{f.short}: stores of the pair loop are invariant under exchanging `{a}` and `{b}`", f"{len(s0)} guarded stores compared in normal form")
            else:
                d = sorted((s0 - s1) | (s1 - s0), key=str)[0]
                ctx.violated(f, lp, f"{f.short}: what is stored for a pair depends on which of `{a}`, `{b}` is listed first",
                             f"after exchanging `{a}` and `{b}` the store `{d[0]}[{d[1]}] = {d[2][:80]}` under {sorted((q, sorted(r)) for q, r in d[3])} {sorted(d[4])} has no counterpart; the order of a pair is the candidate tuple's (set iteration) order")
    if n < 1:
        ctx.vanished("pair loops: no loop over combinations(<candidates>, 2) found")


RULES = [
    ("C08.R1", r1_ordering_primitives, 3, "no ordering primitive over candidate names / candidates-by-score outside the grouping idiom; no hash()/id()"),
    ("C08.R2", r2_positional_picks, 8, "no positional pick from an unordered collection without a singleton proof"),
    ("C08.R3", r3_no_rng, 20, "no RNG reachable on deterministic paths (= C10.R1)"),
    ("C08.R5", r5_exact_accumulation, 10, "tallies are accumulated in exact rationals and weights are stored exactly (order / split / merge independence)"),
    ("C08.R6", r6_pair_symmetry, 1, "pairwise stores are invariant under exchanging the two members of a candidate pair"),
    ("C08.R4", r4_recorded_order, 20, "the tuple order of every recorded group has a classified, iteration-order-free origin"),
]

UT = "src/votekit/utils.py"
STV = "src/votekit/elections/election_types/ranking/stv.py"
PL = "src/votekit/elections/election_types/ranking/plurality.py"
DS = "src/votekit/elections/election_types/ranking/dominating_sets.py"
PG = "src/votekit/graphs/pairwise_comparison_graph.py"
_PAIR_SYMMETRIC = """        for cand_a, cand_b in cand_pairs:
            a_over_b = self.head2head_count(cand_a, cand_b)
            b_over_a = self.head2head_count(cand_b, cand_a)
            margin = a_over_b - b_over_a
            if margin > 0:
                pairwise_dict[(cand_a, cand_b)] = margin
            elif margin < 0:
                pairwise_dict[(cand_b, cand_a)] = -margin
            else:
                pairwise_dict[(cand_a, cand_b)] = Fraction(0)
                pairwise_dict[(cand_b, cand_a)] = Fraction(0)

"""
_PAIR_ONE_SIDED = _PAIR_SYMMETRIC.replace("self.head2head_count(cand_b, cand_a)", "self.profile.total_ballot_wt - a_over_b")
FAULTS = [
    ("reverse count derived from the total weight (seeded C08-r2-1)", [(PG, ("        for pair in cand_pairs:", "        return pairwise_dict"), _PAIR_ONE_SIDED)], "C08.R6"),
    ("ranking sorted by (score, names)", [(UT, "score_to_cand.items(), key=lambda x: x[0], reverse=sort_high_low", "score_to_cand.items(), reverse=sort_high_low")], "C08.R1"),
    ("stv eliminates min by name on tie", [(STV, "                eliminated_cand = list(lowest_fpv_cands)[0]", "                eliminated_cand = min(lowest_fpv_cands)")], "C08.R1"),
    ("stv tie picks arbitrary member", [(STV, "            if len(lowest_fpv_cands) > 1:\n                tiebroken_ranking = tiebreak_set(", "            if len(lowest_fpv_cands) > 2:\n                tiebroken_ranking = tiebreak_set(")], "C08.R2"),
    ("argmax by score", [(STV, "        elected_c = list(elected[0])[0]", "        elected_c = max(prev_state.scores, key=prev_state.scores.get)")], "C08.R1"),
    ("tiebreak sorted alphabetically", [(UT, "            frozenset({c}) for c in random.sample(list(r_set), k=len(r_set))", "            frozenset({c}) for c in sorted(r_set)")], "C08.R1"),
    ("pick from top tier without guard", [(PG, "        if self.has_condorcet_winner():\n            return list(self.dominating_tiers()[0])[0]", "        if len(self.dominating_tiers()) >= 1:\n            return list(self.dominating_tiers()[0])[0]")], "C08.R2"),
    ("plurality records list(set) order", [(PL, "                elected=elected,", "                elected=tuple(frozenset({c}) for c in set(c for s in elected for c in s)),")], "C08.R4"),
    ("dominating sets remaining from a set", [(DS, "remaining = tuple([frozenset(s) for s in dominating_tiers[1:]])", "remaining = tuple(set(frozenset(s) for s in dominating_tiers[1:]))")], "C08.R4"),
    ("float accumulation under to_float", [(UT, "                    scores[c] += Fraction(allocation) * ballot.weight", "                    scores[c] += float(allocation * ballot.weight) if to_float else Fraction(allocation) * ballot.weight")], "C08.R5"),
    ("every weight rounded", [("src/votekit/ballot.py", "        if not isinstance(weight, Fraction):\n            weight = Fraction(weight).limit_denominator()\n        return weight", "        return Fraction(weight).limit_denominator()")], "C08.R5"),
    ("zero-vote ties eliminated in hash order", [(STV, "            if len(lowest_fpv_cands) > 1:\n                tiebroken_ranking = tiebreak_set(", "            if len(lowest_fpv_cands) > 1 and prev_state.scores[list(lowest_fpv_cands)[0]] > 0:\n                tiebroken_ranking = tiebreak_set(")], "C08.R2"),
    ("hash-based tiebreak", [(UT, "            frozenset({c}) for c in random.sample(list(r_set), k=len(r_set))", "            frozenset({c}) for c in sorted(r_set, key=lambda c: hash(c))")], "C08.R1"),
    ("next(iter()) pick", [(STV, "            c = list(s)[0]  # all cands in set have same score\n            if prev_state.scores[c] >= self.threshold:\n                elected.append(s)", "            c = next(iter(s))\n            if prev_state.scores[c] >= self.threshold:\n                elected.append(frozenset({c}))")], "C08.R"),
]
BENIGN = [
    ("pair loop rewritten with explicit margin branches", [(PG, ("        for pair in cand_pairs:", "        return pairwise_dict"), _PAIR_SYMMETRIC)]),
    ("pick via next(iter) as score key", [(STV, "            c = list(s)[0]  # all cands in set have same score\n", "            c = next(iter(s))  # all cands in set have same score\n")]),
    ("sorted over tier sizes with explicit key", [(PG, "tier_list = [tier_dict[k] for k in sorted(tier_dict.keys(), reverse=True)]", "tier_list = [tier_dict[k] for k in sorted(tier_dict.keys())[::-1]]")]),
]
