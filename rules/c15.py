"""C15 — closed-form model probabilities: formula rules (DESIGN §5/C15)."""
from __future__ import annotations

import ast
import re

from vk import astx
from vk.report import shape_rule
from vk.algebra import Normalizer, bool_key, literals, spec_rat, NotClosedForm
from vk.loader import AnalysisError

EXPLANATION = (
    "Algebraic normal-form rules over pref_interval.py and the two Bradley-Terry tables. Decides: "
    "_normalize divides every support by the sum of the supports; _remove_zero_support_cands "
    "partitions by == 0 / > 0 and runs before normalisation; combine_preference_intervals multiplies "
    "every support of interval i by proportion i (zip of the two argument lists) and unions the zero "
    "sets; name-BT: _make_pow is the product of val_i ** (m - i - 1) over positions (0-based), the "
    "table ranges over every permutation of the candidates, looks supports up in permutation order "
    "and divides by the total; slate-BT: prob_of_type = c^success * (1-c)^(total - success) with "
    "success counting (own, later other) pairs and total the product of the slate sizes, the table "
    "ranges over the set of distinct permutations and divides by the total. Does NOT decide numerical "
    "agreement on all intervals (floating point)."
)
ASSUMPTIONS = ["itertools.permutations enumerates each arrangement once (trusted)",
               "x/(x+y) products over ordered pairs are proportional to prod val_i^(m-i-1) (Bradley-Terry identity used by the library; stated, not re-derived)"]
TRUSTED = ["itertools.permutations", "numpy.prod"]


def r1_interval(ctx):
    prog = ctx.prog
    f = prog.find_func("PreferenceInterval._normalize")
    summ = [(st, dv) for st, dv in astx.defs_of(f.node, "summ") if dv is not None]
    ctx.check(len(summ) == 1 and astx.u(summ[0][1]) == "sum(self.interval.values())", f, summ[0][0] if summ else f.node, "normaliser = sum of the supports", "", "normaliser is not sum(self.interval.values())")
    comps = [n for n in astx.walk_own(f.node) if isinstance(n, ast.DictComp)]
    good = False
    d = ""
    if len(comps) == 1:
        c = comps[0]
        g = c.generators[0]
        k, v = [astx.u(x) for x in g.target.elts]
        N = Normalizer(f.node, inline=False)
        d = f"{{{astx.u(c.key)}: {astx.u(c.value)} for {k}, {v} in {astx.u(g.iter)}}}"
        try:
            good = astx.u(c.key) == k and N.rat(c.value).equals(spec_rat(f"{v} / summ")) and astx.u(g.iter) == "self.interval.items()" and not g.ifs
        except NotClosedForm:
            good = False
    ctx.check(good, f, comps[0] if comps else f.node, "every support is divided by the sum", d, f"normalisation is `{d}`")
    rs = astx.raises_in(f.node)
    ctx.check(len(rs) == 1 and literals(Normalizer(f.node, inline=False).conj(astx.path_condition(f.node, rs[0], astx.parents(f.node)))) == {"eq(summ, 0)"}, f, rs[0] if rs else f.node,
              "an all-zero interval is rejected instead of dividing by zero", "", "zero-sum guard changed")
    f = prog.find_func("PreferenceInterval._remove_zero_support_cands")
    defs = {}
    for n in astx.walk_own(f.node):
        if isinstance(n, ast.Assign) and isinstance(n.targets[0], ast.Attribute):
            defs[astx.u(n.targets[0])] = n.value
    z = defs.get("self.zero_cands")
    iv = defs.get("self.interval")
    nz = defs.get("self.non_zero_cands")

    def filt(e):
        comp = None
        for x in ast.walk(e):
            if isinstance(x, (ast.ListComp, ast.DictComp, ast.GeneratorExp, ast.SetComp)):
                comp = x
        if comp is None:
            # a temporary holding the comprehension (also what the loader makes of a dictionary filled by a loop)
            for x in ast.walk(e):
                if isinstance(x, ast.Name):
                    dv = astx.unique_def(f.node, x.id)
                    if isinstance(dv, (ast.ListComp, ast.DictComp, ast.GeneratorExp, ast.SetComp)):
                        comp = dv
        if comp is None:
            # a fresh dictionary filled by a loop:  d = {}; for k, v in XS: if <filter>: d[k] = v
            from vk import listform
            for x in ast.walk(e):
                if isinstance(x, ast.Name):
                    db = listform.dict_build_of(f.node, x)
                    if db is not None and len(db.loops) == 1:
                        pmf = astx.parents(f.node)
                        inner = [c for c in astx.path_condition(f.node, db.node, pmf, carried=False) if any(y is c[0] for lp in astx.walk_own(f.node) if isinstance(lp, ast.For) for y in ast.walk(lp))]
                        ks = sorted(literals(Normalizer(None, inline=False).conj(inner))) if inner else []
                        return ks, astx.u(db.loops[0][1])
            return None
        return [bool_key(Normalizer(None, inline=False).guard(t)) for t in comp.generators[0].ifs], astx.u(comp.generators[0].iter)
    fz, fi = (filt(z) if z is not None else None), (filt(iv) if iv is not None else None)
    good = fz is not None and fi is not None and fz[1] == fi[1] == "self.interval.items()" and re.fullmatch(r"\['eq\((\w+), 0\)'\]", str(fz[0])) is not None \
        and re.fullmatch(r"\['not le\((\w+), 0\)'\]", str(fi[0])) is not None and nz is not None \
        and (astx.u(nz) == "frozenset(self.interval)" or (iv is not None and isinstance(nz, ast.Call) and astx.u(nz.func) == "frozenset" and len(nz.args) == 1 and isinstance(nz.args[0], ast.Name)
                                                           and isinstance(iv, ast.Call) and len(iv.args) == 1 and astx.u(iv.args[0]) == nz.args[0].id))
    ctx.check(good, f, f.node, "zero supports are set aside (== 0), positive ones kept (> 0), non_zero_cands = kept keys", f"{fz} / {fi}",
              f"partition filters are {fz} / {fi}")
    # the interval owns its data: both steps rebuild the mapping on every path (no early exit that
    # leaves self.interval a live view of the caller's dictionary)
    from vk.paths import PathCounter

    def _stores_interval(n):
        if not (isinstance(n, ast.Assign) and astx.u(n.targets[0]) == "self.interval" and isinstance(n.value, ast.Call)):
            return False
        if any(isinstance(x, ast.DictComp) for x in ast.walk(n.value)):
            return True
        from vk import listform
        fn_ = next((g_.node for g_ in (prog.find_func("PreferenceInterval._normalize"), prog.find_func("PreferenceInterval._remove_zero_support_cands")) if any(y is n for y in ast.walk(g_.node))), None)
        return fn_ is not None and any(isinstance(x, ast.Name) and listform.dict_build_of(fn_, x) is not None for x in ast.walk(n.value))
    for meth, fact in (("_normalize", lambda a: None), ("_remove_zero_support_cands", lambda a: False if a in ("truthy(self.zero_cands)", "truthy(self.non_zero_cands)") else None)):
        g = prog.find_func(f"PreferenceInterval.{meth}")
        exits = [e for e in PathCounter(g.node, _stores_interval, fact).run() if e.kind in ("return", "fall-off")]
        bad = [e for e in exits if e.lo < 1]
        ctx.check(not bad and bool(exits), g, (bad[0].node if bad and bad[0].node is not None else g.node), f"{meth}: every normal path rebuilds self.interval from a fresh dictionary", "",
                  f"{meth} has a path (line {getattr(bad[0].node, 'lineno', '?') if bad else '?'}) that returns without rebuilding self.interval: the interval then aliases the caller's dict "
                  "(later mutation of that dict changes an already-built interval) or keeps unnormalised supports")
    init = prog.find_func("PreferenceInterval.__init__")
    order = [astx.call_name(c) for c in astx.calls_in(init.node) if astx.call_name(c) in ("_remove_zero_support_cands", "_normalize")]
    ctx.check(order == ["_remove_zero_support_cands", "_normalize"], init, init.node, "constructor: set zeros aside, then normalise", str(order), f"constructor order is {order}")
    cand = [n for n in astx.walk_own(init.node) if isinstance(n, ast.Assign) and astx.u(n.targets[0]) == "self.candidates"]
    ctx.check(len(cand) == 1 and astx.u(cand[0].value) == "frozenset(self.interval)" and cand[0].lineno < min(c.lineno for c in astx.calls_in(init.node, "_remove_zero_support_cands")),
              init, cand[0] if cand else init.node, "candidates = all given keys (zero and non-zero)", "", "candidate set is not taken from the full input interval")


def r2_combine(ctx):
    prog = ctx.prog
    f = prog.find_func("combine_preference_intervals")
    ivs, props = f.params[:2]
    # the combined supports: the `interval=` argument of the result's constructor, however that dictionary is built
    from vk import listform
    ctor = [c for c in astx.calls_in(f.node, "PreferenceInterval") if any(k.arg == "interval" for k in c.keywords)]
    db = listform.dict_build_of(f.node, next(k.value for k in ctor[0].keywords if k.arg == "interval")) if len(ctor) == 1 else None
    comps = [db.node] if db is not None else []
    good = False
    d = ""
    if db is not None and len(db.loops) == 2:
        (t0, it0), (t1, it1) = db.loops
        d = astx.u(db.node)[:140]
        m0 = re.fullmatch(r"\((\w+), (\w+)\)", t0)
        m1 = re.fullmatch(r"\((\w+), (\w+)\)", t1)
        if m0 and m1:
            pi, prop = m0.groups()
            key, val = m1.groups()
            try:
                okv = Normalizer(f.node, inline=False).rat(db.value).equals(spec_rat(f"{val} * {prop}"))
            except NotClosedForm:
                okv = False
            good = astx.u(it0) == f"zip({ivs}, {props})" and astx.u(it1) == f"{pi}.interval.items()" and astx.u(db.key) == key and okv and not db.conditional
    ctx.check(good, f, comps[0] if comps else f.node, "combined support = support * proportion of its own interval (zip of the two lists)", d, f"combination is `{d}`")
    upd = [n for n in astx.walk_own(f.node) if isinstance(n, ast.Assign) and astx.u(n.targets[0]).endswith(".zero_cands")]
    good = False
    if len(upd) == 1:
        tgt = astx.u(upd[0].targets[0])
        Nz = Normalizer(f.node, inline=True, no_inline=[tgt.split(".")[0]])
        v = upd[0].value
        k = f"{Nz.key(v.left)} | {Nz.key(v.right)}" if isinstance(v, ast.BinOp) and isinstance(v.op, ast.BitOr) else Nz.key(v)
        # the constructor's own zero set (supports that became 0 through a 0 proportion) united with every input's zero set
        others = f"frozenset.union(*[_b0.zero_cands for _b0 in {ivs}])"
        good = k in (f"{tgt}.union({others})", f"{others}.union({tgt})", f"{tgt} | {others}", f"{others} | {tgt}")
    ctx.check(good, f, upd[0] if upd else f.node, "zero-support candidates of every interval are carried along (union)", "", "zero-candidate union changed")
    rets = [n for n in astx.walk_own(f.node) if isinstance(n, ast.Return)]
    pi_def = astx.unique_def(f.node, astx.u(rets[0].value)) if rets and isinstance(rets[0].value, ast.Name) else None
    ctx.check(pi_def is not None and len(ctor) == 1 and pi_def is ctor[0] and db is not None, f, f.node,
              "the result is a PreferenceInterval of the combined supports (renormalised by its constructor)", "", "result construction changed")


def r3_name_bt(ctx):
    prog = ctx.prog
    f = prog.find_func("name_BradleyTerry._make_pow")
    pm = astx.parents(f.node)
    augs = [n for n in astx.walk_own(f.node) if isinstance(n, ast.AugAssign)]
    good = False
    d = ""
    if len(augs) == 1 and isinstance(augs[0].op, ast.Mult):
        a = augs[0]
        lp = astx.enclosing(a, pm, ast.For)
        zipped = lp is not None and astx.call_name(lp.iter) == "zip" and len(lp.iter.args) == 2 and astx.call_name(lp.iter.args[0]) == "range" \
            and len(lp.iter.args[0].args) == 1 and astx.u(lp.iter.args[1]) == f.params[1] and isinstance(lp.target, ast.Tuple)
        if zipped:
            # for i, val in zip(range(K), lst): positions 0..K-1; K must not exceed m - 1 + 1 (the skipped tail has exponent 0)
            Nz = Normalizer(f.node, inline=True, int_atoms=lambda x: True, rename=lambda e: "M" if astx.u(e) == f"len({f.params[1]})" else None)
            try:
                zipped = Nz.rat(lp.iter.args[0].args[0]).equals(spec_rat("M - 1")) or Nz.rat(lp.iter.args[0].args[0]).equals(spec_rat("M"))
            except NotClosedForm:
                zipped = False
        if lp is not None and ((astx.call_name(lp.iter) == "enumerate" and astx.u(lp.iter.args[0]) == f.params[1]) or zipped):
            i, val = [astx.u(x) for x in lp.target.elts]
            v = a.value
            d = astx.u(v)
            N = Normalizer(f.node, inline=True, int_atoms=lambda x: True, rename=lambda e: "M" if astx.u(e) == f"len({f.params[1]})" else None)
            if isinstance(v, ast.BinOp) and isinstance(v.op, ast.Pow) and astx.u(v.left) == val:
                try:
                    good = N.rat(v.right).equals(spec_rat(f"M - {i} - 1"))
                except NotClosedForm:
                    good = False
            lits = literals(N.conj(astx.path_condition(f.node, a, pm)))
            # the guard may only skip the last position (exponent 0)
            ok_guard = lits <= literals(Normalizer(None, inline=False, int_atoms=lambda x: True).conj([(ast.parse(f"{i} < M - 1", mode="eval").body, True)]))
            good = good and ok_guard
        # a counter running next to the values, in either order and direction:
        #   for val, e in zip(lst, range(m - 1, 0, -1)): ret *= val ** e      for e, val in zip(range(m - 1, 0, -1), lst): ...
        # position p pairs lst[p] with start + step * p; the exponent must be m - p - 1 there and the range must reach position m - 2
        if lp is not None and not good and astx.call_name(lp.iter) == "zip" and len(lp.iter.args) == 2 and isinstance(lp.target, ast.Tuple) and len(lp.target.elts) == 2 \
                and all(isinstance(x, ast.Name) for x in lp.target.elts):
            pairs = list(zip(lp.iter.args, [x.id for x in lp.target.elts]))
            vals = [(x, nm) for x, nm in pairs if astx.u(x) == f.params[1]]
            rngs = [(x, nm) for x, nm in pairs if isinstance(x, ast.Call) and astx.call_name(x) == "range" and 1 <= len(x.args) <= 3 and not x.keywords]
            if len(vals) == 1 and len(rngs) == 1:
                val, (rg, e) = vals[0][1], rngs[0]
                ra = [astx.u(x) for x in rg.args]
                start, stop, step = ("0", ra[0], "1") if len(ra) == 1 else (ra[0], ra[1], ra[2] if len(ra) == 3 else "1")
                Nz = Normalizer(f.node, inline=True, int_atoms=lambda x: True, rename=lambda x: "M" if astx.u(x) == f"len({f.params[1]})" else None)
                v = a.value
                d = astx.u(v)
                try:
                    st = Nz.rat(ast.parse(step, mode="eval").body)
                    if st.equals(spec_rat("1")):
                        count = Nz.rat(ast.parse(f"({stop}) - ({start})", mode="eval").body)
                    elif st.equals(spec_rat("-1")):
                        count = Nz.rat(ast.parse(f"({start}) - ({stop})", mode="eval").body)
                    else:
                        count = None
                    reach = count is not None and (count.equals(spec_rat("M - 1")) or count.equals(spec_rat("M")))
                    if reach and isinstance(v, ast.BinOp) and isinstance(v.op, ast.Pow) and astx.u(v.left) == val:
                        # exponent at position P, the counter written out
                        class _S(ast.NodeTransformer):
                            def visit_Name(self_, n):
                                if n.id == e:
                                    return ast.parse(f"(({start}) + ({step}) * P__)", mode="eval").body
                                return n
                        import copy as _copy
                        ex = ast.fix_missing_locations(_S().visit(_copy.deepcopy(v.right)))
                        rex = Nz.rat(ex)
                        astx.MISSES[:] = [x for x in astx.MISSES if x[1] != "P__"]   # the position symbol is not a local of the function
                        good = rex.equals(spec_rat("M - P__ - 1")) \
                            and not literals(Normalizer(f.node, inline=False).conj(astx.path_condition(f.node, a, pm)))
                except (NotClosedForm, SyntaxError):
                    good = False
    init = [dv for st, dv in astx.defs_of(f.node, astx.u(augs[0].target)) if dv is not None] if augs else []
    good = good and len(init) == 1 and astx.is_const(init[0], 1)
    ctx.check(good, f, augs[0] if augs else f.node, "_make_pow = product of val_i ** (m - i - 1), 0-based", d, f"factor is `{d}`; documented val ** (m - i - 1)")
    f = prog.find_func("name_BradleyTerry._BT_pdf")
    dct = f.params[1]
    comps = [n for n in astx.walk_own(f.node) if isinstance(n, ast.DictComp)]
    # the supports in permutation order: through the nested helper pull_perm(perm), or written out [dct[c] for c in perm]
    has_pull = f"{f.qualname}.<locals>.pull_perm" in prog.functions
    if has_pull:
        pull = prog.nested_func(f, "pull_perm")
        pr = [n for n in astx.walk_own(pull.node) if isinstance(n, ast.Return)]
        okpull = len(pr) == 1 and re.fullmatch(rf"\[{dct}\[(\w+)\] for \1 in {pull.params[0]}\]", astx.u(pr[0].value)) is not None
    else:
        okpull = True
    good = False
    if len(comps) == 2:
        t, nrm = comps
        g = t.generators[0]
        perm = astx.u(g.target)
        good = astx.u(g.iter) in (f"it.permutations({dct}.keys())", f"it.permutations({dct})") and astx.u(t.key) == perm \
            and (astx.u(t.value) == f"self._make_pow(pull_perm({perm}))" if has_pull else astx.u(t.value) == astx.A(f"self._make_pow([{dct}[c] for c in {perm}])")) and not g.ifs
        summ = astx.unique_def(f.node, "summ")
        tname = astx.u(astx.stmt_of(t, astx.parents(f.node)).targets[0])
        g2 = nrm.generators[0]
        k2, v2 = [astx.u(x) for x in g2.target.elts]
        good = good and summ is not None and astx.u(summ) == f"sum({tname}.values())" and astx.u(g2.iter) == f"{tname}.items()" and astx.u(nrm.key) == k2 \
            and astx.u(nrm.value) == f"{v2} / summ" and not g2.ifs
    ctx.check(good and okpull, f, f.node, "BT table: every permutation -> _make_pow(supports in permutation order), divided by the total", "", "name-BT probability table construction changed")
    init = prog.find_func("name_BradleyTerry.__init__")
    tb = [n for n in astx.walk_own(init.node) if isinstance(n, ast.DictComp) and "_BT_pdf" in astx.u(n)]
    ctx.check(len(tb) == 1 and astx.u(tb[0].value) == f"self._BT_pdf(self.pref_interval_by_bloc[{astx.u(tb[0].key)}].interval)" and astx.u(tb[0].generators[0].iter) == "self.blocs", init,
              tb[0] if tb else init.node, "one BT table per bloc from that bloc's combined interval", "", "pdfs_by_bloc wiring changed")


def r4_slate_bt(ctx):
    prog = ctx.prog
    f = prog.find_func("slate_BradleyTerry._compute_ballot_type_dist")
    bloc, opp = f.params[1:3]
    p = prog.nested_func(f, "prob_of_type")
    bt = p.params[0]
    rets = [n for n in astx.walk_own(p.node) if isinstance(n, ast.Return)]
    N = Normalizer(p.node, inline=False)
    good = False
    d = ""
    if len(rets) == 1:
        v = rets[0].value
        d = astx.u(v)
        if isinstance(v, ast.BinOp) and isinstance(v.op, ast.Mult):
            a, b = v.left, v.right
            ka, kb = [N.key(x) for x in (a, b)]
            want = {"pow(cohesion, success)", "pow(-cohesion + 1, -success + total_comparisons)", "pow(-cohesion + 1, total_comparisons - success)"}
            good = {ka, kb} <= want and len({ka, kb}) == 2
            d = f"{ka} * {kb}"
    ctx.check(good, p, rets[0] if rets else p.node, "type probability = c^success * (1-c)^(total - success)", d, f"type weight is `{d}`")
    succ = astx.unique_def(p.node, "success")
    good = False
    if isinstance(succ, ast.Call) and astx.u(succ.func) == "sum" and isinstance(succ.args[0], (ast.GeneratorExp, ast.ListComp)):
        g = succ.args[0]
        gen = g.generators[0]
        if isinstance(gen.target, ast.Tuple) and astx.u(gen.iter) == f"enumerate({bt})":
            i, b = [astx.u(x) for x in gen.target.elts]
            filt = [bool_key(Normalizer(None, inline=False).guard(t)) for t in gen.ifs]
            Ni = Normalizer(p.node, inline=False, int_atoms=lambda x: True)
            good = Ni.key(g.elt) == f"{bt}[{i} + 1:].count({opp})" and filt in ([f"eq({b}, {bloc})"], [f"eq({bloc}, {b})"])
    ctx.check(good, p, succ or p.node, "success = number of (own-bloc position, later other-bloc position) pairs", astx.u(succ)[:100] if succ is not None else "",
              "the success count is not sum over own positions of later other-bloc positions")
    tot = astx.unique_def(f.node, "total_comparisons")
    good = isinstance(tot, ast.Call) and tot.args and astx.u(tot.func) in ("np.prod", "math.prod") and \
        astx.u(tot.args[0]) == astx.A(f"[len(interval.non_zero_cands) for interval in self.pref_intervals_by_bloc[{bloc}].values()]")
    ctx.check(good, f, tot or f.node, "total = product of the (non-zero) slate sizes in the voter bloc's view", "", "total_comparisons changed")
    coh = astx.unique_def(f.node, "cohesion")
    ctx.check(coh is not None and astx.u(coh) == f"self.cohesion_parameters[{bloc}][{bloc}]", f, coh or f.node, "cohesion = the bloc's own cohesion", "", "cohesion lookup changed")
    bts = astx.unique_def(f.node, "blocs_to_sample")
    good = isinstance(bts, astx.LCOMP) and len(bts.generators) == 2 and astx.u(bts.generators[0].iter) == "self.blocs" and \
        astx.u(bts.generators[1].iter) == f"range(len(self.pref_intervals_by_bloc[{bloc}][{astx.u(bts.generators[0].target)}].non_zero_cands))" \
        and astx.u(bts.elt) == astx.u(bts.generators[0].target)
    if not good:
        # the same repetition built by a loop:  L = []; for b in self.blocs: L.extend([b] * len(<b's supported candidates>))
        from vk import listform
        bo = listform.build_of(f.node, ast.Name(id="blocs_to_sample", ctx=ast.Load()))
        if bo is not None and bo.kind == "flatmap" and not bo.conditional and astx.u(bo.iter) == "self.blocs":
            Nb = Normalizer(f.node, inline=True)
            good = Nb.key(bo.elt) == f"[{bo.var}] * len(self.pref_intervals_by_bloc[{bloc}][{bo.var}].non_zero_cands)"
            bts = bo.node
    ctx.check(good, f, bts or f.node, "a type lists each slate as many times as it has supported candidates", "", "blocs_to_sample changed")
    from vk import listform
    good = False
    summ = astx.unique_def(f.node, "summ")
    tname = None
    if summ is not None and isinstance(summ, ast.Call) and astx.u(summ.func) == "sum" and summ.args and isinstance(summ.args[0], ast.Call) and astx.u(summ.args[0].func).endswith(".values"):
        tname = astx.u(summ.args[0].func.value)
    t = listform.dict_build_of(f.node, ast.Name(id=tname, ctx=ast.Load())) if tname else None
    nrms = [n for n in astx.walk_own(f.node) if isinstance(n, ast.DictComp) and astx.u(n.generators[0].iter) == f"{tname}.items()"]
    if t is not None and len(t.loops) == 1 and len(nrms) == 1:
        tv, tit = t.loops[0]
        nrm = nrms[0]
        good = astx.u(tit) in (astx.A("set(it.permutations(blocs_to_sample, len(blocs_to_sample)))"),) and not t.conditional \
            and astx.u(t.value) == f"prob_of_type({tv})" and astx.u(t.key) == tv
        g2 = nrm.generators[0]
        k2, v2 = [astx.u(x) for x in g2.target.elts]
        good = good and astx.u(nrm.value) == f"{v2} / summ" and astx.u(nrm.key) == k2 and not g2.ifs
    ctx.check(good, f, f.node, "slate-BT table: distinct orderings -> type weight, divided by the total", "", "slate-BT table construction changed")
    init = prog.find_func("slate_BradleyTerry.__init__")
    tb = [n for n in astx.walk_own(init.node) if isinstance(n, ast.DictComp) and "_compute_ballot_type_dist" in astx.u(n)]
    good = len(tb) == 1 and astx.u(tb[0].generators[0].iter) == "enumerate(self.blocs)"
    if good:
        i, b = [astx.u(x) for x in tb[0].generators[0].target.elts]
        good = astx.u(tb[0].value) == f"self._compute_ballot_type_dist({b}, self.blocs[({i} + 1) % 2])" and astx.u(tb[0].key) == b
    ctx.check(good, init, tb[0] if tb else init.node, "one type table per bloc against the other bloc", "", "ballot_type_pdf wiring changed")


def r5_combined_intervals(ctx):
    from rules import c16
    sub = type(ctx)(ctx.prog, ctx.prop, ctx.tier)
    c16.d6_model_parameters(sub)
    n = 0
    for o in sub.obs:
        if "combine" in o.construct or "interval" in o.construct:
            o.rule = "C15.R5"
            ctx.obs.append(o)
            n += 1
    if n == 0:
        ctx.vanished("combined-interval constructions")


RULES = [
    ("C15.R1", r1_interval, 8, "PreferenceInterval: zero partition then normalisation by the sum"),
    ("C15.R2", r2_combine, 3, "combine_preference_intervals: support * own proportion; zero sets united"),
    ("C15.R3", r3_name_bt, 3, "name-BT: _make_pow exponents m-i-1; table over all permutations divided by the total"),
    ("C15.R5", r5_combined_intervals, 7, "the three name-models build a bloc's interval by combine(intervals[bloc][b], cohesion[bloc][b]) over self.blocs (shared with C16.D6)"),
    ("C15.R4", r4_slate_bt, 7, "slate-BT: c^success (1-c)^(total-success); success/total definitions; table over distinct orderings"),
]

PI = "src/votekit/pref_interval.py"
BG = "src/votekit/ballot_generator.py"
FAULTS = [
    ("normalise skipped when already 1", [(PI, "        if summ == 0:\n            raise ZeroDivisionError(\"There are no candidates with non-zero support.\")\n", "        if summ == 0:\n            raise ZeroDivisionError(\"There are no candidates with non-zero support.\")\n        if summ == 1:\n            return\n")], "C15.R1"),
    ("zero filter rounds", [(PI, "frozenset([c for c, s in self.interval.items() if s == 0])", "frozenset([c for c, s in self.interval.items() if round(s, 8) == 0])")], "C15.R1"),
    ("normalise by max", [(PI, "        summ = sum(self.interval.values())", "        summ = max(self.interval.values())")], "C15.R1"),
    ("normalise before removing zeros (swap order)", [(PI, "        self._remove_zero_support_cands()\n        self._normalize()", "        self._normalize()\n        self._remove_zero_support_cands()")], "C15.R1"),
    ("zero filter < epsilon", [(PI, "frozenset([c for c, s in self.interval.items() if s == 0])", "frozenset([c for c, s in self.interval.items() if s <= 0.01])")], "C15.R1"),
    ("combine pairs reversed", [(PI, "            for pi, prop in zip(intervals, proportions)", "            for pi, prop in zip(intervals, proportions[::-1])")], "C15.R2"),
    ("combine adds proportion", [(PI, "            key: value * prop\n", "            key: value + prop\n")], "C15.R2"),
    ("combine drops zero cands", [(PI, "    sum_pi.zero_cands = sum_pi.zero_cands.union(zero_cands)\n", "")], "C15.R2"),
    ("combine overwrites the constructor's zero set", [(PI, "    sum_pi.zero_cands = sum_pi.zero_cands.union(zero_cands)\n", "    sum_pi.zero_cands = zero_cands\n")], "C15.R2"),
    ("BT intervals in dict order, cohesion in bloc order", [(BG, "                    [self.pref_intervals_by_bloc[bloc][b] for b in self.blocs],", "                    list(self.pref_intervals_by_bloc[bloc].values()),", "all")], "C15.R5"),
    ("slate total counts zero-support candidates", [(BG, "                len(interval.non_zero_cands)\n                for interval in self.pref_intervals_by_bloc[bloc].values()", "                len(interval.candidates)\n                for interval in self.pref_intervals_by_bloc[bloc].values()")], "C15.R4"),
    ("make_pow exponent m-i", [(BG, "                ret *= val ** (m - i - 1)", "                ret *= val ** (m - i)")], "C15.R3"),
    ("make_pow counter zipped from m", [(BG, "        for i, val in enumerate(lst):\n            if i < m - 1:\n                ret *= val ** (m - i - 1)", "        for e, val in zip(range(m, 0, -1), lst):\n            ret *= val ** e")], "C15.R3"),
    ("make_pow counter zipped, stops one short", [(BG, "        for i, val in enumerate(lst):\n            if i < m - 1:\n                ret *= val ** (m - i - 1)", "        for e, val in zip(range(m - 1, 1, -1), lst):\n            ret *= val ** e")], "C15.R3"),
    ("make_pow skips first", [(BG, "            if i < m - 1:\n                ret *= val ** (m - i - 1)", "            if 0 < i < m - 1:\n                ret *= val ** (m - i - 1)")], "C15.R3"),
    ("BT pdf supports sorted", [(BG, "            return [dct[i] for i in lst]", "            return sorted([dct[i] for i in lst], reverse=True)")], "C15.R3"),
    ("BT pdf not normalised", [(BG, "        return {key: value / summ for key, value in new_dct.items()}", "        return {key: value for key, value in new_dct.items()}")], "C15.R3"),
    ("slate success counts own after own", [(BG, "                b_type[i + 1 :].count(opp_bloc)", "                b_type[i + 1 :].count(bloc)")], "C15.R4"),
    ("slate success counts earlier", [(BG, "                b_type[i + 1 :].count(opp_bloc)", "                b_type[:i].count(opp_bloc)")], "C15.R4"),
    ("slate exponents swapped", [(BG, "            return pow(cohesion, success) * pow(\n                1 - cohesion, total_comparisons - success\n            )", "            return pow(1 - cohesion, success) * pow(\n                cohesion, total_comparisons - success\n            )")], "C15.R4"),
    ("slate table over all permutations with repeats", [(BG, "            for b in set(it.permutations(blocs_to_sample, len(blocs_to_sample)))", "            for b in it.permutations(blocs_to_sample, len(blocs_to_sample - 0) if False else len(blocs_to_sample) - 1)")], "C15.R4"),
]
BENIGN = [
    ("make_pow counter zipped in front", [(BG, "        for i, val in enumerate(lst):\n            if i < m - 1:\n                ret *= val ** (m - i - 1)", "        for e, val in zip(range(m - 1, 0, -1), lst):\n            ret *= val ** e")]),
    ("exponent reordered", [(BG, "                ret *= val ** (m - i - 1)", "                ret *= val ** (m - 1 - i)")]),
]
