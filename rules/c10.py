"""C10 — randomness only breaks genuine ties, every tiebreak is recorded (DESIGN §5/C10)."""
from __future__ import annotations

import ast
import re

from vk import astx, elect, facts, effects, callgraph
from vk.report import shape_rule
from vk.algebra import Normalizer, bool_key, simplify, atoms_of
from vk.loader import AnalysisError

EXPLANATION = (
    "RNG census + reachability + guard dominance + def-use. Decides: the only random draws in the "
    "non-generator modules are in the table {tiebreak_set, random_transfer, RandomDictator, "
    "BoostedRandomDictator, PluralityVeto}; from every deterministic rule class the only reachable "
    "draw is the one in tiebreak_set; every tiebreak_set call is dominated by a test that the set has "
    "more than one member (or the overshoot test of the top-m selector); every resolution flows, "
    "keyed by the tied set, into the tiebreaks= field of the state recorded by the same step; the "
    "scored tiebreaks use borda/first-place scores restricted to the tied set and fall back to "
    "random only behind the still-tied test; each tiebreak code reaches its own branch of tiebreak_set and an "
    "unrecognised code reaches none; the scores behind a scored tiebreak are requested and summed exactly; the selector splits the resolution prefix/suffix at one "
    "point. Does NOT decide that a recorded set was actually tied on every input."
)
ASSUMPTIONS = [
    "the transfer slot is followed only to its default (fractional_transfer) when computing what a deterministic rule can reach; "
    "random_transfer is reachable only when the caller passes it",
    "virtual dispatch is resolved from the concrete class under analysis",
]
TRUSTED = ["random / numpy.random are the only RNG entry points (module import table is scanned)"]

RNG_TABLE = {"tiebreak_set", "random_transfer", "RandomDictator._run_step", "BoostedRandomDictator._run_step",
             "PluralityVeto.__init__"}
RANDOM_RULES = {"RandomDictator", "BoostedRandomDictator", "PluralityVeto"}
SCOPE = elect.SCOPE_ELECTION + ("src/votekit/graphs/",)


def r1_rng_census(ctx):
    prog = ctx.prog
    sites = 0
    rng_funcs = set()
    for f in prog.iter_functions(SCOPE):
        if f.parent is not None and not isinstance(f.node, ast.Lambda):
            pass
        calls = effects.rng_calls(prog, f) if not isinstance(f.node, ast.Lambda) else []
        for c in calls:
            sites += 1
            owner = f
            while owner.parent is not None:
                owner = owner.parent
            rng_funcs.add(owner.qualname)
            ctx.check(owner.short in RNG_TABLE, f, c, f"random draw {astx.u(c.func)} in {owner.short}",
                      "listed draw site", f"{astx.u(c)[:80]}: a random draw outside the documented draw sites {sorted(RNG_TABLE)}")
    # modules that import an RNG without the census seeing a call are fine; a *new* RNG module is not
    for m in prog.modules.values():
        if not m.path.startswith(SCOPE):
            continue
        for local, tgt in m.imports.items():
            root = tgt.split(".")[0]
            if root in ("secrets", "uuid", "time", "os") and root in ("secrets",):
                ctx.violated(None, None, f"{m.path} imports {tgt}", "another entropy source in rule code")
    # reachability from deterministic rules
    tb = prog.find_func("tiebreak_set")
    for cls in facts.election_classes(prog):
        if cls.name in RANDOM_RULES:
            continue
        r = callgraph.reach(prog, cls, callgraph.class_entry_points(cls))
        reached_rng = sorted({f.short for f, _ in r.values()
                              if not isinstance(f.node, ast.Lambda) and effects.rng_calls(prog, f)})
        ctx.check(set(reached_rng) <= {"tiebreak_set"}, cls.lookup("_run_step"), None,
                  f"{cls.name}: only tiebreak_set's draw is reachable",
                  f"{len(r)} functions reachable; draws in {reached_rng}",
                  f"deterministic rule {cls.name} can reach random draws in {reached_rng}")
    ctx.note(f"R1: {sites} RNG call sites in {len(rng_funcs)} functions of the non-generator modules")
    # positive fixture
    import types
    src = "import random\nimport numpy as np\ndef f(x):\n    return random.choice(x), np.random.rand()\n"
    from vk.loader import Module
    tree = ast.parse(src)
    fm = Module("votekit._fixture", "fixture.py", src, tree, False)
    prog._index_imports(fm)
    from vk.loader import Func
    ff = Func("votekit._fixture.f", "f", tree.body[2], fm)
    if len(effects.rng_calls(prog, ff)) != 2:
        ctx.undecided(None, None, "RNG matcher fixture", "matcher failed on the embedded positive example")


def _tie_calls(prog):
    out = []
    for f in prog.iter_functions(SCOPE):
        if isinstance(f.node, ast.Lambda):
            continue
        for c in astx.calls_in(f.node, "tiebreak_set"):
            out.append((f, c))
    return out


@shape_rule
def r2_only_in_tie(ctx):
    prog = ctx.prog
    tb = prog.find_func("tiebreak_set")
    for f, c in _tie_calls(prog):
        b = astx.bind_args(c, tb.params)
        s = b.get(tb.params[0])
        pm = astx.parents(f.node)
        N = Normalizer(f.node, inline=False)
        pc = astx.path_condition(f.node, c, pm, drop_stale=False)
        g = N.conj(pc)
        sk = N.key(s)
        tie_atom = f"ge(len({sk}), 2)"
        lits = _true_literals(g)
        if tie_atom in lits:
            ctx.ok(f, c, f"tiebreak_set({sk}) dominated by len > 1", bool_key(g))
        elif f.short == "elect_cands_from_set_ranking" and _selector_tie_only_on_overshoot(prog):
            ctx.ok(f, c, "tiebreak_set at the seat boundary dominated by the overshoot test", "every path of the election loop that resolves a tie has count + len(group) > m")
        elif f.short == "elect_cands_from_set_ranking" and any(re.fullmatch(r"not ge\(m - \w+, 0\)|ge\(\w+ - m, 1\)|not ge\(-\w+ \+ m, 0\)", a) for a in _all_literals(g)):
            ctx.ok(f, c, "tiebreak_set at the seat boundary dominated by the overshoot test", bool_key(g))
        else:
            ctx.violated(f, c, f"tiebreak_set({sk}) not dominated by a tie test",
                         f"path condition `{bool_key(g)}` does not establish len({sk}) > 1; a random order could be imposed on untied candidates")
    # tiebroken_ranking only descends into sets with more than one member (checked above via its call)


def _selector_tie_only_on_overshoot(prog) -> bool:
    """On the iteration table of the selector (rules/selmodel.py): every path that evaluates tiebreak_set has
    count + len(group) > m in entry values."""
    from rules import selmodel
    from vk.algebra import implies, spec_guard
    m = selmodel.model(prog)
    if m.loop is None or m.problem or m.CNT is None:
        return False
    over = spec_guard(m.overshoot(), int_atoms=lambda a: True)

    def has_tie(e):
        return e is not None and any(isinstance(n, ast.Call) and astx.call_name(n) == "tiebreak_set" for n in ast.walk(e))
    outs = [o for o in m.outcomes if has_tie(o.value) or any(isinstance(v, ast.AST) and has_tie(v) for v in o.state.values())
            or any(has_tie(seg[1]) for v in o.state.values() if not isinstance(v, ast.AST) for seg in v.segs if seg[0] != "base")]
    return bool(outs) and all(implies(m.cond(o), over) for o in outs)


def _true_literals(g):
    g = simplify(g)
    if g[0] == "atom":
        return {g[1]}
    if g[0] == "and":
        return {x[1] for x in g[1] if x[0] == "atom"}
    return set()


def _all_literals(g):
    g = simplify(g)
    out = set()
    items = g[1] if g[0] == "and" else [g]
    for x in items:
        if x[0] == "atom":
            out.add(x[1])
        elif x[0] == "not" and x[1][0] == "atom":
            out.add("not " + x[1][1])
    return out


def _tiebreaks_kw_values(prog, f):
    vals = []
    for sc in elect.state_ctor_calls(prog, f):
        kw = elect.state_kwargs(prog, sc)
        if "tiebreaks" in kw:
            vals.append((sc, kw["tiebreaks"]))
    return vals


def _dict_defs(f, name):
    """dict literals assigned to local `name`: list of (key expr, value expr) for 1-entry dicts."""
    out = []
    for _, dv in astx.defs_of(f.node, name):
        if isinstance(dv, ast.Dict) and len(dv.keys) == 1:
            out.append((dv.keys[0], dv.values[0]))
    # entries put into the mapping one at a time:  name[key] = value
    for n in astx.walk_own(f.node):
        if isinstance(n, ast.Assign) and len(n.targets) == 1 and isinstance(n.targets[0], ast.Subscript) and astx.is_name(n.targets[0].value, name) \
                and not isinstance(n.targets[0].slice, ast.Slice):
            out.append((n.targets[0].slice, n.value))
    return out


def r3_recorded(ctx):
    prog = ctx.prog
    steps = {f.qualname: f for f in elect.step_functions(prog)}
    for f in prog.iter_functions(("src/votekit/elections/election_types/",)):
        if isinstance(f.node, ast.Lambda) or f.cls is None:
            continue
        # (a) direct tiebreak_set calls
        for c in astx.calls_in(f.node, "tiebreak_set"):
            tb = prog.find_func("tiebreak_set")
            b = astx.bind_args(c, tb.params)
            sk = astx.u(b[tb.params[0]])
            pm = astx.parents(f.node)
            st = astx.stmt_of(c, pm)
            res = st.targets[0].id if isinstance(st, ast.Assign) and isinstance(st.targets[0], ast.Name) else None
            ok_flow = False
            why = "the resolution is not bound to a local"
            if res:
                why = f"no `tiebreaks = {{{sk}: {res}}}` reaching ElectionState(tiebreaks=...)"
                for sc, tv in _tiebreaks_kw_values(prog, f):
                    if isinstance(tv, ast.Name):
                        for k, v in _dict_defs(f, tv.id):
                            if astx.u(k) == sk and astx.is_name(v, res):
                                ok_flow = True
            ctx.check(ok_flow, f, c, f"resolution of tiebreak_set({sk}) recorded under the tied set", "flows into tiebreaks=", why)
        # (b) selector calls: component 2
        for c in astx.calls_in(f.node, "elect_cands_from_set_ranking"):
            pm = astx.parents(f.node)
            st = astx.stmt_of(c, pm)
            t = None
            if isinstance(st, ast.Assign) and isinstance(st.targets[0], (ast.Tuple, ast.List)) and len(st.targets[0].elts) == 3:
                t3 = st.targets[0].elts[2]
                t = t3.id if isinstance(t3, ast.Name) else None
            if t is None:
                ctx.violated(f, c, "selector result not unpacked into (elected, remaining, tie)", astx.u(st)[:100])
                continue
            # find V with def {t[0]: t[1]}
            vs = []
            for n in astx.walk_own(f.node):
                if isinstance(n, ast.Assign) and isinstance(n.targets[0], ast.Name) and isinstance(n.value, ast.Dict) and len(n.value.keys) == 1:
                    if astx.u(n.value.keys[0]) == f"{t}[0]" and astx.u(n.value.values[0]) == f"{t}[1]":
                        pc = Normalizer(f.node, inline=False).conj(astx.path_condition(f.node, n, pm))
                        if f"truthy({t})" in _true_literals(pc):
                            vs.append(n.targets[0].id)
                # the same entry put into an (empty) mapping:  V[t[0]] = t[1]
                if isinstance(n, ast.Assign) and len(n.targets) == 1 and isinstance(n.targets[0], ast.Subscript) and isinstance(n.targets[0].value, ast.Name) \
                        and astx.u(n.targets[0].slice) == f"{t}[0]" and astx.u(n.value) == f"{t}[1]":
                    pc = Normalizer(f.node, inline=False).conj(astx.path_condition(f.node, n, pm))
                    if f"truthy({t})" in _true_literals(pc):
                        vs.append(n.targets[0].value.id)
            ok_flow = False
            for v in vs:
                for sc, tv in _tiebreaks_kw_values(prog, f):
                    if astx.is_name(tv, v):
                        ok_flow = True
                # or returned to the caller as a tuple component that the caller records
                for r in (n for n in astx.walk_own(f.node) if isinstance(n, ast.Return)):
                    if isinstance(r.value, ast.Tuple):
                        for i, el in enumerate(r.value.elts):
                            if astx.is_name(el, v):
                                ok_flow = _caller_records(prog, f, i)
            if not ok_flow:
                # the raw (tied set, resolution) pair handed to the caller, which wraps and records it
                for r in (n for n in astx.walk_own(f.node) if isinstance(n, ast.Return)):
                    if isinstance(r.value, ast.Tuple):
                        for i, el in enumerate(r.value.elts):
                            if astx.is_name(el, t) and _caller_wraps_and_records(prog, f, i):
                                ok_flow = True
            ctx.check(ok_flow, f, c, "selector tie resolution recorded under the tied set",
                      f"{{{t}[0]: {t}[1]}} flows into tiebreaks=", f"component 2 (`{t}`) of the selector result never reaches ElectionState(tiebreaks=...)")
    # (c') later stages hand over the sub-election's own states (their tiebreaks travel with them)
    for name, pat in (("TopTwo", r"self\.election_states\.append\((\w+)\.election_states\[1\]\)"), ("Alaska", r"self\.election_states \+= (\w+)\.election_states\[1:\]")):
        f = prog.find_func(f"{name}._run_step")
        hits = [n for n in astx.walk_own(f.node) if isinstance(n, (ast.Expr, ast.AugAssign)) and re.fullmatch(pat, astx.u(n))]
        if not hits:
            # the same state object(s) reached through a local / a loop variable over the sub-election's states
            for n in astx.walk_own(f.node):
                if isinstance(n, ast.Expr) and isinstance(n.value, ast.Call) and astx.u(n.value.func) == "self.election_states.append" and n.value.args and isinstance(n.value.args[0], ast.Name):
                    v = n.value.args[0].id
                    dv = astx.unique_def(f.node, v)
                    lp = astx.enclosing(n, astx.parents(f.node), ast.For)
                    if (dv is not None and re.fullmatch(r"\w+\.election_states\[1\]", astx.u(dv))) or \
                            (lp is not None and astx.is_name(lp.target, v) and re.fullmatch(r"\w+\.election_states\[1:\]", astx.u(lp.iter))):
                        hits.append(n)
        ctx.check(len(hits) == 1, f, hits[0] if hits else f.node, f"{name}: the later stage records the sub-election's own states (with their tiebreaks)", astx.u(hits[0]) if hits else "",
                  f"{name} does not append the sub-election's recorded state object(s); a rebuilt state can lose the tiebreak record")
    # (c) composite rules forward the sub-election's record
    for name in ("TopTwo", "Alaska"):
        f = prog.find_func(f"{name}._run_step")
        good = False
        for sc, tv in _tiebreaks_kw_values(prog, f):
            dv = astx.unique_def(f.node, tv.id) if isinstance(tv, ast.Name) else tv
            if dv is not None and re.fullmatch(r"\w+\.election_states\[-?1\]\.tiebreaks", astx.u(dv)):
                good = True
        ctx.check(good, f, f.node, f"{name}: stage-0 state forwards the Plurality sub-election's tiebreaks",
                  "tiebreaks = plurality.election_states[-1].tiebreaks", "the sub-election's tiebreak record is dropped")


def _caller_wraps_and_records(prog, helper, idx) -> bool:
    """Component idx of helper's returned tuple (the raw pair) is bound to u in a caller, which records {u[0]: u[1]}
    (built only when u is there) as tiebreaks=."""
    for f in elect.step_functions(prog):
        if f.cls is None or helper.cls is None or helper.cls not in f.cls.mro():
            continue
        pm = astx.parents(f.node)
        for c in astx.calls_in(f.node, helper.name):
            st = astx.stmt_of(c, pm)
            if not (isinstance(st, ast.Assign) and isinstance(st.targets[0], ast.Tuple) and idx < len(st.targets[0].elts) and isinstance(st.targets[0].elts[idx], ast.Name)):
                continue
            u_ = st.targets[0].elts[idx].id
            for n in astx.walk_own(f.node):
                if isinstance(n, ast.Assign) and isinstance(n.targets[0], ast.Name) and isinstance(n.value, ast.Dict) and len(n.value.keys) == 1 \
                        and astx.u(n.value.keys[0]) == f"{u_}[0]" and astx.u(n.value.values[0]) == f"{u_}[1]" and n.lineno > st.lineno:
                    pc = Normalizer(f.node, inline=False).conj(astx.path_condition(f.node, n, pm))
                    if f"truthy({u_})" in _true_literals(pc) or f"not isnone({u_})" in _all_literals(pc):
                        for sc, tv in _tiebreaks_kw_values(prog, f):
                            if astx.is_name(tv, n.targets[0].id):
                                return True
    return False


def _caller_records(prog, helper, idx) -> bool:
    """Component idx of helper's returned tuple is bound in a caller and passed as tiebreaks=."""
    for f in elect.step_functions(prog):
        if f.cls is None or helper.cls is None or helper.cls not in f.cls.mro():
            continue
        for c in astx.calls_in(f.node, helper.name):
            st = astx.stmt_of(c, astx.parents(f.node))
            if isinstance(st, ast.Assign) and isinstance(st.targets[0], ast.Tuple) and idx < len(st.targets[0].elts):
                v = st.targets[0].elts[idx]
                for sc, tv in _tiebreaks_kw_values(prog, f):
                    if astx.u(tv) == astx.u(v):
                        return True
    return False


def _eval_dispatch(g, p_tb, code, p_prof):
    """Three-valued value of a normalised guard when the tiebreak parameter equals the string `code` and a profile was
    supplied: True / False / None (depends on something else)."""
    k = g[0]
    if k == "const":
        return bool(g[1])
    if k == "not":
        v = _eval_dispatch(g[1], p_tb, code, p_prof)
        return None if v is None else not v
    if k in ("and", "or"):
        vals = [_eval_dispatch(x, p_tb, code, p_prof) for x in g[1]]
        dom = (k == "or")
        if any(v is dom for v in vals):
            return dom
        return None if any(v is None for v in vals) else (not dom)
    if k == "atom":
        a = g[1]
        m = re.fullmatch(rf"eq\('([^']*)', {p_tb}\)|eq\({p_tb}, '([^']*)'\)", a)
        if m:
            return (m.group(1) if m.group(1) is not None else m.group(2)) == code
        m = re.fullmatch(rf"in\({p_tb}, ([\(\[\{{].*[\)\]\}}])\)", a)
        if m:
            try:
                vals = ast.literal_eval(m.group(1))
            except Exception:  # noqa
                return None
            return code in vals if all(isinstance(v, str) for v in vals) else None
        if a in (f"truthy({p_prof})", f"is_not_none({p_prof})", f"isnot({p_prof}, None)"):
            return True
        if a in (f"is_none({p_prof})", f"is({p_prof}, None)"):
            return False
    return None


def _dispatch_clause(ctx, f, N, pm, p_tb, p_prof, want):
    """Which branch serves which code: with tiebreak == K (and a profile) the site of K is not cut off by the conditions
    above it, and with a code that is none of the three nothing is drawn or scored - decided by evaluating the path
    condition of each site under the assignment; a condition that depends on anything else gives no verdict."""
    sites = {"random": [n for n in astx.walk_own(f.node) if isinstance(n, ast.Call) and astx.call_name(n) in ("sample", "shuffle", "permutation", "choice")]}
    for code, fn in want.items():
        sites[code] = [n for n in astx.walk_own(f.node) if isinstance(n, ast.Call) and astx.call_name(n) == fn]
    for code, ns in sites.items():
        if not ns:
            continue
        conds = [(n, N.conj(astx.path_condition(f.node, n, pm))) for n in ns]
        reach = [_eval_dispatch(g, p_tb, code, p_prof) for _n, g in conds]
        ctx.check(not all(v is False for v in reach), f, ns[0], f"tiebreak == '{code}' reaches its own branch", bool_key(conds[0][1]),
                  f"`{astx.u(ns[0])[:60]}` stands under `{bool_key(conds[0][1])}`, which is false when tiebreak == '{code}': the requested tiebreak is never applied")
        for n, g in conds:
            v = _eval_dispatch(g, p_tb, "\x00unrecognised", p_prof)
            ctx.check(v is not True, f, n, f"an unrecognised tiebreak code does not reach the '{code}' branch", bool_key(g),
                      f"`{astx.u(n)[:60]}` under `{bool_key(g)}` is reached for any tiebreak string: an invalid code is served instead of rejected")


def r4_fallback(ctx):
    prog = ctx.prog
    f = prog.find_func("tiebreak_set")
    p_set, p_prof, p_tb = f.params[:3]
    pm = astx.parents(f.node)
    N = Normalizer(f.node, inline=False)
    # scored branches
    want = {"borda": "borda_scores", "first_place": "first_place_votes"}
    found = {}
    for n in astx.walk_own(f.node):
        if isinstance(n, ast.Assign) and isinstance(n.value, ast.Call) and astx.call_name(n.value) in want.values():
            g = N.conj(astx.path_condition(f.node, n, pm))
            lits = _all_literals(g)
            # (the exact scores: a float request here lets summation noise separate candidates whose exact scores are equal,
            # and the random fallback among the still-tied never fires)
            extra = list(n.value.args[1:]) + [k.value for k in n.value.keywords]
            arg_ok = n.value.args and astx.is_name(n.value.args[0], p_prof) and all(astx.is_const(x, False) for x in extra)
            fn = astx.call_name(n.value)
            code = [k for k, v in want.items() if v == fn][0]
            other = [k for k in want if k != code][0]
            pos = any(re.fullmatch(rf"eq\('{code}', {p_tb}\)|eq\({p_tb}, '{code}'\)", a) for a in lits)
            neg_other = any(re.fullmatch(rf"not eq\('{other}', {p_tb}\)|not eq\({p_tb}, '{other}'\)", a) for a in lits)
            found[code] = (n, arg_ok and (pos or neg_other), bool_key(g))
    # the scoring function chosen first and called afterwards:  fn = borda_scores / first_place_votes ; ... fn(profile)
    for n in astx.walk_own(f.node):
        if isinstance(n, ast.Assign) and len(n.targets) == 1 and isinstance(n.targets[0], ast.Name) and isinstance(n.value, ast.Name) and n.value.id in want.values():
            fv = n.targets[0].id
            calls_fv = [c for c in astx.calls_in(f.node) if astx.is_name(c.func, fv)]
            if not calls_fv or any(not (c.args and astx.is_name(c.args[0], p_prof)) for c in calls_fv):
                continue
            g = N.conj(astx.path_condition(f.node, n, pm))
            lits = _all_literals(g)
            code = [k for k, v in want.items() if v == n.value.id][0]
            other = [k for k in want if k != code][0]
            pos = any(re.fullmatch(rf"eq\('{code}', {p_tb}\)|eq\({p_tb}, '{code}'\)", a) for a in lits)
            neg_other = any(re.fullmatch(rf"not eq\('{other}', {p_tb}\)|not eq\({p_tb}, '{other}'\)", a) for a in lits)
            found.setdefault(code, (n, pos or neg_other, bool_key(g)))
    for code in want:
        if code not in found:
            ctx.violated(f, f.node, f"'{code}' tiebreak uses {want[code]}(profile)", f"no call to {want[code]} in tiebreak_set")
        else:
            n, good, k = found[code]
            ctx.check(good, f, n, f"'{code}' tiebreak uses {want[code]}(profile)", k,
                      f"{astx.u(n)[:70]} under `{k}`: wrong score for the requested tiebreak code, or not the caller's profile")
    _dispatch_clause(ctx, f, N, pm, p_tb, p_prof, want)
    # restriction to the tied set
    restr = [n for n in astx.walk_own(f.node) if isinstance(n, ast.DictComp) and
             any(bool_key(N.guard(t)) == f"in({n.generators[0].target.elts[0].id if isinstance(n.generators[0].target, ast.Tuple) else '?'}, {p_set})"
                 for t in n.generators[0].ifs)]
    # the same restriction spelled as a loop:  for c, s in X.items(): if c in r_set: D[c] = ...   (D goes to the ranking)
    ranked = {astx.u(c.args[0]) for c in astx.calls_in(f.node, "score_dict_to_ranking") if c.args}
    for n in astx.walk_own(f.node):
        if isinstance(n, ast.Assign) and isinstance(n.targets[0], ast.Subscript) and astx.u(n.targets[0].value) in ranked:
            lp = astx.enclosing(n, pm, ast.For)
            if lp is None or not isinstance(lp.target, ast.Tuple) or not isinstance(lp.target.elts[0], ast.Name):
                continue
            k = lp.target.elts[0].id
            lits = _all_literals(N.conj(astx.path_condition(f.node, n, pm)))
            stores = [x for x in astx.walk_own(f.node) if isinstance(x, (ast.Assign, ast.AugAssign)) and isinstance(x.targets[0] if isinstance(x, ast.Assign) else x.target, ast.Subscript)
                      and astx.u((x.targets[0] if isinstance(x, ast.Assign) else x.target).value) == astx.u(n.targets[0].value)]
            if astx.is_name(n.targets[0].slice, k) and f"in({k}, {p_set})" in lits and len(stores) == 1:
                restr.append(n)
    ctx.check(bool(restr), f, restr[0] if restr else f.node, "tiebreak scores restricted to the tied set", "if c in r_set",
              "the scores used to order the tie are not restricted to the tied candidates")
    # fallback
    fb = [c for c in astx.calls_in(f.node, "tiebroken_ranking")]
    tr = prog.find_func("tiebroken_ranking")
    if not fb:
        ctx.violated(f, f.node, "random fallback among still-tied candidates", "no fallback call")
    for c in fb:
        b = astx.bind_args(c, tr.params)
        g = N.conj(astx.path_condition(f.node, c, pm))
        rk = astx.u(b.get(tr.params[0]))
        tie_guard = any(a.startswith("any(") and "ge(len(_b0), 2)" in a and rk in a for a in _true_literals(g))
        is_random = astx.is_const(b.get(tr.params[2]), "random")
        # result replaces the ranking that is returned
        st = astx.stmt_of(c, pm)
        rebinds = isinstance(st, ast.Assign) and rk in astx.assigned_names(st.targets[0])
        ctx.check(tie_guard and is_random and rebinds, f, c, "random fallback only behind the still-tied test, through tiebroken_ranking",
                  bool_key(g), f"fallback `{astx.u(c)[:80]}` under `{bool_key(g)}`: guard={tie_guard} random={is_random} rebinds={rebinds}")
    # the returned value is that ranking on every path
    rets = [n for n in astx.walk_own(f.node) if isinstance(n, ast.Return)]
    # (a return of the random branch itself - the permutation is strict, nothing is left to re-break, C17.R3 - is not this clause's)
    rets = [n for n in rets if not any(re.fullmatch(rf"eq\('random', {p_tb}\)|eq\({p_tb}, 'random'\)", a) for a in _all_literals(N.conj(astx.path_condition(f.node, n, pm))))] or rets
    ctx.check(len(rets) == 1 and fb and astx.u(rets[0].value) == astx.u(astx.bind_args(fb[0], tr.params).get(tr.params[0])),
              f, rets[0] if rets else f.node, "tiebreak_set returns the (possibly re-broken) ranking", "",
              "the returned ranking is not the one the fallback re-breaks")
    # F2 shape: the random branch builds singletons
    def _iter_of(n):
        # the comprehension may range over a single-assignment temporary holding the sample
        it = n.generators[0].iter
        if isinstance(it, ast.Name):
            it = astx.unique_def(f.node, it.id) or it
        return it
    rnd = [n for n in astx.walk_own(f.node) if isinstance(n, (ast.GeneratorExp, ast.ListComp)) and len(n.generators) == 1 and
           isinstance(n.elt, ast.Call) and astx.call_name(n.elt) == "frozenset" and len(n.elt.args) == 1 and isinstance(n.elt.args[0], (ast.Set, ast.List, ast.Tuple))
           and len(n.elt.args[0].elts) == 1 and astx.is_name(n.elt.args[0].elts[0], getattr(n.generators[0].target, "id", None))
           and astx.calls_in(_iter_of(n), "sample", own_only=False)]
    ctx.check(bool(rnd), f, rnd[0] if rnd else f.node, "random branch yields singleton sets (F2)", "frozenset({c}) for c in random.sample(...)",
              "the random branch no longer yields one singleton per tied candidate")
    # tiebroken_ranking: descends only into sets with len > 1 and records them
    pm2 = astx.parents(tr.node)
    N2 = Normalizer(tr.node, inline=False)
    for c in astx.calls_in(tr.node, "tiebreak_set"):
        pass  # dominance is checked by R2
    recs = [n for n in astx.walk_own(tr.node) if isinstance(n, ast.Assign) and isinstance(n.targets[0], ast.Subscript)]
    good = False
    for n in recs:
        st_calls = astx.calls_in(tr.node, "tiebreak_set")
        if st_calls:
            call_st = astx.stmt_of(st_calls[0], pm2)
            if isinstance(call_st, ast.Assign) and astx.u(n.value) == astx.u(call_st.targets[0]) and \
                    astx.u(n.targets[0].slice) == astx.u(st_calls[0].args[0]):
                good = True
    ctx.check(good, tr, recs[0] if recs else tr.node, "tiebroken_ranking records every set it breaks", "tied_dict[s] = tiebroken",
              "a set broken by tiebroken_ranking is not entered in the returned dictionary")


def r5_groups_obey(ctx):
    """Decided on the iteration table of the selector (rules/selmodel.py)."""
    from rules import selmodel
    from vk.algebra import implies, spec_guard
    prog = ctx.prog
    m = selmodel.model(prog)
    f = m.f
    calls = astx.calls_in(f.node, "tiebreak_set")
    if len(calls) != 1:
        ctx.undecided(f, f.node, "selector tiebreak site", f"{len(calls)} tiebreak_set calls in the selector")
        return
    pm = astx.parents(f.node)
    st = astx.stmt_of(calls[0], pm)
    if m.loop is None or m.CNT is None or (m.problem and m.E is None):
        ctx.undecided(f, f.node, "selector roles", m.problem or "cannot identify the elected list / running count of the selector loop")
        return
    if astx.enclosing(st, pm, ast.While) is None:
        ctx.undecided(f, st, "selector shape", "the boundary tie is resolved outside the election loop: not the arrangement these clauses describe")
        return
    if m.problem:
        ctx.undecided(f, m.loop, "selector shape", m.problem)
        return
    R, M, CNT, E, I = m.R, m.M, m.CNT, m.E, m.I
    N = m.N()
    # the loop starts from nothing: no seat counted, nobody elected, the first group next
    def _outer(name):
        return [dv for st_, dv in astx.defs_of(f.node, name) if dv is not None and astx.enclosing(st_, pm, ast.While) is not m.loop]
    zero = all(len(_outer(x)) == 1 and astx.is_const(_outer(x)[0], 0) for x in (CNT, I) if x)
    empty = len(_outer(E)) == 1 and isinstance(_outer(E)[0], (ast.List, ast.Tuple)) and not _outer(E)[0].elts
    ctx.check(zero and empty, f, m.loop, "the selector starts with no seat filled, nobody elected and the first group", "",
              f"initial values: {CNT} = {[astx.u(x) for x in _outer(CNT)]}, {I} = {[astx.u(x) for x in _outer(I)] if I else '-'}, {E} = {[astx.u(x) for x in _outer(E)]}")
    rets = m.kinds("return")
    open_seats = f"{M} - {CNT}"
    split_ok = bool(rets)
    taken_back = bool(rets)
    cont_ok = bool(rets)
    with_cont = 0
    where = ""
    for o in rets:
        T = selmodel.tie_call(m, o)
        comps = selmodel.components(m, o)
        if T is None or comps is None:
            split_ok = taken_back = cont_ok = False
            where = "the returned tuple is not (elected, remaining, (tied group, resolution))"
            continue
        el, rem = comps
        pre = selmodel.slice_of(el.segs[-1], T) if el.segs else None
        suf = selmodel.slice_of(rem.segs[0], T) if rem.segs else None
        where = f"elected = {el.text()[:120]}; remaining = {rem.text()[:120]}"
        # one split point: the prefix T[:k] ends elected, the suffix T[k:] starts remaining, k the same expression
        one_point = pre is not None and suf is not None and pre[0] is None and suf[1] is None and pre[1] is not None and suf[0] is not None \
            and N.key(pre[1]) == N.key(suf[0])
        split_ok = split_ok and one_point
        # elected is what it was when the iteration began plus that prefix (the straddling group itself is not in it), and
        # k is the number of seats that were still open then
        taken_back = taken_back and one_point and el.segs[:-1] == [("base", E)] and m.rat_eq(pre[1], open_seats)
        # remaining goes on with the groups after the tied one
        tail = rem.segs[1:]
        if len(tail) == 1 and tail[0][0] == "seq":
            t = astx.strip_wrappers(tail[0][1], ("tuple", "list"))
            okt = isinstance(t, ast.Subscript) and isinstance(t.slice, ast.Slice) and astx.is_name(t.value, R) and t.slice.upper is None and t.slice.step is None \
                and t.slice.lower is not None and m.rat_eq(t.slice.lower, f"{I} + 1")
            cont_ok = cont_ok and okt
            with_cont += 1
        elif not tail:
            # without the continuation only where there is provably nothing after the tied group
            cont_ok = cont_ok and implies(m.cond(o), spec_guard(f"not ({I} < len({R}))", int_atoms=lambda a: True))
        else:
            cont_ok = False
    ctx.check(bool(split_ok), f, st, "resolution split prefix->elected, suffix->remaining at one point", where,
              f"the tiebreak resolution is not split at a single point into elected prefix / remaining suffix: {where}")
    ctx.check(bool(taken_back), f, st, "the straddling group is removed from elected and from the count before its resolution is split", where,
              f"on the tiebreak path {where}; elected must be the groups seated before plus the first {open_seats} of the resolution (the tied group itself taken back, "
              "its size not counted)")
    ctx.check(bool(cont_ok and with_cont), f, st, "remaining continues with the groups after the tied one", where, f"on the tiebreak path {where}; specified: resolution suffix, then {R}[{I} + 1:]")
    # no-tie exit: (elected prefix, ranking[i:], None)
    Ni = Normalizer(f.node, inline=True, int_atoms=lambda a: True)
    rets = [r for r in astx.walk_own(f.node) if isinstance(r, ast.Return) and not astx.enclosing(r, pm, ast.While)]
    good = False
    d = ""
    if rets and isinstance(rets[0].value, ast.Tuple) and len(rets[0].value.elts) == 3:
        e0, e1, e2 = rets[0].value.elts
        d = astx.u(rets[0].value)
        v2 = astx.unique_def(f.node, e2.id) if isinstance(e2, ast.Name) else e2
        good = Ni.key(e1) == f"{R}[{I}:]" and v2 is not None and astx.is_const(v2, None) and astx.u(astx.strip_wrappers(e0)) == E
    ctx.check(good, f, rets[0] if rets else f.node, "untied exit returns (elected, ranking[i:], None)", d, f"untied exit returns `{d}`")


def r6_genuine_ties(ctx):
    """A tie is 'equal score': the ranking groups candidates by their exact score (shared with C04.R5)."""
    from rules import c04
    sub = type(ctx)(ctx.prog, ctx.prop, ctx.tier)
    c04.r5_grouping_direction(sub)
    n = 0
    for o in sub.obs:
        if o.function.endswith("score_dict_to_ranking"):
            o.rule = "C10.R6"
            ctx.obs.append(o)
            n += 1
    if n == 0:
        ctx.vanished("score_dict_to_ranking grouping obligations")


def _check_defaults(ctx, table):
    """table: [(function short name, parameter, expected default source text)]"""
    prog = ctx.prog
    for fn, param, want in table:
        f = prog.find_func(fn)
        if param not in f.params:
            ctx.violated(f, f.node, f"{fn}: parameter `{param}`", f"parameter `{param}` no longer exists; callers rely on its documented default {want}")
            continue
        d = f.param_default(param)
        got = astx.u(d) if d is not None else "<required>"
        ctx.check(got == want, f, d if d is not None else f.node, f"{fn}({param}={want}) documented default", got,
                  f"default of `{param}` is {got}, documented {want}: every caller that omits the argument silently changes behaviour")


def r7_defaults(ctx):
    _check_defaults(ctx, [("tiebreak_set", "profile", "None"), ("tiebreak_set", "tiebreak", "'random'"), ("tiebroken_ranking", "tiebreak", "'random'"),
                          ("tiebroken_ranking", "profile", "None"), ("elect_cands_from_set_ranking", "profile", "None"), ("elect_cands_from_set_ranking", "tiebreak", "None"),
                          ("Plurality.__init__", "tiebreak", "None"), ("Borda.__init__", "tiebreak", "None"), ("STV.__init__", "tiebreak", "None"),
                          ("GeneralRating.__init__", "tiebreak", "None"), ("TopTwo.__init__", "tiebreak", "None"), ("Alaska.__init__", "tiebreak", "None"),
                          ("PluralityVeto.__init__", "tiebreak", "None")])


def r8_no_replay_in_step(ctx):
    """A step that re-derives its input by replaying earlier rounds (self.get_profile(k), k > 0, or an unbounded
    cumulative query) re-runs those rounds' random tiebreaks: the replay draws again, so the round that is recorded and
    the profile the step works on need not agree with the recorded resolution.  Decided by C09.R3's query census."""
    from rules import c09
    sub = type(ctx)(ctx.prog, ctx.prop, ctx.tier)
    c09.r3_replay_independent(sub)
    n = 0
    for o in sub.obs:
        if "consults" in o.construct or "replay-safe query" in o.construct or "get_profile" in o.construct:
            o.rule = "C10.R8"
            ctx.obs.append(o)
            n += 1
    if n < 2:
        ctx.vanished(f"replay queries in step logic: only {n} found")


def r9_resolution_assembly(ctx):
    """tiebroken_ranking splices the resolution of every tied group into the ranking at the group's own place: the
    result is a strict order of exactly the tied candidates only if the fill cursor advances by what was written
    (C03.R8's cursor discipline, restricted to tiebroken_ranking)."""
    from rules import c03
    sub = type(ctx)(ctx.prog, ctx.prop, ctx.tier)
    c03.r8_cursor_discipline(sub)
    n = 0
    for o in sub.obs:
        if o.function.endswith("tiebroken_ranking"):
            o.rule = "C10.R9"
            ctx.obs.append(o)
            n += 1
    if n < 1:
        ctx.vanished("cursor obligations of tiebroken_ranking: none")


def r10_tiebreak_scores(ctx):
    """The 'first_place' and 'borda' tiebreaks order a tied set by first_place_votes / borda_scores of the profile: the
    documented order only if those are the (1, 0, ..., 0) and (n, n-1, ..., 1) position scores with tied positions
    sharing their points.  Decided by the clauses of C04.R3 about these two functions."""
    from rules import c04
    sub = type(ctx)(ctx.prog, ctx.prop, ctx.tier)
    c04.r3_special_vectors(sub)
    n = 0
    # ... summed exactly (C04.R2: allocation formula and exact zeros of score_profile_from_rankings): candidates are "still tied"
    # after a scored tiebreak exactly when their exact scores are equal, which float accumulation does not preserve
    c04.r2_allocation(sub)
    for o in sub.obs:
        if (o.function or "").endswith(("first_place_votes", "borda_scores", "score_profile_from_rankings")):
            o.rule = "C10.R10"
            ctx.obs.append(o)
            n += 1
    if n < 2:
        ctx.vanished(f"score definitions of the scored tiebreaks: only {n}")


RULES = [
    ("C10.R10", r10_tiebreak_scores, 6, "prerequisite: first_place_votes / borda_scores, which order a tied set under the scored tiebreaks, are the documented position scores, summed exactly (C04.R3, C04.R2)"),
    ("C10.R1", r1_rng_census, 20, "RNG census: draws only at the documented sites; deterministic rules reach only tiebreak_set's draw"),
    ("C10.R2", r2_only_in_tie, 6, "every tiebreak_set call is dominated by a tie test on its argument (or the overshoot test)"),
    ("C10.R3", r3_recorded, 12, "every resolution flows, keyed by the tied set, into the recorded state's tiebreaks"),
    ("C10.R4", r4_fallback, 7, "scored tiebreaks use the right score restricted to the tie; random fallback only among still-tied"),
    ("C10.R7", r7_defaults, 13, "no tiebreak unless requested: documented defaults of the tiebreak parameters"),
    ("C10.R6", r6_genuine_ties, 2, "recorded ties are genuine: candidates are grouped by exact equal score"),
    ("C10.R8", r8_no_replay_in_step, 2, "steps never re-derive their input by replaying earlier (possibly tie-broken) rounds"),
    ("C10.R9", r9_resolution_assembly, 1, "prerequisite: tiebroken_ranking assembles the resolutions with a correctly advanced cursor"),
    ("C10.R5", r5_groups_obey, 5, "selector splits the resolution prefix/suffix at one point; untied exit shape"),
]


UT = "src/votekit/utils.py"
STV = "src/votekit/elections/election_types/ranking/stv.py"
PL = "src/votekit/elections/election_types/ranking/plurality.py"
BO = "src/votekit/elections/election_types/ranking/borda.py"
RD = "src/votekit/elections/election_types/ranking/random_dictator.py"
TT = "src/votekit/elections/election_types/ranking/top_two.py"
FAULTS = [
    ("selector starts with one seat counted", [(UT, "    num_elected = 0\n    elected = []", "    num_elected = 1\n    elected = []")], "C10.R5"),
    ("random draw in plurality", [(PL, "        new_profile = remove_cand([c for s in elected for c in s], profile)", "        import random\n        random.shuffle(list(elected))\n        new_profile = remove_cand([c for s in elected for c in s], profile)")], "C10.R1"),
    ("score function jitters", [(UT, "    if to_float:\n        return {c: float(v) for c, v in mentions.items()}", "    if to_float:\n        return {c: float(v) + random.random() * 0 for c, v in mentions.items()}")], "C10.R1"),
    ("stv tiebreak without tie test", [(STV, "            if len(lowest_fpv_cands) > 1:\n                tiebroken_ranking = tiebreak_set(", "            if len(lowest_fpv_cands) > 0:\n                tiebroken_ranking = tiebreak_set(")], "C10.R2"),
    ("tiebroken_ranking breaks singletons too", [(UT, "        if len(s) > 1:\n            tiebroken = tiebreak_set(s, profile, tiebreak)", "        if len(s) >= 1:\n            tiebroken = tiebreak_set(s, profile, tiebreak)")], "C10.R2"),
    ("stv elimination tiebreak not recorded", [(STV, "                tiebreaks = {lowest_fpv_cands: tiebroken_ranking}\n", "")], "C10.R3"),
    ("plurality drops tie record", [(PL, "                tiebreaks = {tie_resolution[0]: tie_resolution[1]}", "                tiebreaks = {}")], "C10.R3"),
    ("borda records under wrong key", [(BO, "                tiebreaks = {tie_resolution[0]: tie_resolution[1]}", "                tiebreaks = {tie_resolution[1][0]: tie_resolution[1]}")], "C10.R3"),
    ("RD tiebreak not recorded", [(RD, "            tiebreaks = {random_ballot.ranking[0]: tiebroken_ranking}\n", "            tiebreaks = {}\n")], "C10.R3"),
    ("toptwo drops sub-election tiebreaks", [(TT, "            tiebreaks = plurality.election_states[-1].tiebreaks", "            tiebreaks = {}")], "C10.R3"),
    ("toptwo rebuilds the runoff state", [(TT, "                self.election_states.append(plurality.election_states[1])", "                self.election_states.append(ElectionState(round_number=2, elected=plurality.election_states[1].elected, remaining=plurality.election_states[1].remaining, scores=plurality.election_states[1].scores))")], "C10.R3"),
    ("groups keyed by float(score)", [(UT, "        s: [] for s in score_dict.values()\n    }\n    for c, score in score_dict.items():\n        score_to_cand[score].append(c)", "        float(s): [] for s in score_dict.values()\n    }\n    for c, score in score_dict.items():\n        score_to_cand[float(score)].append(c)")], "C10.R6"),
    ("borda code uses first place", [(UT, "        if tiebreak == \"borda\":\n            tiebreak_scores = borda_scores(profile)", "        if tiebreak == \"first_place\":\n            tiebreak_scores = borda_scores(profile)")], "C10.R4"),
    ("tiebreak scores not restricted", [(UT, "            c: Fraction(score) for c, score in tiebreak_scores.items() if c in r_set", "            c: Fraction(score) for c, score in tiebreak_scores.items()")], "C10.R4"),
    ("fallback always random", [(UT, "    if any(len(s) > 1 for s in new_ranking):\n        print(", "    if any(len(s) >= 1 for s in new_ranking):\n        print(")], "C10.R4"),
    ("fallback re-breaks with same rule", [(UT, "            new_ranking, profile=profile, tiebreak=\"random\"", "            new_ranking, profile=profile, tiebreak=tiebreak")], "C10.R4"),
    ("selector split points differ", [(UT, "                remaining = list(tiebroken_ranking[(m - num_elected) :])", "                remaining = list(tiebroken_ranking[(m - num_elected + 1) :])")], "C10.R5"),
    ("selector forgets to take the tied group out", [(UT, "                elected.pop(-1)\n", "")], "C10.R5"),
    ("selector remaining skips a group", [(UT, "                    remaining += list(ranking[(i + 1) :])", "                    remaining += list(ranking[(i + 2) :])")], "C10.R5"),
    ("tiebroken_ranking does not record", [(UT, "            tied_dict[s] = tiebroken\n", "")], "C10.R4"),
]
BENIGN = [
    ("selector start values in one assignment", [(UT, "    num_elected = 0\n    elected = []\n    i = 0\n", "    num_elected, elected, i = 0, [], 0\n")]),
    ("tie test flipped", [(STV, "            if len(lowest_fpv_cands) > 1:\n                tiebroken_ranking = tiebreak_set(", "            if 1 < len(lowest_fpv_cands):\n                tiebroken_ranking = tiebreak_set(")]),
]

# the selector re-arranged as "test first, append only what fits" (as three independent clean-ups did): same iteration table
_SEL_REGION = ("    while num_elected < m:\n", "    return (tuple(elected), ranking[i:], tiebreak_ranking)")
_SEL_TEST_FIRST = """    while num_elected < m:
        if num_elected + len(ranking[i]) %s m:
            elected.append(ranking[i])
            num_elected += len(ranking[i])
            i += 1
            continue
        if not tiebreak:
            raise ValueError("Cannot elect correct number of candidates without breaking ties.")
        tiebroken_ranking = tiebreak_set(ranking[i], profile, tiebreak)
        elected += tiebroken_ranking[: (m - num_elected%s)]
        remaining = list(tiebroken_ranking[(m - num_elected) :])
        if i < len(ranking):
            remaining += list(ranking[(i + 1) :])
        return (tuple(elected), tuple(remaining), (ranking[i], tiebroken_ranking))

"""
FAULTS += [
    ("test-first selector, one seat too many from the resolution", [(UT, _SEL_REGION, _SEL_TEST_FIRST % ("<=", " + 1"))], "C10.R5"),
]
BENIGN += [
    ("test-first selector", [(UT, _SEL_REGION, _SEL_TEST_FIRST % ("<=", ""))]),
]

# which branch of tiebreak_set serves which code (dispatch clause of C10.R4)
_TB_ELIF = '    elif (tiebreak == "first_place" or tiebreak == "borda") and profile:\n'
FAULTS += [
    ("first_place tiebreak cut off by the branch condition", [(UT, _TB_ELIF, '    elif (tiebreak != "first_place" or tiebreak == "borda") and profile:\n')], "C10.R4"),
    ("scored branch needs both codes at once", [(UT, _TB_ELIF, '    elif (tiebreak == "first_place" and tiebreak == "borda") and profile:\n')], "C10.R4"),
    ("any code is served once a profile is given", [(UT, _TB_ELIF, '    elif (tiebreak == "first_place" or tiebreak == "borda") or profile:\n')], "C10.R4"),
]
BENIGN += [
    ("scored codes tested by membership", [(UT, _TB_ELIF, '    elif tiebreak in ("first_place", "borda") and profile:\n')]),
    ("scored codes tested by membership, profile compared with None", [(UT, _TB_ELIF, '    elif profile is not None and tiebreak in ["borda", "first_place"]:\n')]),
    ("inner choice of the score by the other code", [(UT, '        if tiebreak == "borda":\n            tiebreak_scores = borda_scores(profile)\n        else:\n            tiebreak_scores = first_place_votes(profile)\n',
                                                     '        if tiebreak == "first_place":\n            tiebreak_scores = first_place_votes(profile)\n        else:\n            tiebreak_scores = borda_scores(profile)\n')]),
]

FAULTS += [
    ("scored tiebreak asks for float scores", [(UT, "            tiebreak_scores = borda_scores(profile)\n", "            tiebreak_scores = borda_scores(profile, to_float=True)\n")], "C10.R4"),
]
BENIGN += [
    ("scored tiebreak spells the exact request out", [(UT, "            tiebreak_scores = borda_scores(profile)\n", "            tiebreak_scores = borda_scores(profile, to_float=False)\n")]),
]
