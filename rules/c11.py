"""C11 — ballots and profiles: exact, immutable, condense/compare by content (DESIGN §5/C11)."""
from __future__ import annotations

import ast
import re

from vk import astx, numkind
from vk.report import shape_rule
from vk.algebra import Normalizer, bool_key, literals, simplify, atoms_of
from vk.loader import AnalysisError
from rules import c03

EXPLANATION = (
    "Declaration, who-may-call, validator-shape, derived-field and eq/hash-contract rules over Ballot "
    "and PreferenceProfile. Decides: both classes are frozen pydantic dataclasses; object.__setattr__ "
    "is used only on `self` inside after-validators of PreferenceProfile and nothing else in the "
    "package stores to a field of either class; `weight` and `scores` have before-validators that "
    "return Fraction(x).limit_denominator() (default bound), reject non-numeric scores with TypeError "
    "and drop zero scores; num_ballots / total_ballot_wt / candidates_cast / default candidates are "
    "computed from the ballots by the documented formulas; duplicate candidates raise ValueError; "
    "for Ballot objects used as dict keys (condense_ballots, to_ballot_dict) every field the key "
    "objects can carry is compared unconditionally or under a guard symmetric in self/other, and "
    "__hash__ uses only unconditionally compared fields; condense accumulates += weight per key "
    "and rebuilds with the accumulated weight and the same candidates; __add__ concatenates the "
    "ballot tuples. Does NOT decide idempotence / conservation on all multisets."
)
ASSUMPTIONS = ["pydantic runs mode='before' field validators and mode='after' model validators on construction of a frozen dataclass (trusted)",
               "Fraction.limit_denominator() default bound is 10**6 (trusted)"]
TRUSTED = ["pydantic.dataclasses.dataclass(frozen=True)", "fractions.Fraction.limit_denominator"]

FIELDS = {"Ballot": ["ranking", "weight", "voter_set", "id", "scores"],
          "PreferenceProfile": ["ballots", "candidates", "df", "candidates_cast", "num_ballots", "total_ballot_wt"]}


def _decos(node):
    return [astx.u(d) for d in node.decorator_list]


def _fields(cls):
    return [n.target.id for n in cls.node.body if isinstance(n, ast.AnnAssign) and isinstance(n.target, ast.Name)]


def r1_frozen(ctx):
    prog = ctx.prog
    for cname in ("Ballot", "PreferenceProfile"):
        cls = prog.find_class(cname)
        d = cls.node.decorator_list
        good = False
        for x in d:
            if isinstance(x, ast.Call) and prog.resolve_expr(cls.module, x.func) == "pydantic.dataclasses.dataclass":
                kw = {k.arg: k.value for k in x.keywords}
                good = astx.is_const(kw.get("frozen"), True)
        ctx.check(good, None, None, f"{cname} is a frozen pydantic dataclass", str(_decos(cls.node)), f"{cname} is decorated {_decos(cls.node)}; documented frozen=True")
        ctx.check(_fields(cls) == FIELDS[cname], None, None, f"{cname} fields", str(_fields(cls)), f"{cname} declares fields {_fields(cls)}; the rules know {FIELDS[cname]}")
    # object.__setattr__ sites
    pp = prog.find_class("PreferenceProfile")
    n = 0
    for f in prog.iter_functions():
        for node in astx.walk_all(f.node):
            if isinstance(node, ast.Call) and isinstance(node.func, ast.Attribute) and node.func.attr == "__setattr__":
                n += 1
                in_after = f.cls is pp and any(re.match(r"model_validator\(mode=['\"]after['\"]\)", x) for x in _decos(f.node))
                on_self = bool(node.args) and astx.is_name(node.args[0], "self") and astx.u(node.func.value) == "object"
                fld = node.args[1].value if len(node.args) > 1 and isinstance(node.args[1], ast.Constant) else None
                derived = fld in ("candidates_cast", "candidates", "num_ballots", "total_ballot_wt", "df")
                ctx.check(in_after and on_self and derived, f, node, f"object.__setattr__(self, {fld!r}) inside an after-validator of PreferenceProfile", f.short,
                          f"{f.short} calls {astx.u(node)[:70]}: frozen state may only be completed by PreferenceProfile's own after-validators, on derived fields")
    if n < 5:
        ctx.violated(None, None, "derived-field setters", f"{n} object.__setattr__ sites; 5 derived fields are expected to be completed by validators")
    # no store to a field of either class anywhere else
    all_fields = set(FIELDS["Ballot"]) | set(FIELDS["PreferenceProfile"])
    for f in prog.iter_functions():
        if isinstance(f.node, ast.Lambda):
            continue
        for node in astx.walk_own(f.node):
            if isinstance(node, ast.Attribute) and isinstance(node.ctx, (ast.Store, ast.Del)) and node.attr in all_fields:
                base = astx.u(node.value)
                own_cls = f.cls.name if f.cls else None
                if base == "self" and own_cls not in ("Ballot", "PreferenceProfile"):
                    continue  # another class's attribute of the same name
                ctx.violated(f, node, f"store to .{node.attr} of a ballot/profile value", f"`{astx.u(node)}` is assigned in {f.short}; ballots and profiles are immutable")
    ctx.ok(None, None, "no other store to ballot/profile fields", "")


def _validator(prog, cls, field, mode):
    for m in cls.methods.values():
        for d in m.node.decorator_list:
            if isinstance(d, ast.Call) and astx.call_name(d) == "field_validator" and d.args and astx.is_const(d.args[0], field):
                kw = {k.arg: k.value for k in d.keywords}
                if mode is None or astx.is_const(kw.get("mode"), mode):
                    return m
    return None


def r2_validators(ctx):
    prog = ctx.prog
    cls = prog.find_class("Ballot")
    ann = {n.target.id: (astx.u(n.annotation), astx.u(n.value) if n.value is not None else None) for n in cls.node.body if isinstance(n, ast.AnnAssign)}
    ctx.check(ann.get("weight") == ("Fraction", "Fraction(1, 1)") or ann.get("weight") == ("Fraction", "Fraction(1)"), None, None,
              "Ballot.weight: Fraction = 1", str(ann.get("weight")), f"weight field is declared {ann.get('weight')}")
    ctx.check(ann.get("scores", ("", ""))[0] == "Optional[dict[str, Fraction]]", None, None, "Ballot.scores: Optional[dict[str, Fraction]]", str(ann.get("scores")),
              f"scores field is declared {ann.get('scores')}")
    # weight
    w = _validator(prog, cls, "weight", "before")
    if w is None:
        ctx.violated(None, None, "before-validator for weight", "no @field_validator('weight', mode='before') on Ballot")
    else:
        p = w.params[-1]
        pm = astx.parents(w.node)
        N = Normalizer(w.node, inline=False)
        conv = [st for st, dv in astx.defs_of(w.node, p) if dv is not None]
        rc = astx.return_cases(w.node, N, pm)
        good = rc == {f"not truthy(isinstance({p}, Fraction))": f"Fraction({p}).limit_denominator()", f"truthy(isinstance({p}, Fraction))": p}
        ctx.check(good, w, conv[0] if conv else w.node, "weight -> Fraction(w).limit_denominator() unless already a Fraction", str(rc),
                  "the weight validator no longer converts with Fraction(x).limit_denominator() (default bound) / returns the value")
    # scores
    s = _validator(prog, cls, "scores", "before")
    if s is None:
        ctx.violated(None, None, "before-validator for scores", "no @field_validator('scores', mode='before') on Ballot")
        return
    p = s.params[-1]
    pm = astx.parents(s.node)
    N = Normalizer(s.node, inline=False)
    rs = astx.raises_in(s.node)
    good = len(rs) == 1 and astx.raise_type(rs[0]) == "TypeError"
    if good:
        k = bool_key(N.conj(astx.path_condition(s.node, rs[0], pm)))
        good = "isinstance(_b0, float)" in k and "isinstance(_b0, Fraction)" in k and "isinstance(_b0, int)" in k and f"for _b0 in {p}.values()" in k
    ctx.check(good, s, rs[0] if rs else s.node, "non-numeric score values raise TypeError", "", "the numeric-type check of scores changed")
    comps = [n for n in astx.walk_own(s.node) if isinstance(n, ast.DictComp)]
    good = False
    d = ""
    if len(comps) == 1:
        c = comps[0]
        g = c.generators[0]
        if isinstance(g.target, ast.Tuple) and len(g.target.elts) == 2:
            kname, vname = [astx.u(x) for x in g.target.elts]
            filt = [bool_key(Normalizer(None, inline=False).guard(t)) for t in g.ifs]
            d = f"{{{astx.u(c.key)}: {astx.u(c.value)} ... if {filt}}}"
            good = astx.u(c.key) == kname and astx.u(c.value) == f"Fraction({vname}).limit_denominator()" and astx.u(g.iter) == f"{p}.items()" \
                and filt == [f"not eq({vname}, 0)"]
    ctx.check(good, s, comps[0] if comps else s.node, "scores -> {c: Fraction(s).limit_denominator()} keeping s iff s != 0", d, f"scores conversion is `{d}`")
    rets = [n for n in astx.walk_own(s.node) if isinstance(n, ast.Return)]
    none_ret = [r for r in rets if astx.is_const(r.value, None) and f"not truthy({p})" in literals(N.conj(astx.path_condition(s.node, r, pm)))]
    ctx.check(len(none_ret) == 1, s, s.node, "empty / missing scores become None", "", "falsy scores are no longer normalised to None")
    for f in (w, s):
        if f is not None:
            ev = numkind.exactness_events(prog, f)
            ctx.check(not ev, f, ev[0].node if ev else f.node, f"{f.name}: no library-created float", "", ev[0].detail if ev else "")


def _setattr_value(f, field):
    for node in astx.walk_own(f.node):
        if isinstance(node, ast.Call) and isinstance(node.func, ast.Attribute) and node.func.attr == "__setattr__" and len(node.args) == 3 \
                and astx.is_const(node.args[1], field):
            return node, node.args[2]
    return None, None


def r3_derived(ctx):
    prog = ctx.prog
    pp = prog.find_class("PreferenceProfile")
    by_field = {}
    for m in pp.methods.values():
        for fld in FIELDS["PreferenceProfile"]:
            node, val = _setattr_value(m, fld)
            if node is not None:
                by_field.setdefault(fld, []).append((m, node, val))
    # num_ballots
    m, node, val = by_field.get("num_ballots", [(None, None, None)])[0]
    ctx.check(val is not None and astx.u(val) == "len(self.ballots)", m, node, "num_ballots = len(ballots)", astx.u(val) if val is not None else "", "num_ballots is not len(self.ballots)")
    # total weight
    m, node, val = by_field.get("total_ballot_wt", [(None, None, None)])[0]
    good = False
    if m is not None and val is not None:
        from vk import listform
        sm = listform.sum_of(m.node, val)
        start_ok = True
        if sm is not None and isinstance(sm.node, ast.Call) and len(sm.node.args) == 1:
            start_ok = False  # sum(...) without a Fraction start value is the int 0 for an empty profile
        if sm is not None and isinstance(sm.node, ast.AugAssign):
            init = [dv for st_, dv in astx.defs_of(m.node, val.id) if dv is not None] if isinstance(val, ast.Name) else []
            start_ok = len(init) == 1 and astx.u(init[0]) in ("Fraction(0)", "Fraction(0, 1)")
        good = sm is not None and not sm.conditional and start_ok and astx.u(sm.iter) == "self.ballots" and astx.u(sm.elt) == f"{sm.var}.weight"
    ctx.check(good, m, node, "total_ballot_wt = sum of weights from Fraction(0), every ballot", "", "total_ballot_wt is not the exact sum of all ballot weights")
    # candidates_cast
    items = by_field.get("candidates_cast", [])
    good = False
    if items:
        m, node, val = items[0]
        v = astx.u(astx.strip_wrappers(val))
        pm = astx.parents(m.node)
        N = Normalizer(m.node, inline=False)
        ups = [c for c in astx.calls_in(m.node, "update") if astx.u(c.func.value) == v]
        srcs = set()
        okg = True
        for c in ups:
            lits = literals(N.conj(astx.path_condition(m.node, c, pm)))
            lp = astx.enclosing(c, pm, ast.For)
            b = astx.u(lp.target) if lp is not None else "?"
            okg = okg and f"not le({b}.weight, 0)" in lits and lp is not None and astx.u(lp.iter) == "self.ballots"
            srcs.add(astx.u(c.args[0]).replace(b, "b"))
        good = okg and srcs == {"*b.ranking", "b.scores.keys()"}
    ctx.check(good, items[0][0] if items else None, items[0][1] if items else None, "candidates_cast = ranking and score keys of ballots with weight > 0", "",
              "candidates_cast is not collected from rankings and score keys of positive-weight ballots")
    items = by_field.get("candidates", [])
    good = False
    if items:
        m, node, val = items[0]
        lits = literals(Normalizer(m.node, inline=False).conj(astx.path_condition(m.node, node, astx.parents(m.node))))
        cc = by_field.get("candidates_cast", [(None, None, None)])[0][2]
        good = lits == {"not truthy(self.candidates)"} and cc is not None and astx.u(val) == astx.u(cc)
    ctx.check(good, items[0][0] if items else None, items[0][1] if items else None, "candidates default to candidates_cast only when none are given", "",
              "the default candidate tuple is not candidates_cast-when-empty")
    for m in pp.methods.values():
        if any("model_validator" in x for x in _decos(m.node)):
            rets = [n for n in astx.walk_own(m.node) if isinstance(n, ast.Return)]
            ctx.check(len(rets) >= 1 and all(astx.is_name(r.value, "self") for r in rets), m, m.node, f"{m.name} returns self", "", "an after-validator does not return self")


def _key_ballot_fields(prog):
    """Fields that Ballot objects used as dict keys may carry (kwargs of their constructors)."""
    out = set()
    sites = []
    pp = prog.find_class("PreferenceProfile")
    for m in pp.methods.values():
        for node in astx.walk_own(m.node):
            key = None
            if isinstance(node, ast.Subscript) and isinstance(node.slice, ast.Name):
                key = node.slice
            if isinstance(node, ast.Compare) and isinstance(node.ops[0], (ast.In, ast.NotIn)) and isinstance(node.left, ast.Name):
                key = node.left
            if key is None:
                continue
            for st, dv in astx.defs_of(m.node, key.id):
                cands = [dv] if not isinstance(dv, ast.IfExp) else [dv.body, dv.orelse]
                for c in cands:
                    if isinstance(c, ast.Call) and astx.call_name(c) == "Ballot":
                        out.update(k.arg for k in c.keywords)
                        sites.append((m, node))
    return out, sites


def r5_eq_hash(ctx):
    prog = ctx.prog
    cls = prog.find_class("Ballot")
    eq = cls.methods.get("__eq__")
    hs = cls.methods.get("__hash__")
    if eq is None or hs is None:
        ctx.violated(None, None, "Ballot defines __eq__ and __hash__", "missing: a frozen dataclass without them would hash by all fields including dict-valued ones")
        return
    key_fields, sites = _key_ballot_fields(prog)
    ctx.note(f"R5: Ballot used as key at {len(sites)} sites; key objects carry fields {sorted(key_fields)}")
    if len(sites) < 2:
        ctx.vanished("Ballot-keyed dict sites in PreferenceProfile")
    other = eq.params[1]
    pm = astx.parents(eq.node)
    N = Normalizer(eq.node, inline=False)
    compared = {}
    for node in astx.walk_own(eq.node):
        if isinstance(node, ast.Compare) and isinstance(node.ops[0], (ast.NotEq, ast.Eq)):
            l, r = astx.u(node.left), astx.u(node.comparators[0])
            if l.startswith(other + "."):
                l, r = r, l
            m1 = re.fullmatch(r"self\.(\w+)", l)
            m2 = re.fullmatch(rf"{other}\.(\w+)", r)
            if m1 and m2 and m1.group(1) == m2.group(1):
                fld = m1.group(1)
                conds = [c for c in astx.path_condition(eq.node, node, pm) if "isinstance" not in astx.u(c[0])]
                lits = {l_ for l_ in literals(N.conj(conds)) if not re.fullmatch(r"(not )?eq\(.*\)", l_)}
                asym = [l_ for l_ in lits if ("self." in l_) != (f"{other}." in l_)]
                compared[fld] = (node, lits, asym)
    for fld in FIELDS["Ballot"]:
        if fld not in compared:
            if fld in key_fields:
                ctx.violated(eq, eq.node, f"Ballot.__eq__ does not compare `{fld}`", "key objects that differ in this field would collapse")
            continue
        node, lits, asym = compared[fld]
        if fld in key_fields and fld != "weight":
            ctx.check(not asym, eq, node, f"Ballot.__eq__ compares `{fld}` symmetrically", f"guards: {sorted(lits) or 'none'}",
                      f"`{fld}` is compared only under {sorted(asym)}: a == b can differ from b == a, and Ballot-keyed dictionaries "
                      f"(condense_ballots, to_ballot_dict) then merge by insertion order")
        else:
            ctx.ok(eq, node, f"Ballot.__eq__ compares `{fld}`" + (" (not carried by key objects)" if fld not in key_fields else ""), f"guards: {sorted(lits) or 'none'}")
    # polarity: a differing field makes the ballots unequal (return False under `self.f != other.f`), equal fields fall through to True
    rets = [r for r in astx.walk_own(eq.node) if isinstance(r, ast.Return)]
    false_lits = [literals(N.conj(astx.path_condition(eq.node, r, pm, carried=False))) for r in rets if astx.is_const(r.value, False)]
    # (the canonical form folds a closing `if self.f != other.f: return False` / `return True` into `return self.f == other.f`)
    last = eq.node.body[-1]
    folded = None
    if isinstance(last, ast.Return) and isinstance(last.value, ast.Compare) and len(last.value.ops) == 1 and isinstance(last.value.ops[0], ast.Eq):
        sides = {astx.u(last.value.left), astx.u(last.value.comparators[0])}
        for fld in compared:
            if sides == {f"self.{fld}", f"{other}.{fld}"}:
                folded = fld
                false_lits.append({f"not eq(self.{fld}, {other}.{fld})"})
    for fld in compared:
        want = {f"not eq(self.{fld}, {other}.{fld})", f"not eq({other}.{fld}, self.{fld})"}
        ctx.check_shape(any(l & want for l in false_lits), eq, compared[fld][0], f"Ballot.__eq__: ballots that differ in `{fld}` are unequal", "",
                        f"no `return False` is taken when self.{fld} != {other}.{fld} (the comparison of `{fld}` decides the wrong way round or nothing)")
    ctx.check_shape((folded is not None or (isinstance(last, ast.Return) and astx.is_const(last.value, True))) and not any(astx.is_const(r.value, True) for r in rets if r is not last), eq, last,
                    "Ballot.__eq__: ballots that agree in every compared field are equal", "", "the fall-through result of __eq__ is not True (or True is returned early)")
    # hash uses only unconditionally compared fields
    used = {m.group(1) for m in re.finditer(r"self\.(\w+)", astx.u(hs.node))}
    uncond = {f for f, (n, lits, asym) in compared.items() if not lits}
    ctx.check(used <= uncond and bool(used), hs, hs.node, "__hash__ uses only fields that __eq__ compares unconditionally", f"hash over {sorted(used)}",
              f"__hash__ uses {sorted(used)} but only {sorted(uncond)} are compared unconditionally: equal ballots could hash differently")
    # ... and reads unordered (dict / set valued) fields only through an order-free view: __eq__ compares them as
    # mappings / sets, so hashing tuple(d.items()) or list(s) makes equal ballots hash by insertion order
    unordered = set()
    for st in cls.node.body:
        if isinstance(st, ast.AnnAssign) and isinstance(st.target, ast.Name) and re.search(r"\b(dict|Dict|set|Set|Mapping)\b", astx.u(st.annotation)):
            unordered.add(st.target.id)
    hpm = astx.parents(hs.node)
    bad = []
    for n in astx.walk_own(hs.node):
        if isinstance(n, ast.Attribute) and astx.is_name(n.value, "self") and n.attr in unordered and isinstance(n.ctx, ast.Load):
            cur, free = n, False
            while cur in hpm and not isinstance(cur, ast.stmt):
                cur = hpm[cur]
                if isinstance(cur, ast.Call) and astx.u(cur.func) in ("frozenset", "sorted", "len", "bool", "sum"):
                    free = True
                    break
                if isinstance(cur, (ast.If, ast.IfExp)) and any(x is n for x in ast.walk(cur.test)):
                    free = True  # only its truthiness is consulted here
                    break
            if not free:
                bad.append(n)
    ctx.check(not bad, hs, bad[0] if bad else hs.node, "__hash__ reads dict/set-valued fields only through frozenset(...)/sorted(...)", f"unordered fields: {sorted(unordered)}",
              f"`{astx.u(astx.stmt_of(bad[0], hpm))[:90] if bad else ''}`: `self.{bad[0].attr if bad else ''}` is hashed in its insertion order, but __eq__ ignores that order")
    rets = [n for n in astx.walk_own(eq.node) if isinstance(n, ast.Return)]
    ctx.check(any(not astx.is_const(r.value, False) for r in rets) and any(
                  literals(N.conj(astx.path_condition(eq.node, r, pm, carried=False))) == {f"not truthy(isinstance({other}, Ballot))"} for r in rets if astx.is_const(r.value, False)), eq, eq.node,
              "non-Ballot operands compare unequal", "", "type check of __eq__ changed")


def index_cursor_problems(f):
    """`L[i] = value` inside a loop, with i a counter of its own (not the loop variable): the counter must start at 0, be
    advanced by exactly one as a statement of the loop body after the stores, on every iteration, and nowhere else.  Returns
    [(node, message)] for the counters that are not (a list built with append or a comprehension has no such counter)."""
    pm = astx.parents(f.node)
    out = []
    seen = set()
    for st in astx.walk_own(f.node):
        if not (isinstance(st, ast.Assign) and len(st.targets) == 1 and isinstance(st.targets[0], ast.Subscript) and isinstance(st.targets[0].slice, ast.Name)
                and isinstance(st.targets[0].value, ast.Name)):
            continue
        i = st.targets[0].slice.id
        cont = astx.unique_def(f.node, st.targets[0].value.id)
        if not (isinstance(cont, ast.BinOp) and isinstance(cont.op, ast.Mult) and (isinstance(cont.left, ast.List) or isinstance(cont.right, ast.List))):
            continue   # not a pre-sized list (a dictionary keyed by a name, a list indexed by the loop variable, ...)
        lp = astx.enclosing(st, pm, ast.For)
        if lp is None or i in astx.assigned_names(lp.target) or (i, id(lp)) in seen:
            continue
        seen.add((i, id(lp)))
        stores = [n for n in astx.walk_own(lp) if isinstance(n, ast.Assign) and isinstance(n.targets[0], ast.Subscript) and astx.is_name(n.targets[0].slice, i)]
        top = {id(b): k for k, b in enumerate(lp.body)}

        def top_index(n):
            while n is not None and id(n) not in top:
                n = pm.get(n)
            return top.get(id(n), -1)
        last_store = max(top_index(n) for n in stores)
        advances = [b for b in lp.body if (isinstance(b, ast.AugAssign) and astx.is_name(b.target, i) and isinstance(b.op, ast.Add) and astx.is_const(b.value, 1))
                    or (isinstance(b, ast.Assign) and astx.is_name(b.targets[0], i) and astx.u(b.value) in (f"{i} + 1", f"1 + {i}"))]
        others = [n for n in astx.walk_own(lp) if isinstance(n, (ast.Assign, ast.AugAssign)) and astx.is_name(n.targets[0] if isinstance(n, ast.Assign) else n.target, i) and n not in advances]
        inits = [dv for s_, dv in astx.defs_of(f.node, i) if dv is not None and astx.enclosing(s_, pm, ast.For) is not lp]
        if len(advances) != 1 or others or top.get(id(advances[0]), -1) < last_store:
            out.append((st, f"the cursor `{i}` of `{astx.u(st.targets[0])}` is not advanced by exactly one after each store (advances in the loop body: {len(advances)}, other writes: {len(others)}): "
                            "entries overwrite each other or leave the pre-filled placeholder behind"))
        elif not (len(inits) == 1 and astx.is_const(inits[0], 0)):
            out.append((st, f"the cursor `{i}` of `{astx.u(st.targets[0])}` does not start at 0"))
    return out


def r6_condense_add(ctx):
    prog = ctx.prog
    f = prog.find_func("PreferenceProfile.condense_ballots")
    # accumulator (shared with C03.R5)
    sub = type(ctx)(prog, ctx.prop, ctx.tier)
    c03.r5_weight_provenance(sub)
    for o in sub.obs:
        if "condense" in o.construct or o.function.endswith("condense_ballots"):
            o.rule = "C11.R6"
            ctx.obs.append(o)
    pm = astx.parents(f.node)
    # key = (ranking, scores) content with weight 0
    key_defs = []
    from vk import accum
    accs = [a for a in accum.accumulations(f.node) if isinstance(a.key, ast.Name)]
    for a in accs:
        key_defs = [dv for st, dv in astx.defs_of(f.node, a.key.id)]
        lp = astx.enclosing(a.node, pm, ast.For)
        ctx.check(lp is not None and astx.u(lp.iter) == "self.ballots" and not a.conditional and not [x for x in ast.walk(lp) if isinstance(x, (ast.Break, ast.Continue))], f, a.node,
                  "every ballot's weight is added to its key, unconditionally", "", "the accumulation is conditional or does not cover all ballots")
    good = False
    acc = [a.node for a in accs]
    if acc:
        keyname = accs[0].key.id
        lp = astx.enclosing(acc[0], pm, ast.For)
        b = astx.u(lp.target) if lp is not None else "?"
        Nk = Normalizer(f.node, inline=False)
        cases = astx.value_cases(f.node, keyname, acc[0], pm)

        def kws(c):
            return {k.arg: astx.u(k.value) for k in c.keywords} if isinstance(c, ast.Call) and astx.call_name(c) == "Ballot" and not c.args else None
        if cases is not None:
            got = {bool_key(Nk.conj(c)): kws(v) for c, v in cases}
            good = got == {f"truthy({b}.scores)": {"ranking": f"{b}.ranking", "weight": "Fraction(0)", "scores": f"{b}.scores"},
                           f"not truthy({b}.scores)": {"ranking": f"{b}.ranking", "weight": "Fraction(0)"}}
    ctx.check(good, f, key_defs[0] if key_defs else f.node, "condense key = (ranking, scores) of the ballot with weight 0", "", "the condense key no longer consists of the ballot's ranking and scores only")
    # rebuild
    rebuilt = [c for c in astx.calls_in(f.node, "Ballot") if any(k.arg == "weight" and isinstance(k.value, ast.Name) for k in c.keywords)]
    good = len(rebuilt) == 2
    for c in rebuilt:
        kw = {k.arg: astx.u(k.value) for k in c.keywords}
        lp = astx.enclosing(c, pm, ast.For)
        if lp is None:
            # ... or the generator of the comprehension that rebuilds the ballots
            cur = c
            while cur in pm and not isinstance(cur, astx.LCOMP):
                cur = pm[cur]
            lp = cur.generators[0] if isinstance(cur, astx.LCOMP) and len(cur.generators) == 1 and not cur.generators[0].ifs else None
        if lp is None or not isinstance(lp.target, ast.Tuple):
            good = False
            continue
        kb, kwt = [astx.u(x) for x in lp.target.elts]
        good = good and kw.get("ranking") == f"{kb}.ranking" and kw.get("weight") == kwt and kw.get("scores", f"{kb}.scores") == f"{kb}.scores" \
            and astx.u(lp.iter).endswith(".items()")
    ctx.check(good, f, rebuilt[0] if rebuilt else f.node, "one ballot per key, carrying the accumulated weight", "", "condensed ballots are not rebuilt from (key content, accumulated weight)")
    # ... each at a place of its own: a list filled through an index cursor advances the cursor once per key
    for why in index_cursor_problems(f):
        ctx.violated(f, why[0], "one ballot per key, carrying the accumulated weight", why[1])
    pc = [c for c in astx.calls_in(f.node, "PreferenceProfile")]
    good = len(pc) == 1 and {k.arg: astx.u(k.value) for k in pc[0].keywords}.get("candidates") == "self.candidates"
    ctx.check(good, f, pc[0] if pc else f.node, "condensed profile keeps the same candidates", "", "condense_ballots does not pass self.candidates on")
    # __add__
    f = prog.find_func("PreferenceProfile.__add__")
    other = f.params[1]
    defs = astx.single_assignments(f.node)
    rets = [n for n in astx.walk_own(f.node) if isinstance(n, ast.Return)]
    good = defs.get("ballots") == f"self.ballots + {other}.ballots" and any(v == "PreferenceProfile(ballots=ballots)" for v in defs.values()) and len(rets) == 1
    # (the concatenation may be handed over directly)
    good = good or (any(v == f"PreferenceProfile(ballots=self.ballots + {other}.ballots)" for v in defs.values()) and len(rets) == 1)
    ctx.check(good, f, f.node, "__add__ builds a profile from the concatenated ballot tuples", str(defs), f"__add__ does {defs}")
    rs = astx.raises_in(f.node)
    ctx.check(len(rs) == 1 and astx.raise_type(rs[0]) == "TypeError", f, f.node, "adding a non-profile raises TypeError", "", "__add__ type check changed")
    # __eq__ of profiles: condense both, mutual containment
    f = prog.find_func("PreferenceProfile.__eq__")
    other = f.params[1]
    defs = astx.single_assignments(f.node)
    loops = [n for n in astx.walk_own(f.node) if isinstance(n, ast.For)]
    good = sorted(defs.values()) == sorted(["self.condense_ballots()", f"{other}.condense_ballots()"]) and len(loops) == 2
    if good:
        names = {v: k for k, v in defs.items()}
        a, b = names["self.condense_ballots()"], names[f"{other}.condense_ballots()"]
        pairs = set()
        for lp in loops:
            t = [x for x in lp.body if isinstance(x, ast.If)]
            if len(t) == 1 and isinstance(t[0].test, ast.Compare) and isinstance(t[0].test.ops[0], ast.NotIn) and isinstance(t[0].body[0], ast.Return) and astx.is_const(t[0].body[0].value, False):
                pairs.add((astx.u(lp.iter), astx.u(t[0].test.comparators[0])))
        good = pairs == {(f"{a}.ballots", f"{b}.ballots"), (f"{b}.ballots", f"{a}.ballots")}
    if not good and not loops:
        # the same two containments as  all(x in B for x in A) and all(x in A for x in B)
        def resolved(e):
            if isinstance(e, ast.Name):
                dv = astx.unique_def(f.node, e.id)
                return astx.u(dv) if dv is not None else e.id
            if isinstance(e, ast.Attribute) and isinstance(e.value, ast.Name):
                dv = astx.unique_def(f.node, e.value.id)
                return (astx.u(dv) if dv is not None else e.value.id) + "." + e.attr
            return astx.u(e)
        rets_ = [n for n in astx.walk_own(f.node) if isinstance(n, ast.Return) and n.value is not None]
        last = rets_[-1].value if rets_ else None
        parts = last.values if isinstance(last, ast.BoolOp) and isinstance(last.op, ast.And) else []
        pairs = set()
        for p_ in parts:
            if isinstance(p_, ast.Call) and astx.u(p_.func) == "all" and p_.args and isinstance(p_.args[0], astx.LCOMP) and len(p_.args[0].generators) == 1 and not p_.args[0].generators[0].ifs:
                g_ = p_.args[0].generators[0]
                t_ = p_.args[0].elt
                if isinstance(t_, ast.Compare) and len(t_.ops) == 1 and isinstance(t_.ops[0], ast.In) and astx.u(t_.left) == astx.u(g_.target):
                    pairs.add((resolved(g_.iter), resolved(t_.comparators[0])))
        A_, B_ = "self.condense_ballots().ballots", f"{other}.condense_ballots().ballots"
        # every other return of the method is a type / shortcut test that returns False before the comparison
        good = len(parts) == 2 and pairs == {(A_, B_), (B_, A_)}
    ctx.check(good, f, f.node, "profiles are equal iff their condensed ballots contain each other", "", "PreferenceProfile.__eq__ is not mutual containment of condensed ballots")
    pmq = astx.parents(f.node)
    Nq = Normalizer(f.node, inline=False)
    rets = [r for r in astx.walk_own(f.node) if isinstance(r, ast.Return)]
    tguard = any(astx.is_const(r.value, False) and literals(Nq.conj(astx.path_condition(f.node, r, pmq, carried=False))) == {f"not truthy(isinstance({other}, PreferenceProfile))"} for r in rets)
    ctx.check_shape(tguard, f, f.node, "a profile is unequal to anything that is not a profile (and only that is decided by the type test)", "",
                    "the type test of PreferenceProfile.__eq__ no longer returns False for exactly the non-profiles")


def r7_dict_views(ctx):
    """to_ballot_dict / to_ranking_dict / to_scores_dict: every ballot's weight lands under its content key."""
    prog = ctx.prog
    for name, keyform in (("to_ballot_dict", "ballot"), ("to_ranking_dict", "ranking"), ("to_scores_dict", "scores")):
        f = prog.find_func(f"PreferenceProfile.{name}")
        pm = astx.parents(f.node)
        loops = [n for n in astx.walk_own(f.node) if isinstance(n, ast.For) and astx.u(n.iter) == "self.ballots"]
        if len(loops) != 1:
            ctx.violated(f, f.node, f"{name}: one pass over all ballots", f"{len(loops)} loops over self.ballots")
            continue
        lp = loops[0]
        b = astx.u(lp.target)
        no_skip = not any(isinstance(n, (ast.Continue, ast.Break, ast.Return)) for n in ast.walk(lp))
        N = Normalizer(f.node, inline=False)
        from vk import accum
        accs = [a for a in accum.accumulations(f.node, N) if astx.enclosing(a.node, pm, ast.For) is lp]
        oks = len(accs) == 1 and not accs[0].conditional
        key = astx.u(accs[0].key) if accs else None
        wdefs = okw = okk = None
        if oks:
            a = accs[0]
            # what is added: the ballot's weight, divided by the total when standardize is set (effective value at the accumulation)
            wname = astx.u(a.inc)
            wdefs = astx.cases_dict(f.node, wname, a.node, N, pm) if isinstance(a.inc, ast.Name) else {"True": N.key(a.inc)}
            tots = {m.group(1) for v in (wdefs or {}).values() for m in [re.fullmatch(rf"{re.escape(b)}\.weight / (\w+)", v)] if m}
            tot = astx.unique_def(f.node, next(iter(tots))) if len(tots) == 1 else None
            okw = wdefs is not None and set(wdefs) == {"truthy(standardize)", "not truthy(standardize)"} and wdefs["not truthy(standardize)"] == f"{b}.weight" \
                and tot is not None and astx.u(tot) == "self.total_ballot_wt" and wdefs["truthy(standardize)"] == f"{b}.weight / {next(iter(tots))}"
            # the first value stored under a new key is that same increment (the sum starts at zero)
            oks = a.first == a.inc_key
            # the key holds the ballot's content
            kc = astx.cases_dict(f.node, key, a.node, N, pm) if isinstance(a.key, ast.Name) else None
            if keyform == "ballot":
                okk = kc is not None and list(kc.values()) == [f"Ballot(ranking={b}.ranking, scores={b}.scores)"]
            elif keyform == "ranking":
                # `r = b.ranking; if not r: r = (frozenset(),)` tests the variable that already holds b.ranking
                okk = kc in ({f"truthy({b}.ranking)": f"{b}.ranking", f"not truthy({b}.ranking)": "(frozenset(),)"},
                             {f"truthy({key})": f"{b}.ranking", f"not truthy({key})": "(frozenset(),)"})
            else:
                okk = kc == {f"truthy({b}.scores)": astx.A(f"tuple({b}.scores.items())"), f"not truthy({b}.scores)": "()"}
        ctx.check(no_skip and okw and oks and okk, f, lp, f"{name}: weight (or weight/total) of every ballot accumulates under its {keyform} key", f"key={key}, weights={wdefs}",
                  f"{name}: every ballot visited={no_skip}; weight source ok={okw} ({wdefs}); first-store / += accumulate ok={oks}; key is the ballot's {keyform} content={okk}")


RULES = [
    ("C11.R1", r1_frozen, 10, "frozen declarations; object.__setattr__ only in PreferenceProfile after-validators; no other field stores"),
    ("C11.R2", r2_validators, 8, "weight/scores before-validators convert to Fraction(x).limit_denominator(); TypeError; zero scores dropped"),
    ("C11.R3", r3_derived, 8, "num_ballots / total_ballot_wt / candidates_cast / default candidates formulas"),
    ("C11.R5", r5_eq_hash, 7, "eq/hash contract of Ballot for the fields that dict-key ballots carry"),
    ("C11.R7", r7_dict_views, 3, "to_ballot_dict / to_ranking_dict / to_scores_dict accumulate each ballot's weight under its content key"),
    ("C11.R6", r6_condense_add, 8, "condense key/accumulate/rebuild; __add__ concatenation; profile equality"),
]

BL = "src/votekit/ballot.py"
PP = "src/votekit/pref_profile.py"
UT = "src/votekit/utils.py"
FAULTS = [
    ("Ballot.__eq__ decides weight the wrong way round", [("src/votekit/ballot.py", "        if self.weight != other.weight:\n            return False", "        if self.weight == other.weight:\n            return False")], "C11.R5"),
    ("condense cursor never advances", [(PP, "                new_ballot_list[i] = Ballot(ranking=ballot.ranking, weight=weight)\n\n            i += 1\n", "                new_ballot_list[i] = Ballot(ranking=ballot.ranking, weight=weight)\n")], "C11.R6"),
    ("hash over scores in insertion order (seeded C11-r2-3)", [(BL, "        return hash(self.ranking)\n", "        return hash((self.ranking, tuple(self.scores.items()) if self.scores else None))\n")], "C11.R5"),
    ("ballot not frozen", [(BL, "@dataclass(frozen=True, config=ConfigDict(arbitrary_types_allowed=True))", "@dataclass(config=ConfigDict(arbitrary_types_allowed=True))")], "C11.R1"),
    ("setattr on a ballot in utils", [(UT, "    if isinstance(removed, str):\n        removed = [removed]\n", "    if isinstance(removed, str):\n        removed = [removed]\n    if isinstance(profile_or_ballots, Ballot):\n        object.__setattr__(profile_or_ballots, \"id\", None)\n")], "C11.R1"),
    ("weight bound 1000", [(BL, "weight = Fraction(weight).limit_denominator()", "weight = Fraction(weight).limit_denominator(1000)")], "C11.R2"),
    ("weight via float", [(BL, "weight = Fraction(weight).limit_denominator()", "weight = Fraction(float(weight)).limit_denominator()")], "C11.R2"),
    ("zero scores kept", [(BL, "c: Fraction(s).limit_denominator() for c, s in scores.items() if s != 0", "c: Fraction(s).limit_denominator() for c, s in scores.items()")], "C11.R2"),
    ("negative scores dropped", [(BL, "c: Fraction(s).limit_denominator() for c, s in scores.items() if s != 0", "c: Fraction(s).limit_denominator() for c, s in scores.items() if s > 0")], "C11.R2"),
    ("total weight skips zero-weight", [(PP, "        for ballot in self.ballots:\n            total_ballot_wt += ballot.weight", "        for ballot in self.ballots:\n            if ballot.ranking:\n                total_ballot_wt += ballot.weight")], "C11.R3"),
    ("num_ballots counts positive", [(PP, 'object.__setattr__(self, "num_ballots", len(self.ballots))', 'object.__setattr__(self, "num_ballots", len([b for b in self.ballots if b.weight > 0]))')], "C11.R3"),
    ("cast includes zero weight", [(PP, "            if ballot.weight > 0:\n                if ballot.ranking:\n                    candidates_cast.update", "            if ballot.weight >= 0:\n                if ballot.ranking:\n                    candidates_cast.update")], "C11.R3"),
    ("scores wildcard again", [(BL, "        # Check scores\n        if self.scores != other.scores:\n            return False", "        # Check scores\n        if self.scores is not None:\n            if self.scores != other.scores:\n                return False")], "C11.R5"),
    ("hash includes id", [(BL, "        return hash(self.ranking)", "        return hash((self.ranking, self.id))")], "C11.R5"),
    ("condense key drops scores", [(PP, "                Ballot(ranking=ballot.ranking, weight=Fraction(0), scores=ballot.scores)\n                if ballot.scores", "                Ballot(ranking=ballot.ranking, weight=Fraction(0))\n                if ballot.scores")], "C11.R6"),
    ("condense loses candidates", [(PP, "            ballots=tuple(new_ballot_list), candidates=self.candidates\n", "            ballots=tuple(new_ballot_list)\n")], "C11.R6"),
    ("add drops other's ballots when equal", [(PP, "            ballots = self.ballots + other.ballots\n", "            ballots = self.ballots + tuple(b for b in other.ballots if b not in self.ballots)\n")], "C11.R6"),
    ("profile eq one-sided", [(PP, "        for b in pp_2.ballots:\n            if b not in pp_1.ballots:\n                return False\n", "")], "C11.R6"),
]
FAULTS += [
    ("ranking dict overwrites instead of adding", [(PP, "            if ranking not in di.keys():\n                di[ranking] = weight\n            else:\n                di[ranking] += weight", "            if ranking not in di.keys():\n                di[ranking] = weight\n            else:\n                di[ranking] = weight")], "C11.R7"),
    ("ballot dict standardises by ballot count", [(PP, "        tot_weight = self.total_ballot_wt\n        di: dict = {}\n        for ballot in self.ballots:\n            weightless_ballot", "        tot_weight = self.num_ballots\n        di: dict = {}\n        for ballot in self.ballots:\n            weightless_ballot")], "C11.R7"),
    ("scores dict skips unscored ballots", [(PP, "            else:\n                scores = tuple()\n            if standardize:", "            else:\n                continue\n            if standardize:")], "C11.R7"),
]
BENIGN = [
    ("hash over scores through a frozenset", [(BL, "        return hash(self.ranking)\n", "        return hash((self.ranking, frozenset(self.scores.items()) if self.scores else None))\n")]),
    ("scores compare flipped", [(BL, "        if self.scores != other.scores:\n            return False", "        if not (other.scores == self.scores):\n            return False")]),
]
