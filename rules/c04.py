"""C04 — positional scores; Plurality/Borda elect the top m: structural clauses (DESIGN §5/C04)."""
from __future__ import annotations

import ast
import re

from vk import astx, numkind, facts, elect
from vk.report import shape_rule
from vk.algebra import Normalizer, bool_key, literals, spec_rat, spec_guard, NotClosedForm, equivalent
from vk.loader import AnalysisError

EXPLANATION = (
    "Exactness, formula, orientation and role rules over the scoring helpers and the single-round "
    "rules. Decides: no library-created float enters a score (int/int tie averages are flagged); the "
    "amount added for candidate c in position s is sum(vector[i:i+len(s)])/len(s) * weight and the "
    "running index advances by the same len(s), reset per ballot; first_place_votes / borda_scores / "
    "mentions pass the documented vectors and to_float through; short vectors are zero-padded to the "
    "number of candidates before scoring; score_dict_to_ranking groups by equal score and sorts the "
    "groups by score with reverse = the flag, which every rule passes as True; Plurality / Borda / "
    "rating rules / CondoBorda elect through elect_cands_from_set_ranking(prev_state.remaining, self.m, "
    "profile, tiebreak) whose prefix goes to elected= and suffix to remaining=; validate_score_vector "
    "polarity. Does NOT decide numeric equality of the totals on all inputs."
)
EXPLANATION += ' Also decided (prerequisites and later clauses): mention totals start at an exact zero for every candidate of the profile.'
ASSUMPTIONS = ["sorted() is stable ascending, reverse=True gives descending (trusted)",
               "Ballot.weight is a Fraction (C11.R2)"]
TRUSTED = ["sorted", "fractions.Fraction", "sum"]

SCORERS = ["score_profile_from_rankings", "first_place_votes", "mentions", "borda_scores", "add_missing_cands",
           "score_profile_from_ballot_scores", "score_dict_to_ranking"]


def r1_exact(ctx):
    prog = ctx.prog
    for name in SCORERS:
        f = prog.find_func(name)
        ev = numkind.exactness_events(prog, f)
        if not ev:
            ctx.ok(f, f.node, f"{name}: no library-created float reaches a score", "")
        for e in ev:
            ctx.violated(f, e.node, f"{name}: inexact value reaches an exact sink", e.detail)
    # callers' vectors may be ints: the helper must stay exact for Int elements (annotation float admits int)
    f = prog.find_func("score_profile_from_rankings")
    nk = numkind.NumKind(prog, f).run()
    vec = nk.env.get(f.params[1])
    ctx.check(vec is not None and vec.elem is not None and numkind.INT in vec.elem, f, f.node, "score vector entries may be ints (checked against Int elements)",
              repr(vec), "the analysis no longer treats score-vector entries as possibly-int; exactness check would be vacuous")


def r2_allocation(ctx):
    prog = ctx.prog
    f = prog.find_func("score_profile_from_rankings")
    pm = astx.parents(f.node)
    # loops: ballots -> positions -> members
    augs = [n for n in astx.walk_own(f.node) if isinstance(n, ast.AugAssign) and isinstance(n.target, ast.Subscript) and isinstance(n.op, ast.Add)]
    if len(augs) != 1:
        ctx.undecided(f, f.node, "allocation site", f"{len(augs)} accumulator updates; expected one")
        return
    aug = augs[0]
    loops = [l for l in astx.enclosing_loops(aug, pm, f.node) if isinstance(l, ast.For)]  # innermost first
    if len(loops) != 3:
        ctx.undecided(f, aug, "allocation site", f"accumulator update nested in {len(loops)} loops; expected ballots/positions/members")
        return
    mem_loop, pos_loop, bal_loop = loops
    c = astx.u(mem_loop.target)
    s = astx.u(pos_loop.target)
    b = astx.u(bal_loop.target)
    shape = (astx.u(mem_loop.iter) == s and astx.u(pos_loop.iter) == f"{b}.ranking" and astx.u(bal_loop.iter).endswith(".ballots")
             and astx.u(aug.target.slice) == c)
    ctx.check(shape, f, aug, "scores[c] += ... for c in position s of every ballot", f"for {b} in ballots: for {s} in {b}.ranking: for {c} in {s}",
              "the accumulation loops are not ballots -> positions -> members with scores[member] updated")
    # the running index
    idx_incs = [n for n in astx.walk_own(pos_loop) if isinstance(n, ast.AugAssign) and isinstance(n.target, ast.Name) and isinstance(n.op, ast.Add) and pm.get(n) is pos_loop]
    # (`i = i + k` and `i = k + i` are the same advance)
    for n in astx.walk_own(pos_loop):
        if isinstance(n, ast.Assign) and len(n.targets) == 1 and isinstance(n.targets[0], ast.Name) and isinstance(n.value, ast.BinOp) and isinstance(n.value.op, ast.Add) \
                and pm.get(n) is pos_loop and (astx.is_name(n.value.left, n.targets[0].id) or astx.is_name(n.value.right, n.targets[0].id)):
            other = n.value.right if astx.is_name(n.value.left, n.targets[0].id) else n.value.left
            idx_incs.append(ast.copy_location(ast.AugAssign(target=n.targets[0], op=ast.Add(), value=other), n))
    if len(idx_incs) != 1:
        ctx.violated(f, pos_loop, "running index advances once per position", f"{len(idx_incs)} index updates at position level")
        return
    idx = idx_incs[0].target.id
    vec_param = f.params[1]

    def rename(e):
        if astx.u(e) == f"{b}.weight":
            return "W"
        if isinstance(e, ast.Call) and astx.u(e.func) == "len" and e.args and astx.u(e.args[0]) == s:
            return "L"
        if isinstance(e, ast.Name) and e.id not in (idx,):
            # a running total `t = 0; for x in XS: t += E(x)` is sum(E(x) for x in XS)
            from vk import listform
            sm = listform.sum_of(f.node, e)
            if sm is not None and not sm.conditional and isinstance(sm.node, ast.AugAssign):
                try:
                    return rename(ast.parse(f"sum({astx.u(sm.elt)} for {sm.var} in {astx.u(sm.iter)})", mode="eval").body)
                except SyntaxError:
                    return None
        if isinstance(e, ast.Call) and astx.u(e.func) == "sum" and e.args:
            a = e.args[0]
            exact_entries = False
            if isinstance(a, (ast.GeneratorExp, ast.ListComp)) and len(a.generators) == 1 and not a.generators[0].ifs:
                el = a.elt
                if isinstance(el, ast.Call) and astx.u(el.func) == "Fraction" and len(el.args) == 1:
                    el = el.args[0]
                    exact_entries = True
                if astx.is_name(el, getattr(a.generators[0].target, "id", None)):
                    a = a.generators[0].iter
            if isinstance(a, ast.Name):
                a = astx.unique_def(f.node, a.id) or a
            if isinstance(a, ast.Subscript) and isinstance(a.slice, ast.Slice) and astx.is_name(a.value, vec_param):
                Nk = Normalizer(f.node, inline=True, rename=lambda x: "L" if (isinstance(x, ast.Call) and astx.u(x.func) == "len" and x.args and astx.u(x.args[0]) == s) else None,
                                int_atoms=lambda a_: True)
                lo = Nk.key(a.slice.lower) if a.slice.lower is not None else "0"
                hi = Nk.key(a.slice.upper) if a.slice.upper is not None else "?"
                if lo == idx and hi in (f"{idx} + L", f"L + {idx}") and a.slice.step is None:
                    # exact only when every entry is converted before summing (float entries are
                    # otherwise added in floating point and the rounded sum is then made a Fraction)
                    return "S" if exact_entries else "S_summed_before_conversion"
                return f"sum(vector[{lo}:{hi}])"
        return None
    N = Normalizer(f.node, inline=True, rename=rename, int_atoms=lambda a: a == "L")
    try:
        got = N.rat(aug.value)
        good = got.equals(spec_rat("S * W / L"))
        gk = got.key()
    except NotClosedForm as e:
        ctx.undecided(f, aug, "allocation formula", str(e))
        return
    ctx.check(good, f, aug, "allocation = sum(vector[i : i+len(s)]) / len(s) * weight", gk,
              f"amount added per member is `{gk}`; documented S*W/L with S = sum(vector[i : i + len(s)]), L = len(s), W = ballot weight")
    step = N.rat(idx_incs[0].value)
    ctx.check(step.equals(spec_rat("L")), f, idx_incs[0], "index advances by len(s) (slice width = step)", step.key(),
              f"index advances by `{step.key()}`; must equal the slice width len(s)")
    inits = [st for st, dv in astx.defs_of(f.node, idx) if dv is not None and astx.is_const(dv, 0)]
    ctx.check(len(inits) == 1 and pm.get(inits[0]) is bal_loop, f, inits[0] if inits else bal_loop, "index restarts at 0 for every ballot", "",
              "the running index is not reset to 0 at the start of each ballot")
    # scores initialised with exact zeros
    sc = astx.u(aug.target.value)
    dv = astx.unique_def(f.node, sc)
    ctx.check(isinstance(dv, ast.DictComp) and astx.u(dv.value) in ("Fraction(0)", "Fraction(0, 1)"), f, dv or f.node, "scores start at Fraction(0)", "",
              "score accumulator is not initialised with exact zeros")
    # to_float conversion only under the flag, at the end
    rets = [n for n in astx.walk_own(f.node) if isinstance(n, ast.Return)]
    Nn = Normalizer(f.node, inline=False)
    okret = False
    for r in rets:
        lits = literals(Nn.conj(astx.path_condition(f.node, r, pm)))
        if astx.is_name(r.value, sc):
            okret = f"not truthy({f.params[2]})" in lits or not lits
    ctx.check(okret, f, rets[-1] if rets else f.node, "exact scores are returned unless to_float is set", "", "the exact score dictionary is not what is returned when to_float is false")


def r3_special_vectors(ctx):
    prog = ctx.prog
    sp = prog.find_func("score_profile_from_rankings")
    # first_place_votes
    f = prog.find_func("first_place_votes")
    cs = astx.calls_in(f.node, "score_profile_from_rankings")
    good = False
    d = ""
    if len(cs) == 1:
        b = astx.bind_args(cs[0], sp.params)
        v = b.get(sp.params[1])
        d = astx.u(v)
        good = (isinstance(v, ast.BinOp) and isinstance(v.op, ast.Add) and isinstance(v.left, ast.List) and len(v.left.elts) == 1 and astx.is_const(v.left.elts[0], 1)
                and isinstance(v.right, ast.BinOp) and isinstance(v.right.op, ast.Mult) and isinstance(v.right.left, ast.List)
                and len(v.right.left.elts) == 1 and astx.is_const(v.right.left.elts[0], 0))
        good = good and astx.is_name(b.get(sp.params[0]), f.params[0]) and astx.is_name(b.get(sp.params[2]), f.params[1])
    ctx.check(good, f, cs[0] if cs else f.node, "first_place_votes = vector (1, 0, 0, ...) on the same profile, to_float passed through", d,
              f"first_place_votes scores with `{d}`")
    f = prog.find_func("borda_scores")
    cs = astx.calls_in(f.node, "score_profile_from_rankings")
    good = False
    d = ""
    if len(cs) == 1:
        b = astx.bind_args(cs[0], sp.params)
        v = b.get(sp.params[1])
        v = astx.unique_def(f.node, v.id) if isinstance(v, ast.Name) else v
        d = astx.u(v) if v is not None else ""
        good = d in (f"list(range(len({f.params[0]}.candidates), 0, -1))", f"range(len({f.params[0]}.candidates), 0, -1)") \
            and astx.is_name(b.get(sp.params[0]), f.params[0]) and astx.is_name(b.get(sp.params[2]), f.params[1])
    ctx.check(good, f, cs[0] if cs else f.node, "borda_scores = vector (n, n-1, ..., 1)", d, f"borda_scores scores with `{d}`")
    # Borda rule default vector
    f = prog.find_func("Borda.__init__")
    N = Normalizer(f.node, inline=False)
    pm = astx.parents(f.node)
    dflt = [st for st, dv in astx.defs_of(f.node, "score_vector") if dv is not None]
    good = len(dflt) == 1 and astx.u(dflt[0].value) == f"list(range(len({f.params[1]}.candidates), 0, -1))" and \
        "not truthy(score_vector)" in literals(N.conj(astx.path_condition(f.node, dflt[0], pm)))
    ctx.check(good, f, dflt[0] if dflt else f.node, "Borda default vector (n, ..., 1) only when none is given", "", "Borda's default score vector changed")
    kind, slot, scope = facts.score_function_slot(prog, prog.find_class("Borda"))
    good = kind == "expr" and isinstance(slot, ast.Call) and astx.call_name(slot) == "partial" and astx.u(slot.args[0]) == "score_profile_from_rankings" \
        and {k.arg: astx.u(k.value) for k in slot.keywords} == {"score_vector": "score_vector", "to_float": "False"}
    ctx.check(good, scope, slot if slot is not None else f.node, "Borda scores with score_profile_from_rankings(score_vector, exact)", astx.u(slot) if slot is not None else "",
              "Borda's score function is not partial(score_profile_from_rankings, score_vector=score_vector, to_float=False)")
    # mentions
    f = prog.find_func("mentions")
    pm = astx.parents(f.node)
    augs = [n for n in astx.walk_own(f.node) if isinstance(n, ast.AugAssign) and isinstance(n.target, ast.Subscript)]
    good = False
    if len(augs) == 1:
        loops = [l for l in astx.enclosing_loops(augs[0], pm, f.node) if isinstance(l, ast.For)]
        if len(loops) == 3:
            c, s, b = [astx.u(l.target) for l in loops]
            good = astx.u(augs[0].value) == f"{b}.weight" and astx.u(augs[0].target.slice) == c and astx.u(loops[0].iter) == s \
                and astx.u(loops[1].iter) == f"{b}.ranking" and isinstance(augs[0].op, ast.Add)
    ctx.check(good, f, augs[0] if augs else f.node, "mentions adds the ballot weight once per listed candidate", "", "mentions no longer adds weight per listed candidate")
    if len(augs) == 1 and isinstance(augs[0].target.value, ast.Name):
        dv = astx.unique_def(f.node, augs[0].target.value.id)
        zero = isinstance(dv, ast.DictComp) and astx.u(dv.value) in ("Fraction(0)", "Fraction(0, 1)", "Fraction()") and astx.u(dv.generators[0].iter).endswith(".candidates") \
            and not dv.generators[0].ifs and astx.u(dv.key) == astx.u(dv.generators[0].target)
        if isinstance(dv, ast.DictComp):
            ctx.check(zero, f, dv, "mention totals start at Fraction(0) for every candidate of the profile", "",
                      f"the mention totals start from `{astx.u(dv)[:70]}`, not from an exact zero for every candidate of the profile")
        else:
            ctx.undecided(f, dv or f.node, "mention totals start at Fraction(0) for every candidate of the profile", f"accumulator initialised by `{astx.u(dv)[:70] if dv is not None else 'more than one assignment'}`")
    # Plurality-family slots
    for cname, want in (("Plurality", "first_place_votes"), ("STV", "first_place_votes"), ("CondoBorda", "borda_scores"), ("GeneralRating", "score_profile_from_ballot_scores")):
        cls = prog.find_class(cname)
        kind, slot, scope = facts.score_function_slot(prog, cls)
        ctx.check(kind == "expr" and astx.u(slot) == want, scope or cls.lookup("__init__"), slot, f"{cname} is scored by {want}", astx.u(slot) if slot is not None else kind,
                  f"{cname} passes score_function={astx.u(slot) if slot is not None else kind}; documented {want}")


def r4_padding(ctx):
    prog = ctx.prog
    f = prog.find_func("score_profile_from_rankings")
    vec = f.params[1]
    pm = astx.parents(f.node)
    N = Normalizer(f.node, inline=True, int_atoms=lambda a: True,
                   rename=lambda e: "NC" if astx.u(e) == f"len({f.params[0]}.candidates)" else ("LV" if astx.u(e) == f"len({vec})" else None))
    pads = [st for st, dv in astx.defs_of(f.node, vec) if dv is not None]
    good = False
    d = ""
    if len(pads) == 1:
        dv = pads[0].value
        lits = literals(N.conj(astx.path_condition(f.node, pads[0], pm)))
        d = f"{astx.u(dv)} under {sorted(lits)}"
        if isinstance(dv, ast.BinOp) and isinstance(dv.op, ast.Add) and isinstance(dv.right, ast.BinOp) and isinstance(dv.right.op, ast.Mult):
            zero = dv.right.left
            cnt = dv.right.right
            good = astx.u(astx.strip_wrappers(dv.left)) == vec and isinstance(zero, ast.List) and len(zero.elts) == 1 and astx.is_const(zero.elts[0], 0)
            try:
                good = good and N.rat(cnt).equals(spec_rat("NC - LV"))
            except NotClosedForm:
                good = False
            good = good and bool_key(spec_guard("LV < NC", int_atoms=lambda a: True)) in lits
    ctx.check(good, f, pads[0] if pads else f.node, "short vector is padded with zeros to the number of candidates", d,
              f"padding is `{d}`; documented vector + [0] * (n_candidates - len(vector)) when shorter")
    # padding precedes the scoring loop; validation precedes everything
    first_loop = min((n.lineno for n in astx.walk_own(f.node) if isinstance(n, ast.For)), default=0)
    val = astx.calls_in(f.node, "validate_score_vector")
    ctx.check(bool(pads) and pads[0].lineno < first_loop and len(val) == 1 and val[0].lineno < pads[0].lineno and astx.is_name(val[0].args[0], vec),
              f, val[0] if val else f.node, "vector validated, then padded, then used", "", "validate / pad / score order changed")
    am = astx.calls_in(f.node, "add_missing_cands")
    st = astx.stmt_of(am[0], pm) if am else None
    # the completed profile - under the parameter's name or a name of its own - is the one whose ballots are scored and whose
    # candidates start the tally
    okp = len(am) == 1 and isinstance(st, ast.Assign) and isinstance(st.targets[0], ast.Name) and st.lineno < first_loop and astx.is_name(am[0].args[0] if am[0].args else None, f.params[0])
    if okp and st.targets[0].id != f.params[0]:
        X = st.targets[0].id
        iters = [astx.u(n.iter) for n in astx.walk_own(f.node) if isinstance(n, ast.For)] + [astx.u(g.iter) for n in astx.walk_own(f.node) if isinstance(n, (ast.DictComp, ast.ListComp, ast.GeneratorExp, ast.SetComp)) for g in n.generators]
        okp = f"{X}.ballots" in iters and f"{f.params[0]}.ballots" not in iters and f"{f.params[0]}.candidates" not in iters \
            and len(astx.defs_of(f.node, X)) == 1
    if not okp and am and all(len(c.args) >= 1 and astx.is_name(c.args[0], f.params[0]) for c in am):
        # the completed profile read where it is needed (no name of its own): add_missing_cands(profile).ballots / .candidates
        iters = [astx.u(n.iter) for n in astx.walk_own(f.node) if isinstance(n, ast.For)] + [astx.u(g.iter) for n in astx.walk_own(f.node) if isinstance(n, (ast.DictComp, ast.ListComp, ast.GeneratorExp, ast.SetComp)) for g in n.generators]
        done = f"add_missing_cands({f.params[0]})"
        okp = f"{done}.ballots" in iters and f"{f.params[0]}.ballots" not in iters and f"{f.params[0]}.candidates" not in iters
    ctx.check(okp, f, am[0] if am else f.node,
              "unlisted candidates are added as a last-place tie before scoring", "", "add_missing_cands is not applied to the profile before the scoring loop")
    # "unlisted" is relative to the candidates registered with the profile - including those no ballot ranks - not to
    # the candidates that happen to have been cast (whatever shape the completion code has)
    amf = prog.find_func("add_missing_cands")
    pp = amf.params[0]
    reads = sorted({n.attr for n in astx.walk_all(amf.node) if isinstance(n, ast.Attribute) and astx.is_name(n.value, pp) and isinstance(n.ctx, ast.Load)})
    ctx.check("candidates" in reads and "candidates_cast" not in reads, amf, amf.node, "the candidate universe of add_missing_cands is the profile's registered candidates",
              str(reads), f"add_missing_cands reads {reads} of its profile: a registered candidate that appears on no ballot must still share the remaining points")


def r5_grouping_direction(ctx):
    prog = ctx.prog
    f = prog.find_func("score_dict_to_ranking")
    sd, flag = f.params[:2]
    sorts = astx.calls_in(f.node, "sorted")
    good = False
    d = ""
    if len(sorts) == 1:
        c = sorts[0]
        kw = {k.arg: k.value for k in c.keywords}
        d = astx.u(c)
        it0 = c.args[0] if c.args else None
        from vk import accum
        if isinstance(it0, ast.Name) and not any(g.dict_name == it0.id for g in accum.groupings(f.node)):
            it0 = astx.unique_def(f.node, it0.id)
        grp = astx.u(it0).replace(".items()", "") if it0 is not None else ""
        gs = [g for g in accum.groupings(f.node) if g.dict_name == grp]
        keyed_by_score = okfill = False
        if len(gs) == 1 and astx.u(gs[0].loop.iter) == f"{sd}.items()" and isinstance(gs[0].loop.target, ast.Tuple) and len(gs[0].loop.target.elts) == 2:
            cand, score = [astx.u(x) for x in gs[0].loop.target.elts]
            keyed_by_score = gs[0].key == score
            okfill = gs[0].member == cand
        key = kw.get("key")
        okkey = key is not None and accum.is_first_component_key(key)
        okrev = astx.is_name(kw.get("reverse"), flag)
        good = it0 is not None and astx.u(it0) == f"{grp}.items()" and keyed_by_score and okfill and okkey and okrev
        # the same order spelled over the keys alone: sorted(D, reverse=flag) with the group looked up afterwards
        keys_only = it0 is not None and isinstance(it0, ast.Name) and key is None
        if keys_only:
            okkey = True
            good = keyed_by_score and okfill and okrev
        d = f"sorted({grp}.items(), key=score only: {okkey}, reverse={astx.u(kw.get('reverse')) if kw.get('reverse') is not None else None}); grouped by equal score: {keyed_by_score and okfill}"
    ctx.check(bool(good), f, sorts[0] if sorts else f.node, "groups of equal score, sorted by score only, reverse = sort_high_low", d,
              f"ranking construction is `{d}`")
    # each group becomes one frozenset in that order
    comps = [n for n in astx.walk_own(f.node) if isinstance(n, astx.LCOMP) and sorts and any(x is sorts[0] for x in ast.walk(n))]
    if not comps and sorts:
        st_ = astx.stmt_of(sorts[0], astx.parents(f.node))
        if isinstance(st_, ast.Assign) and isinstance(st_.targets[0], ast.Name) and st_.value is sorts[0] and astx.unique_def(f.node, st_.targets[0].id) is sorts[0]:
            comps = [n for n in astx.walk_own(f.node) if isinstance(n, astx.LCOMP) and astx.is_name(n.generators[0].iter, st_.targets[0].id)]
    good = False
    if comps:
        g = comps[0].generators[0]
        good = isinstance(g.target, ast.Tuple) and len(g.target.elts) == 2 and astx.u(comps[0].elt) == f"frozenset({astx.u(g.target.elts[1])})" and not g.ifs
        if isinstance(g.target, ast.Name) and sorts and sorts[0].args and isinstance(sorts[0].args[0], ast.Name):
            good = astx.u(comps[0].elt) == f"frozenset({sorts[0].args[0].id}[{g.target.id}])" and not g.ifs
    ctx.check(good, f, comps[0] if comps else f.node, "each score group becomes one tied set, in sorted order", "", "groups are not emitted one frozenset per score in sorted order")
    ctx.check(astx.is_const(f.param_default(flag), True), f, f.node, "sort_high_low defaults to True", "", "default direction is no longer high-to-low")
    # _run_election passes self.sort_high_low; every constructor passes True or leaves the default
    rel = elect.run_election(prog)
    cs = astx.calls_in(rel.node, "score_dict_to_ranking")
    if not cs:
        # the round-0 state may be built by the constructor that then calls _run_election
        init = prog.find_func("Election.__init__")
        if astx.calls_in(init.node, "_run_election"):
            rel = init
            cs = astx.calls_in(rel.node, "score_dict_to_ranking")
    good = len(cs) == 1 and astx.u(astx.bind_args(cs[0], f.params).get(flag)) == "self.sort_high_low"
    ctx.check(good, rel, cs[0] if cs else rel.node, "round-0 order uses the rule's direction flag", "", "_run_election does not pass self.sort_high_low")
    for cls in facts.election_classes(prog):
        e, scope, status = facts.Chain(prog, cls).arg_at("Election", "sort_high_low")
        good = (status == "default" and astx.is_const(e, True)) or (status == "expr" and astx.is_const(e, True))
        ctx.check(good, cls.lookup("__init__"), e, f"{cls.name}: candidates ordered high to low", f"{status}: {astx.u(e) if e is not None else None}",
                  f"{cls.name} passes sort_high_low={astx.u(e) if e is not None else status}; every documented rule ranks high to low")


def r6_top_m(ctx):
    prog = ctx.prog
    sel = prog.find_func("elect_cands_from_set_ranking")
    n = 0
    for f in elect.step_functions(prog):
        for c in astx.calls_in(f.node, "elect_cands_from_set_ranking"):
            n += 1
            b = astx.bind_args(c, sel.params)
            rk = b.get(sel.params[0])
            rkd = astx.unique_def(f.node, rk.id) if isinstance(rk, ast.Name) else rk
            prof = b.get("profile")
            tb = b.get("tiebreak")
            if f.cls.name == "CondoBorda":
                okrank = rkd is not None and "dominating_tiers" in astx.u(rkd)
                oktb = astx.is_const(tb, "borda")
            else:
                okrank = astx.u(rk) == f"{f.params[2]}.remaining"
                oktb = astx.u(tb) == "self.tiebreak"
            okprof = astx.is_name(prof, f.params[1]) and astx.u(b.get("m")) == "self.m"
            ctx.check(okrank and oktb and okprof, f, c, f"{f.cls.name}: top-m selection over the recorded order with the rule's tiebreak", astx.u(c)[:110],
                      f"`{astx.u(c)[:110]}`: ranking ok={okrank}, tiebreak ok={oktb}, profile and m=self.m ok={okprof}")
            # roles of the returned tuple
            st = astx.stmt_of(c, astx.parents(f.node))
            if isinstance(st, ast.Assign) and isinstance(st.targets[0], ast.Tuple) and len(st.targets[0].elts) == 3:
                e0, e1, e2 = [astx.u(x) for x in st.targets[0].elts]
                oks = True
                why = []
                for sc in elect.state_ctor_calls(prog, f):
                    kw = elect.state_kwargs(prog, sc)
                    if astx.u(kw.get("elected")) != e0:
                        oks = False
                        why.append(f"elected={astx.u(kw.get('elected'))}")
                    if astx.u(kw.get("remaining")) != e1:
                        oks = False
                        why.append(f"remaining={astx.u(kw.get('remaining'))}")
                ctx.check(oks, f, st, f"{f.cls.name}: component 0 -> elected=, component 1 -> remaining=", f"({e0}, {e1}, {e2})",
                          f"selector components are recorded as {why}")
    # replaying the single round must not record again (shared with C09.R2)
    from rules import c09
    sub = type(ctx)(prog, ctx.prop, ctx.tier)
    c09.r2_writes_guarded(sub)
    for o in sub.obs:
        if any(o.function.endswith(x) for x in ("Plurality._run_step", "Borda._run_step")):
            o.rule = "C04.R6"
            ctx.obs.append(o)
    if n < 4:
        ctx.vanished("top-m selector call sites" + ": " + f"only {n} single-round rules select through elect_cands_from_set_ranking")
    # inside the selector: groups are taken from index 0 upward (iteration table of the selector, rules/selmodel.py)
    from rules import selmodel
    sm = selmodel.model(prog)
    loop = [sm.loop] if sm.loop is not None else []
    good = False
    if sm.loop is not None and not sm.problem and sm.I is not None:
        nexts = sm.kinds("next")
        init = [dv for st_, dv in astx.defs_of(sel.node, sm.I) if dv is not None and st_.lineno < sm.loop.lineno]
        good = bool(nexts) and len(init) == 1 and astx.is_const(init[0], 0)
        for o in nexts:
            e = o.state.get(sm.E)
            good = good and e is not None and len(e.segs) == 2 and e.segs[1][0] == "elem" and sm.N().key(e.segs[1][1]) == sm.group() \
                and o.state.get(sm.I) is not None and sm.rat_eq(o.state[sm.I], f"{sm.I} + 1")
        # nothing but the loop moves the index
        others = [st_ for st_, dv in astx.defs_of(sel.node, sm.I) if not any(x is st_ for x in ast.walk(sm.loop)) and not (dv is not None and astx.is_const(dv, 0))]
        good = good and not others
    elif sm.problem and sm.loop is not None:
        ctx.undecided(sel, sm.loop, "selector consumes ranking[0], ranking[1], ... in order", sm.problem)
        return
    ctx.check(good, sel, loop[0] if loop else sel.node, "selector consumes ranking[0], ranking[1], ... in order", "", "the selector no longer walks the ranking from its top group downward")


def _vector_loop_roles(lp, vec):
    it = astx.u(lp.iter)
    role = {}
    if it == f"enumerate({vec})" and isinstance(lp.target, ast.Tuple) and len(lp.target.elts) == 2:
        role[astx.u(lp.target.elts[0])] = "index"
        role[astx.u(lp.target.elts[1])] = "all"
    elif it == vec and isinstance(lp.target, ast.Name):
        role[lp.target.id] = "all"
    elif it in (f"zip({vec}, {vec}[1:])", f"zip({vec}[:-1], {vec}[1:])") and isinstance(lp.target, ast.Tuple) and len(lp.target.elts) == 2:
        role[astx.u(lp.target.elts[0])] = "all-but-last"
        role[astx.u(lp.target.elts[1])] = "all-but-first"
    else:
        return None
    return role


def r7_validate_vector(ctx):
    prog = ctx.prog
    f = prog.find_func("validate_score_vector")
    pm = astx.parents(f.node)
    vec = f.params[0]
    loops = [n for n in astx.walk_own(f.node) if isinstance(n, ast.For)]
    if not loops:
        ctx.violated(f, f.node, "validate_score_vector examines the vector", "no loop over the score vector")
        return
    covered = set()
    oki = False
    all_raises = []
    for lp in loops:
        role = _vector_loop_roles(lp, vec)
        if role is None:
            ctx.undecided(f, lp, "validate_score_vector loop", f"loop over `{astx.u(lp.iter)}` is outside the idioms (enumerate(v) / v / zip(v, v[1:]))")
            return
        idx = next((k for k, v in role.items() if v == "index"), None)
        ia = (lambda a, idx=idx: a == idx) if idx else (lambda a: False)
        # single-assignment temporaries (prev = v[i - 1]) are read through; the loop's own variables stay symbols
        N = Normalizer(f.node, inline=True, int_atoms=ia, no_inline=list(role))
        raises = [(r, literals(N.conj(astx.path_condition(f.node, r, pm)))) for r in astx.raises_in(f.node) if astx.enclosing(r, pm, ast.For) is lp]
        all_raises += raises
        for r, lits in raises:
            for v, ro in role.items():
                if ro != "index" and literals(spec_guard(f"{v} < 0")) <= lits and len(lits) == 1:
                    covered.add(ro)
            for v, ro in role.items():
                if ro == "all" and idx:
                    want = literals(spec_guard(f"{idx} > 0 and {v} > {vec}[{idx} - 1]", int_atoms=ia))
                    carried = literals(spec_guard(f"{v} >= 0", int_atoms=ia))
                    if want <= lits <= (want | carried):
                        oki = True
            if "all-but-last" in role.values():
                a = next(k for k, v in role.items() if v == "all-but-last")
                b = next(k for k, v in role.items() if v == "all-but-first")
                want = literals(spec_guard(f"{b} > {a}"))
                if want <= lits and all((l.startswith("ge(") and l.endswith(", 0)")) or l in want for l in lits):
                    oki = True
        if any(isinstance(n, (ast.Break, ast.Continue, ast.Return)) for n in astx.walk_own(lp)):
            ctx.violated(f, lp, "validation loop can be left early", "break/continue/return inside the validation loop: later entries are not examined")
    all_cov = "all" in covered or {"all-but-last", "all-but-first"} <= covered
    ctx.check(all_cov, f, loops[0], "every entry is tested for negativity (ValueError)", f"entries covered: {sorted(covered)}",
              f"the negativity test covers {sorted(covered) or 'no'} entries of the vector; an entry outside that range (e.g. a one-entry vector [-1]) is accepted")
    ctx.check(oki, f, loops[0], "an entry greater than its predecessor is rejected, for every adjacent pair", str([sorted(l) for _, l in all_raises]),
              f"raise conditions are {[sorted(l) for _, l in all_raises]}; documented: reject iff some entry exceeds the one before it")
    ctx.check(all(astx.raise_type(r) == "ValueError" for r, _ in all_raises) and len(all_raises) >= 2, f, loops[0], "both rejections raise ValueError", "",
              "a rejection raises another type or is missing")


def _check_defaults(ctx, table):
    """table: [(function short name, parameter, expected default source text)]"""
    prog = ctx.prog
    for fn, param, want in table:
        f = prog.find_func(fn)
        if param not in f.params:
            ctx.violated(f, f.node, f"{fn}: parameter `{param}`", f"parameter `{param}` no longer exists; callers rely on its documented default {want}")
            continue
        d = f.param_default(param)
        got = astx.u(d) if d is not None else "<required>"
        ctx.check(got == want, f, d if d is not None else f.node, f"{fn}({param}={want}) documented default", got,
                  f"default of `{param}` is {got}, documented {want}: every caller that omits the argument silently changes behaviour")


def r8_defaults(ctx):
    _check_defaults(ctx, [("score_profile_from_rankings", "to_float", "False"), ("first_place_votes", "to_float", "False"), ("borda_scores", "to_float", "False"),
                          ("mentions", "to_float", "False"), ("score_profile_from_ballot_scores", "to_float", "False"), ("score_dict_to_ranking", "sort_high_low", "True"),
                          ("Plurality.__init__", "m", "1"), ("Borda.__init__", "m", "1"), ("Borda.__init__", "score_vector", "None")])


def r9_prerequisites(ctx):
    """Scores are a function of the profile alone: the scoring helpers keep no state between calls (a memo keyed by
    profile equality ignores the candidate list; C09.R7), and the weights they add up are stored exactly (C11.R2)."""
    from rules import c09, c11
    n = 0
    for fn, keep in ((c09.r7_no_shared_mutable_state, lambda o: "utils." in o.function or o.function == "<package>" or "src/votekit/utils.py" in o.site),
                     (c11.r2_validators, lambda o: "weight" in o.construct)):
        sub = type(ctx)(ctx.prog, ctx.prop, ctx.tier)
        fn(sub)
        for o in sub.obs:
            if keep(o):
                o.rule = "C04.R9"
                ctx.obs.append(o)
                n += 1
    if n < 2:
        ctx.vanished(f"prerequisite obligations: only {n}")


RULES = [
    ("C04.R1", r1_exact, 8, "no library-created float reaches a score in the scoring helpers"),
    ("C04.R2", r2_allocation, 6, "allocation formula, slice/step agreement, per-ballot reset, exact zeros, return"),
    ("C04.R3", r3_special_vectors, 9, "first_place/borda/mentions special cases and the score-function slot of each rule family"),
    ("C04.R4", r4_padding, 3, "zero padding to the number of candidates; validate/pad/score order; unlisted candidates added"),
    ("C04.R5", r5_grouping_direction, 20, "equal-score grouping, sort by score only, direction flag true for every rule"),
    ("C04.R6", r6_top_m, 9, "single-round rules select the top m through the selector; tuple roles; selector walks from the top"),
    ("C04.R8", r8_defaults, 9, "documented defaults: exact arithmetic unless to_float, high-to-low ranking, one seat"),
    ("C04.R9", r9_prerequisites, 2, "prerequisites: scoring helpers are stateless between calls; ballot weights are stored exactly"),
    ("C04.R7", r7_validate_vector, 3, "validate_score_vector polarity and for-all shape"),
]

UT = "src/votekit/utils.py"
FAULTS = [
    ("int/int tie average again", [(UT, "allocation = sum(Fraction(x) for x in local_score_vector) / position_size", "allocation = sum(local_score_vector) / position_size")], "C04.R1"),
    ("float scores", [(UT, "                    scores[c] += Fraction(allocation) * ballot.weight", "                    scores[c] += Fraction(float(allocation)) * ballot.weight")], "C04.R1"),
    ("tie gets full points", [(UT, "allocation = sum(Fraction(x) for x in local_score_vector) / position_size", "allocation = sum(Fraction(x) for x in local_score_vector)")], "C04.R2"),
    ("tie gets max instead of average", [(UT, "allocation = sum(Fraction(x) for x in local_score_vector) / position_size", "allocation = max(Fraction(x) for x in local_score_vector)")], "C04.R2"),
    ("index advances by one", [(UT, "                current_ind += position_size", "                current_ind += 1")], "C04.R2"),
    ("slice one too wide", [(UT, "current_ind : current_ind + position_size\n", "current_ind : current_ind + position_size + 1\n")], "C04.R2"),
    ("index not reset per ballot", [(UT, "    for ballot in profile.ballots:\n        current_ind = 0\n        if not ballot.ranking:", "    current_ind = 0\n    for ballot in profile.ballots:\n        if not ballot.ranking:")], "C04.R2"),
    ("weight dropped", [(UT, "                    scores[c] += Fraction(allocation) * ballot.weight", "                    scores[c] += Fraction(allocation)")], "C04.R2"),
    ("fpv vector (1,1,0..)", [(UT, "profile, [1] + [0] * len(profile.candidates), to_float", "profile, [1, 1] + [0] * len(profile.candidates), to_float")], "C04.R3"),
    ("borda from n-1", [(UT, "score_vector = list(range(len(profile.candidates), 0, -1))\n\n    return score_profile_from_rankings", "score_vector = list(range(len(profile.candidates) - 1, -1, -1))\n\n    return score_profile_from_rankings")], "C04.R3"),
    ("padding with ones", [(UT, "score_vector = list(score_vector) + [0] * (max_length - len(score_vector))", "score_vector = list(score_vector) + [1] * (max_length - len(score_vector))")], "C04.R4"),
    ("sort ascending", [(UT, "score_to_cand.items(), key=lambda x: x[0], reverse=sort_high_low", "score_to_cand.items(), key=lambda x: x[0], reverse=not sort_high_low")], "C04.R5"),
    ("sort by (score, names)", [(UT, "score_to_cand.items(), key=lambda x: x[0], reverse=sort_high_low", "score_to_cand.items(), key=lambda x: (x[0], x[1]), reverse=sort_high_low")], "C04.R5"),
    ("pairs loop never tests the first entry", [(UT, "    for i, score in enumerate(score_vector):\n        # if score is negative\n        if score < 0:\n            raise ValueError(\"Score vector must be non-negative.\")\n\n        if i > 0:\n            # if the current score is bigger than prev\n            if score > score_vector[i - 1]:\n                raise ValueError(\"Score vector must be non-increasing.\")",
                                                 "    for prev, score in zip(score_vector, score_vector[1:]):\n        # if score is negative\n        if score < 0:\n            raise ValueError(\"Score vector must be non-negative.\")\n\n        if score > prev:\n            raise ValueError(\"Score vector must be non-increasing.\")")], "C04.R7"),
    ("negative check loosened", [(UT, "        if score < 0:\n            raise ValueError(\"Score vector must be non-negative.\")", "        if score < -1:\n            raise ValueError(\"Score vector must be non-negative.\")")], "C04.R7"),
    ("increase check >=", [(UT, "            if score > score_vector[i - 1]:", "            if score >= score_vector[i - 1]:")], "C04.R7"),
    ("sum of raw entries then Fraction", [(UT, "allocation = sum(Fraction(x) for x in local_score_vector) / position_size", "allocation = Fraction(sum(local_score_vector)) / position_size")], "C04.R2"),
    ("borda step records by default", [("src/votekit/elections/election_types/ranking/borda.py", "        self, profile: PreferenceProfile, prev_state: ElectionState, store_states=False", "        self, profile: PreferenceProfile, prev_state: ElectionState, store_states=True")], "C04.R6"),
    ("borda vector over cast candidates", [(UT, "    score_vector = list(range(len(profile.candidates), 0, -1))\n\n    return score_profile_from_rankings", "    score_vector = list(range(len(profile.candidates_cast), 0, -1))\n\n    return score_profile_from_rankings")], "C04.R3"),
    ("plurality records groups swapped", [("src/votekit/elections/election_types/ranking/plurality.py", "                remaining=remaining,\n                elected=elected,", "                remaining=elected,\n                elected=remaining,")], "C04.R6"),
    ("borda elects from the bottom", [("src/votekit/elections/election_types/ranking/borda.py", "super().__init__(profile, score_function=score_function, sort_high_low=True)", "super().__init__(profile, score_function=score_function, sort_high_low=False)")], "C04.R5"),
]
BENIGN = [
    ("pairs loop testing both ends", [(UT, "    for i, score in enumerate(score_vector):\n        # if score is negative\n        if score < 0:\n            raise ValueError(\"Score vector must be non-negative.\")\n\n        if i > 0:\n            # if the current score is bigger than prev\n            if score > score_vector[i - 1]:\n                raise ValueError(\"Score vector must be non-increasing.\")",
                                       "    for score in score_vector:\n        if score < 0:\n            raise ValueError(\"Score vector must be non-negative.\")\n    for prev, score in zip(score_vector, score_vector[1:]):\n        if score > prev:\n            raise ValueError(\"Score vector must be non-increasing.\")")]),
    ("allocation inlined", [(UT, "                allocation = sum(Fraction(x) for x in local_score_vector) / position_size\n                for c in s:\n                    scores[c] += Fraction(allocation) * ballot.weight",
                             "                for c in s:\n                    scores[c] += ballot.weight * sum(Fraction(x) for x in local_score_vector) / len(s)")]),
    ("padding condition flipped", [(UT, "    if len(score_vector) < max_length:", "    if max_length > len(score_vector):")]),
    ("negative test as not >= 0", [(UT, "        if score < 0:\n            raise ValueError(\"Score vector must be non-negative.\")", "        if not score >= 0:\n            raise ValueError(\"Score vector must be non-negative.\")")]),
]


def sweep(prog):
    """Thorough tier: numeric-kind analysis over EVERY function of the package."""
    out = []
    n = 0
    for f in prog.iter_functions():
        if isinstance(f.node, ast.Lambda):
            continue
        n += 1
        for e in numkind.exactness_events(prog, f):
            out.append(f"{f.loc(e.node)}: {e.detail[:160]}")
    out.append(f"numeric-kind analysis swept over {n} functions")
    return out

# a temporary the pinned tree does not have is read through (vk/inlinetemps.py) - unless what it was computed from changes before it is read
_SLICE = "                local_score_vector = score_vector[\n                    current_ind : current_ind + position_size\n                ]\n"
FAULTS += [
    ("slice end held in a temporary that goes stale", [(UT, _SLICE, "                position_end = current_ind + position_size\n                current_ind = position_end\n                local_score_vector = score_vector[current_ind:position_end]\n")], "C04.R2"),
]
BENIGN += [
    ("slice end held in a new temporary", [(UT, _SLICE, "                position_end = current_ind + position_size\n                local_score_vector = score_vector[current_ind:position_end]\n")]),
]

# mention totals start from zero (clause of C04.R3)
_MENT = "    mentions = {c: Fraction(0) for c in profile.candidates}\n"
FAULTS += [
    ("mention totals start at one", [("src/votekit/utils.py", _MENT, "    mentions = {c: Fraction(1) for c in profile.candidates}\n")], "C04.R3"),
    ("mention totals only for a part of the candidates", [("src/votekit/utils.py", _MENT, "    mentions = {c: Fraction(0) for c in profile.candidates if c}\n    mentions.update({c: Fraction(1) for c in profile.candidates if not c})\n")], "C04.R3"),
]
BENIGN += [
    ("mention totals start at Fraction()", [("src/votekit/utils.py", _MENT, "    mentions = {cand: Fraction() for cand in profile.candidates}\n")]),
]
