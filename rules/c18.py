"""C18 — cast-vote-record loading and saving keep every vote: structural clauses (DESIGN §5/C18)."""
from __future__ import annotations

import ast
import re

from vk import astx
from vk.report import shape_rule
from vk.algebra import Normalizer, bool_key, literals, spec_rat, NotClosedForm
from vk.loader import AnalysisError

EXPLANATION = (
    "Column-index-space typestate, guard table, sibling-agreement and writer-table rules over "
    "load_csv, load_scottish and PreferenceProfile.to_csv. Decides: the integer parameters id_col / "
    "weight_col / rank_cols index the frame returned by read_csv, and no positional access with such "
    "an index is made on a frame that may have been re-projected; grouping is over the ranking "
    "columns in the requested order with dropna=False; the weight is the group size or the sum of "
    "the weight column; every group becomes exactly one ballot whose positions follow the group key, "
    "blanks kept as explicit {None}; the documented guards (missing file, empty data, null id, "
    "duplicate id; Scottish metadata) raise the documented exception before any ballot is built; the "
    "Scottish candidate block, ballot block and ward line are delimited by one split index at all "
    "uses and candidate numbers map through i+1; to_csv writes one row per ballot with exactly the "
    "declared fields. Does NOT decide fidelity for all files (pandas semantics are trusted)."
)
EXPLANATION += ' Also decided (prerequisites and later clauses): a row of a Scottish file is stored iff it is non-empty after its empty cells were removed (decided on the reader loop by role).'
ASSUMPTIONS = ["pandas.read_csv / DataFrame.groupby(dropna=False) / iloc semantics (trusted)", "csv.DictWriter writes one line per writerow (trusted)"]
TRUSTED = ["pandas", "csv"]

ORIG_PARAMS = ("id_col", "weight_col", "rank_cols")


def r1_column_space(ctx):
    prog = ctx.prog
    f = prog.find_func("load_csv")
    for p in ORIG_PARAMS:
        if p not in f.params:
            raise AnalysisError(f"anchor-missing: load_csv parameter {p}")
    pm = astx.parents(f.node)
    # frames: variables bound to read_csv(...) are ORIG; `x = <frame>.iloc[:, cols]` / `<frame>[cols]` makes x PROJ
    frames = {}
    for n in astx.walk_own(f.node):
        if isinstance(n, ast.Assign) and isinstance(n.targets[0], ast.Name):
            v = n.value
            if isinstance(v, ast.Call) and astx.u(v.func).endswith("read_csv"):
                frames.setdefault(n.targets[0].id, []).append(("ORIG", n))
            elif isinstance(v, ast.Subscript) and (astx.u(v.value).endswith(".iloc") or astx.u(v.value).endswith(".loc") or isinstance(v.value, ast.Name)) \
                    and astx.u(v.value).split(".")[0] in frames:
                frames.setdefault(n.targets[0].id, []).append(("PROJ", n))
    if not frames:
        raise AnalysisError("anchor-missing: no frame bound to read_csv in load_csv")
    n_uses = 0
    for n in astx.walk_own(f.node):
        if not isinstance(n, ast.Subscript):
            continue
        base = astx.u(n.value)
        m = re.fullmatch(r"(\w+)\.(iloc|columns)", base)
        if not m:
            continue
        frame = m.group(1)
        idx_names = {x.id for x in ast.walk(n.slice) if isinstance(x, ast.Name)}
        orig_idx = idx_names & set(ORIG_PARAMS)
        if not orig_idx:
            continue
        n_uses += 1
        # which spaces may `frame` be in at this use?
        root = frame
        if root not in frames:
            # group frames derive from the grouped frame: group_df of df.groupby(...)
            lp = astx.enclosing(n, pm, ast.For)
            while lp is not None and root not in frames:
                it = astx.u(lp.iter)
                gd = astx.unique_def(f.node, it) if re.fullmatch(r"\w+", it) else None
                if gd is not None and ".groupby(" in astx.u(gd):
                    root = astx.u(gd).split(".groupby(")[0]
                lp = astx.enclosing(lp, pm, ast.For)
        spaces = set()
        for kind, st in frames.get(root, []):
            if kind == "ORIG" or st.lineno < n.lineno:
                if st.lineno < n.lineno:
                    spaces.add(kind)
        if root not in frames:
            ctx.undecided(f, n, f"positional access {astx.u(n)[:40]}", f"cannot relate `{frame}` to the frame read from the file")
            continue
        if "PROJ" in spaces:
            ctx.violated(f, n, f"load_csv: original column index {sorted(orig_idx)} applied to a re-projected frame",
                         f"`{astx.u(n)[:60]}`: `{root}` may have been reduced to a subset of columns before this access, so the index no longer denotes the file's column")
        else:
            ctx.ok(f, n, f"load_csv: `{astx.u(n)[:40]}` indexes the frame as read from the file", f"spaces of {root}: {sorted(spaces)}")
    if n_uses < 4:
        ctx.violated(f, f.node, "positional column accesses", f"only {n_uses} accesses by id_col/weight_col/rank_cols found")
    # the ranking columns: names taken from the original frame in the requested order
    rk = [(st, dv) for st, dv in astx.defs_of(f.node, "ranks") if dv is not None]
    N = Normalizer(f.node, inline=False)
    by_cond = {bool_key(N.conj(astx.path_condition(f.node, st, pm, carried=False))): astx.u(dv) for st, dv in rk}
    root = [k for k, v in frames.items() if v[0][0] == "ORIG"][0]
    from vk.algebra import implies, spec_guard, NOT
    asked = spec_guard("bool(rank_cols)")
    seen = set()
    good = bool(rk)
    for st, dv in rk:
        cond = N.conj(astx.path_condition(f.node, st, pm, carried=False))
        if implies(cond, asked):
            good = good and astx.u(dv) == f"list({root}.columns[rank_cols])"
            seen.add("asked")
        elif implies(cond, NOT(asked)):
            good = good and astx.u(dv) == f"list({root}.columns)"
            seen.add("all")
        else:
            good = False
    good = good and seen == {"asked", "all"}
    ctx.check(good, f, rk[0][0] if rk else f.node, "ranking columns = the requested columns in the requested order (all columns when none requested)", str(by_cond),
              f"ranking column selection is {by_cond}")
    rm = [c for c in astx.calls_in(f.node, "remove") if astx.u(c.func.value) == "ranks"]
    good = len(rm) == 1 and astx.u(rm[0].args[0]) == f"{root}.columns[id_col]" and \
        literals(N.conj(astx.path_condition(f.node, rm[0], pm, carried=False))) == {"not truthy(rank_cols)", "not isnone(id_col)"}
    ctx.check(good, f, rm[0] if rm else f.node, "without rank_cols the id column is excluded from the ranking columns", "", "id-column exclusion changed")


def r2_grouping(ctx):
    prog = ctx.prog
    f = prog.find_func("load_csv")
    pm = astx.parents(f.node)
    gb = astx.calls_in(f.node, "groupby")
    good = len(gb) == 1 and astx.u(gb[0].args[0]) == "ranks" and {k.arg: astx.u(k.value) for k in gb[0].keywords} == {"dropna": "False"}
    ctx.check(good, f, gb[0] if gb else f.node, "grouped by the ranking columns with dropna=False (blank cells keep their rows)", astx.u(gb[0]) if gb else "",
              f"grouping is `{astx.u(gb[0]) if gb else None}`")
    loops = [n for n in astx.walk_own(f.node) if isinstance(n, ast.For) and astx.u(n.iter) == "grouped"]
    if len(loops) != 1:
        ctx.violated(f, f.node, "one ballot per group", "no loop over the groups")
        return
    lp = loops[0]
    key, gdf = [astx.u(x) for x in lp.target.elts]
    ctors = astx.calls_in(lp, "Ballot", own_only=False)
    apps = [c for c in astx.calls_in(lp, "append", own_only=False) if astx.u(c.func.value) == "ballots"]
    no_skip = not any(isinstance(n, (ast.Continue, ast.Break, ast.Return)) for n in ast.walk(lp))
    good = len(ctors) == 1 and len(apps) == 1 and pm.get(astx.stmt_of(apps[0], pm)) is lp and no_skip
    ctx.check(good, f, lp, "every group becomes exactly one ballot", "", "a group can be skipped or produce several ballots")
    if ctors:
        kw = {k.arg: astx.u(k.value) for k in ctors[0].keywords}
        rk = astx.unique_def(f.node, "ranking")
        okr = rk is not None and astx.u(rk) == astx.A(f"tuple([frozenset({{None}}) if pd.isnull(c) else frozenset({{c}}) for c in {key}])")
        ctx.check(okr and kw.get("ranking") == "ranking", f, ctors[0], "positions follow the group key in column order; blanks kept as {None}", astx.u(rk)[:100] if rk is not None else "",
                  f"ranking is built as `{astx.u(rk) if rk is not None else None}`")
        N = Normalizer(f.node, inline=False)
        cst = astx.stmt_of(ctors[0], pm)
        # effective values at the constructor call, as complete case splits ("default then override" == if / else)
        wdefs = astx.cases_dict(f.node, astx.u(ctors[0].keywords[[k.arg for k in ctors[0].keywords].index("weight")].value.args[0]) if kw.get("weight", "").startswith("Fraction(") else "weight", cst, N, pm) \
            if "weight" in kw else None
        good = wdefs == {"isnone(weight_col)": f"len({gdf})", "not isnone(weight_col)": f"sum({gdf}.iloc[:, weight_col])"} and kw.get("weight", "").startswith("Fraction(")
        ctx.check(good, f, ctors[0], "weight = number of rows of the group, or the sum of its weight column", str(wdefs), f"weight is computed as {wdefs}, passed as {kw.get('weight')}")
        vs = astx.cases_dict(f.node, kw.get("voter_set", "voter_set"), cst, N, pm) if "voter_set" in kw else None
        ctx.check(vs == {"isnone(id_col)": "None", "not isnone(id_col)": f"set({gdf}.iloc[:, id_col])"}, f, ctors[0], "voter_set = the ids of the group's rows", str(vs),
                  f"voter_set is computed as {vs}")
    rets = [n for n in astx.walk_own(f.node) if isinstance(n, ast.Return)]
    ctx.check(len(rets) == 1 and astx.u(rets[0].value) == "PreferenceProfile(ballots=tuple(ballots))", f, rets[0] if rets else f.node, "the profile holds exactly those ballots", "", "return changed")


GUARDS_CSV = [
    ("not os.path.isfile(fpath)", "FileNotFoundError", "missing file"),
    ("df.empty", "EmptyDataError", "empty data"),
    ("id_col is not None and df.iloc[:, id_col].isnull().values.any()", "ValueError", "blank voter id"),
    ("id_col is not None and not df.iloc[:, id_col].is_unique", "DataError", "duplicate voter id"),
]


def _guard_table(ctx, f, table, before_line, label):
    from vk.precond import obligation
    for spec, exc, what in table:
        good = obligation(ctx, f, f"{label}: {what} -> {exc}", spec, exc)
    rs = astx.raises_in(f.node)
    late = [r for r in rs if r.lineno > before_line]
    return late


def r3_guards(ctx):
    prog = ctx.prog
    f = prog.find_func("load_csv")
    gb = astx.calls_in(f.node, "groupby")
    line = gb[0].lineno if gb else 10 ** 9
    _guard_table(ctx, f, GUARDS_CSV, line, "load_csv")
    ctx.check(all(r.lineno < line for r in astx.raises_in(f.node)) and len(astx.raises_in(f.node)) >= 4, f, f.node, "load_csv: all four rejections precede grouping", "",
              "a rejection happens after ballots are being built")
    f = prog.find_func("load_scottish")
    table = [("not os.path.isfile(fpath)", "FileNotFoundError", "missing file"),
             ("os.path.getsize(fpath) == 0", "EmptyDataError", "empty file"),
             ("len(data[0]) != 2", "DataError", "first row is not (candidates, seats)"),
             ("data_cand_num != cand_num", "DataError", "candidate count mismatch")]
    _guard_table(ctx, f, table, 0, "load_scottish")
    pm = astx.parents(f.node)
    inner = [r for r in astx.raises_in(f.node) if astx.enclosing(r, pm, ast.For) is not None]
    good = len(inner) == 1 and astx.raise_type(inner[0]) == "DataError" and \
        bool_key(Normalizer(f.node, inline=False).conj(astx.path_condition(f.node, inner[0], pm, carried=False))) == "not in('Candidate', line[0])"
    ctx.check(good, f, inner[0] if inner else f.node, "load_scottish: a non-candidate line inside the candidate block -> DataError", "", "candidate-line check changed")
    dc = astx.unique_def(f.node, "data_cand_num")
    ctx.check(dc is not None and astx.u(dc) in (astx.A("len([r for r in data if 'Candidate' in str(r[0])])"), astx.A("sum(1 for r in data if 'Candidate' in str(r[0]))")), f, dc or f.node, "declared candidate count is compared with the number of candidate lines", "",
              "data_cand_num changed")
    ballots_line = min((n.lineno for n in astx.walk_own(f.node) if isinstance(n, ast.Call) and astx.call_name(n) == "Ballot" and n.keywords), default=10 ** 9)
    ctx.check(all(r.lineno < ballots_line for r in astx.raises_in(f.node)), f, f.node, "load_scottish: all rejections precede ballot construction", "", "a rejection happens after ballots are built")


def r4_scottish(ctx):
    prog = ctx.prog
    f = prog.find_func("load_scottish")
    N = Normalizer(f.node, inline=False, int_atoms=lambda a: True)
    want = spec_rat("len(data) - (cand_num + 1)", int_atoms=lambda a: True)
    uses = []
    for n in astx.walk_own(f.node):
        if isinstance(n, ast.Subscript) and astx.is_name(n.value, "data") and isinstance(n.slice, ast.Slice):
            uses.append(n)
    shapes = []
    good = True
    for u_ in uses:
        lo, hi = u_.slice.lower, u_.slice.upper
        shapes.append(astx.u(u_))
        for bound in (lo, hi):
            if bound is None or astx.is_const(bound):
                continue
            try:
                if not N.rat(bound).equals(want):
                    good = False
            except NotClosedForm:
                good = False
    cand_block = [u_ for u_ in uses if astx.is_const(u_.slice.upper, -1)]
    ballot_block = [u_ for u_ in uses if astx.is_const(u_.slice.lower, 1)]
    # (the ballot block is sliced once for the loop and possibly once more to pre-size the list it fills)
    ctx.check(good and len(cand_block) == 1 and len(ballot_block) in (1, 2) and len(uses) == 1 + len(ballot_block), f, uses[0] if uses else f.node,
              "candidate block = data[split:-1], ballot block = data[1:split], same split = len(data) - (cand_num + 1) at every use", str(shapes),
              f"slices are {shapes}; all non-constant bounds must equal len(data) - (cand_num + 1)")
    defs = astx.single_assignments(f.node)
    # the first row is checked to have exactly two entries (C18.R3), so unpacking it whole or by index is the same
    good = defs.get("(cand_num, seats)") in ("(data[0][0], data[0][1])", "data[0]") and defs.get("ward") == "data[-1][0]"
    ctx.check(good, f, f.node, "metadata: (candidates, seats) from the first row, ward from the last", "", f"metadata extraction is {defs.get('(cand_num, seats)')}, {defs.get('ward')}")
    lp = astx.enclosing(cand_block[0], astx.parents(f.node), ast.For) if cand_block else None
    good = False
    # the candidate lines are numbered as they stand in the file: the block itself is enumerated (not a re-ordered copy)
    if lp is not None and astx.call_name(lp.iter) == "enumerate" and isinstance(lp.target, ast.Tuple) and len(lp.target.elts) == 2 and lp.iter.args \
            and astx.strip_wrappers(lp.iter.args[0], ("list", "tuple")) is cand_block[0]:
        i, line = [astx.u(x) for x in lp.target.elts]
        start = lp.iter.args[1] if len(lp.iter.args) > 1 else next((k.value for k in lp.iter.keywords if k.arg == "start"), None)
        start = 0 if start is None else astx.const(start)
        # the number stored for the k-th candidate line (k from 0) is k + 1: key - index == 1 - start
        keys = [k for k in defs if k.startswith("num_to_cand[")]
        okkey = False
        if len(keys) == 1 and isinstance(start, int):
            try:
                kk = Normalizer(f.node, inline=False, int_atoms=lambda a: True).rat(ast.parse(keys[0], mode="eval").body.slice)
                okkey = kk.equals(spec_rat(f"{i} + {1 - start}", int_atoms=lambda a: True))
            except NotClosedForm:
                okkey = False
        good = okkey and defs.get(keys[0]) == "cand" and defs.get("cand") == f"{line}[1]" and defs.get("party") == f"{line}[2]" and defs.get("cand_to_party[cand]") == "party"
    ctx.check(good, f, lp or f.node, "candidate numbers are 1-based positions in the candidate block; name and party from columns 1 and 2", "", "candidate numbering / fields changed")
    from vk.listform import build_of
    bl = build_of(f.node, ast.Name(id="ballots", ctx=ast.Load()))
    good = False
    if bl is not None and bl.kind == "map" and not bl.conditional:
        line = bl.var
        # (the parts of the line are read through whatever temporaries hold them)
        Nl = Normalizer(f.node, inline=True, no_inline=["num_to_cand"])
        N0 = Normalizer(None, inline=False)
        kwb = {k.arg: k.value for k in bl.elt.keywords} if isinstance(bl.elt, ast.Call) and astx.call_name(bl.elt) == "Ballot" and not bl.elt.args else {}
        # (the weight is converted with Fraction(...) - checked through the expression itself, the key drops such wrappers)
        wsrc = kwb.get("weight")
        wsrc = astx.unique_def(f.node, wsrc.id) if isinstance(wsrc, ast.Name) else wsrc
        good = set(kwb) == {"ranking", "weight"} and wsrc is not None and astx.u(wsrc) == f"Fraction({line}[0])" \
            and Nl.key(kwb["ranking"]) == N0.key(ast.parse(astx.A(f"tuple([frozenset({{num_to_cand[n]}}) for n in {line}[1:]])"), mode="eval").body) \
            and any(bl.iter is u_ or astx.u(bl.iter) == astx.u(u_) for u_ in ballot_block)
    ctx.check(good, f, f.node, "ballot line = multiplicity followed by candidate numbers, mapped to the declared candidates in order; one ballot per line of the ballot block", "",
              "ballot-line parsing changed")
    rets = [n for n in astx.walk_own(f.node) if isinstance(n, ast.Return)]
    ctx.check(len(rets) == 1 and astx.u(rets[0].value) == "(profile, seats, cand_list, cand_to_party, ward)" and
              defs.get("profile") == "PreferenceProfile(ballots=tuple(ballots), candidates=tuple(cand_list)).condense_ballots()", f, rets[0] if rets else f.node,
              "returns (profile with the declared candidates, seats, names, parties, ward)", "", "return tuple changed")
    _blank_rows(ctx, f)


def _blank_rows(ctx, f):
    """Blank rows: the test that decides whether a row of the reader is stored looks at the row AFTER its empty cells were
    removed, and that cleaned row is what is stored - a test on the raw cells lets a row of empty cells (`,,,`) through as an
    empty row, which the metadata reads below index into.  Decided on the reader loop by role, not by the local's name."""
    pm = astx.parents(f.node)
    construct = "blank rows are skipped, all others kept"
    loops = []
    for n in astx.walk_own(f.node):
        if isinstance(n, ast.For) and isinstance(n.target, ast.Name):
            it = astx.unique_def(f.node, n.iter.id) if isinstance(n.iter, ast.Name) else n.iter
            if isinstance(it, ast.Call) and astx.call_name(it) in ("reader", "csv.reader"):
                loops.append(n)
    if len(loops) != 1:
        ctx.undecided(f, f.node, construct, f"{len(loops)} loops over a csv.reader (one expected)")
        return
    lp = loops[0]
    row = lp.target.id
    stores = [c for c in astx.calls_in(lp) if isinstance(c.func, ast.Attribute) and c.func.attr == "append" and len(c.args) == 1]
    if len(stores) != 1:
        ctx.undecided(f, lp, construct, f"{len(stores)} append calls in the reader loop (one expected)")
        return
    st = stores[0]
    skips = [n for n in ast.walk(lp) if isinstance(n, (ast.Break, ast.Return))]
    N = Normalizer(f.node, inline=True)
    conds = [(t, p) for t, p in astx.path_condition(f.node, st, pm) if any(astx.enclosing(t, pm, ast.For) is lp or pm.get(t) is x for x in ast.walk(lp) if isinstance(x, ast.If) and x.test is t)]
    k = bool_key(N.conj(conds)) if conds else "True"
    try:
        stored = N.key(st.args[0])
    except Exception:  # noqa
        stored = astx.u(st.args[0])
    # the helper that converts the cells may do the cleaning: read through a local function called on the stored value
    helper_src = ""
    if isinstance(st.args[0], ast.Call) and isinstance(st.args[0].func, ast.Name):
        for n in ast.walk(f.node):
            if isinstance(n, ast.FunctionDef) and n.name == st.args[0].func.id and n is not f.node:
                helper_src = astx.u(n)
    cleaned_test = "''" in k
    cleaned_store = "''" in stored or "''" in helper_src
    if skips:
        ctx.violated(f, skips[0], construct, f"`{astx.u(skips[0])}` in the reader loop: the rows after it are not read")
    elif k == "True":
        ctx.violated(f, st, construct, f"`{astx.u(st)[:70]}` is unconditional: blank rows are stored as empty rows")
    elif cleaned_test and "''" in stored:
        ctx.ok(f, st, construct, f"stored under `{k[:90]}`")
    elif not cleaned_test and re.search(rf"\b{row}\b", k) and set(re.findall(r"[A-Za-z_][A-Za-z_0-9]*", k)) <= {row, "truthy", "len", "gt", "ge", "ne", "not", "eq", "lt", "le", "and", "or"}:
        ctx.violated(f, st, construct, f"`{astx.u(st)[:70]}` is decided by `{k}`, a test on the raw cells of the row" +
                     (", while the empty cells are removed afterwards" if cleaned_store else "") + ": a row of empty cells (`,,,`) counts as non-blank and is stored as an empty row")
    else:
        ctx.undecided(f, st, construct, f"store `{astx.u(st)[:60]}` under `{k[:90]}`: neither the cleaned-row test nor a raw-row test")


def r5_to_csv(ctx):
    prog = ctx.prog
    f = prog.find_func("PreferenceProfile.to_csv")
    pm = astx.parents(f.node)
    # the declared fields: the writer's fieldnames= argument (read through a temporary when there is one)
    fn = None
    for w in astx.calls_in(f.node, "DictWriter"):
        fv = next((k.value for k in w.keywords if k.arg == "fieldnames"), w.args[1] if len(w.args) > 1 else None)
        fn = astx.unique_def(f.node, fv.id) if isinstance(fv, ast.Name) else fv
    if not isinstance(fn, (ast.List, ast.Tuple)):
        fn = None
    rows = astx.calls_in(f.node, "writerow")
    good = False
    d = ""
    if len(rows) == 1 and isinstance(rows[0].args[0], ast.Dict) and fn is not None:
        keys = [astx.const(k) for k in rows[0].args[0].keys]
        lp = astx.enclosing(rows[0], pm, ast.For)
        no_skip = lp is not None and not any(isinstance(n, (ast.Continue, ast.Break, ast.Return)) for n in ast.walk(lp))
        vals = {astx.const(k): astx.u(v) for k, v in zip(rows[0].args[0].keys, rows[0].args[0].values)}
        b = astx.u(lp.target) if lp is not None else "?"
        d = f"fieldnames={astx.u(fn)}, row keys={keys}"
        good = sorted(keys) == sorted(astx.const(x) for x in fn.elts) and lp is not None and astx.u(lp.iter) == "self.ballots" and no_skip \
            and pm.get(astx.stmt_of(rows[0], pm)) is lp and vals.get("weight") == f"float({b}.weight)" and vals.get("ranking") == "ranking" and vals.get("scores") == "scores"
    ctx.check(good, f, rows[0] if rows else f.node, "one row per ballot with exactly the declared fields (weight, ranking, scores)", d, f"writer is `{d}`")
    # the row's ranking / scores are recomputed for every ballot (no value carried over from the previous one)
    if rows:
        lp = astx.enclosing(rows[0], pm, ast.For)
        if lp is not None:
            from vk import da
            wanted = {astx.u(v) for v in rows[0].args[0].values if isinstance(v, ast.Name)}
            fake = ast.parse("def _it(" + astx.u(lp.target) + "):\n    pass\n").body[0]
            fake.body = lp.body
            stale = sorted({fd.name for fd in da.DA(fake).run()} & wanted)
            ctx.check(not stale, f, lp, "every row value is (re)computed inside the ballot loop on every path", "",
                      f"{stale} can keep the value of the previous ballot (or of before the loop): a ballot without that part is written with another ballot's data")
    hdr = astx.calls_in(f.node, "writeheader")
    ctx.check(len(hdr) == 1 and (not rows or hdr[0].lineno < rows[0].lineno), f, hdr[0] if hdr else f.node, "header written once before the rows", "", "header handling changed")


RULES = [
    ("C18.R1", r1_column_space, 5, "column-index space: no original index on a re-projected frame; ranking columns in requested order"),
    ("C18.R2", r2_grouping, 6, "groupby(dropna=False); weight source; one ballot per group; blanks kept"),
    ("C18.R3", r3_guards, 12, "guard / exception table for load_csv and load_scottish, before any ballot"),
    ("C18.R4", r4_scottish, 6, "Scottish: one split index at all uses; i+1 numbering; line parsing; return tuple"),
    ("C18.R5", r5_to_csv, 3, "to_csv: one row per ballot, row keys = fieldnames"),
]

CV = "src/votekit/cvr_loaders.py"
PP = "src/votekit/pref_profile.py"
FAULTS = [
    ("projection again", [(CV, "    if rank_cols:\n        ranks = list(df.columns[rank_cols])\n    else:", "    if rank_cols:\n        df = df.iloc[:, rank_cols + ([id_col] if id_col is not None else [])]\n        ranks = list(df.columns[: len(rank_cols)])\n    else:")], "C18.R1"),
    ("rank cols sorted", [(CV, "        ranks = list(df.columns[rank_cols])", "        ranks = list(df.columns[sorted(rank_cols)])")], "C18.R1"),
    ("dropna default", [(CV, "grouped = df.groupby(ranks, dropna=False)", "grouped = df.groupby(ranks)")], "C18.R2"),
    ("weight = distinct ids", [(CV, "        weight = len(group_df)\n", "        weight = len(set(group_df.iloc[:, 0]))\n")], "C18.R2"),
    ("weight column max", [(CV, "            weight = sum(group_df.iloc[:, weight_col])", "            weight = max(group_df.iloc[:, weight_col])")], "C18.R2"),
    ("blank cells dropped", [(CV, "            [frozenset({None}) if pd.isnull(c) else frozenset({c}) for c in group]", "            [frozenset({c}) for c in group if not pd.isnull(c)]")], "C18.R2"),
    ("single-row groups skipped", [(CV, "        weight = len(group_df)\n", "        weight = len(group_df)\n        if weight == 0:\n            continue\n")], "C18.R2"),
    ("duplicate id check dropped", [(CV, "    if id_col is not None and not df.iloc[:, id_col].is_unique:", "    if id_col is not None and False:")], "C18.R3"),
    ("null id raises DataError", [(CV, "        raise ValueError(f\"Missing value(s) in column at index {id_col}\")", "        raise DataError(f\"Missing value(s) in column at index {id_col}\")")], "C18.R3"),
    ("scottish split off by one in ballots", [(CV, "    for i, line in enumerate(data[1 : len(data) - (cand_num + 1)]):", "    for i, line in enumerate(data[1 : len(data) - cand_num]):")], "C18.R4"),
    ("scottish zero-based numbering", [(CV, "        num_to_cand[i + 1] = cand", "        num_to_cand[i] = cand")], "C18.R4"),
    ("scottish weight ignored", [(CV, "        ballot_weight = Fraction(line[0])", "        ballot_weight = Fraction(1)")], "C18.R4"),
    ("scottish seats from wrong cell", [(CV, "    cand_num, seats = data[0][0], data[0][1]", "    cand_num, seats = data[0][0], data[0][0]")], "C18.R4"),
    ("to_csv skips zero weight", [(PP, "            for ballot in self.ballots:\n                if ballot.ranking:\n                    ranking = tuple([set(s) for s in ballot.ranking])", "            for ballot in self.ballots:\n                if ballot.weight == 0:\n                    continue\n                if ballot.ranking:\n                    ranking = tuple([set(s) for s in ballot.ranking])")], "C18.R5"),
    ("to_csv int weight", [(PP, "                        \"weight\": float(ballot.weight),", "                        \"weight\": int(ballot.weight),")], "C18.R5"),
]
FAULTS += [
    ("to_csv carries ranking over", [(PP, "                if ballot.ranking:\n                    ranking = tuple([set(s) for s in ballot.ranking])\n                else:\n                    ranking = tuple()\n", "                if ballot.ranking:\n                    ranking = tuple([set(s) for s in ballot.ranking])\n")], "C18.R5"),
]
BENIGN = [
    ("empty check via bool()", [(CV, "    if df.empty:\n", "    if bool(df.empty):\n")]),
]

# blank rows of a Scottish file (role-based clause of C18.R4)
_ROWS = ("            filtered_row = list(filter(lambda x: x != \"\", row))\n", "                data.append(convert_row(filtered_row))\n")
FAULTS += [
    ("blank test on the raw row, cells cleaned by the converter", [
        (CV, "        return [int(item) if item.isdigit() else item for item in row]\n", "        return [int(item) if item.isdigit() else item for item in row if item != \"\"]\n"),
        (CV, "            if len(filtered_row) > 0:\n                data.append(convert_row(filtered_row))\n", "            if len(row) > 0:\n                data.append(convert_row(row))\n")], "C18.R4"),
    ("blank test on the raw row", [(CV, "            if len(filtered_row) > 0:\n", "            if len(row) > 0:\n")], "C18.R4"),
    ("reading stops at the first blank row", [(CV, "                data.append(convert_row(filtered_row))\n", "                data.append(convert_row(filtered_row))\n            else:\n                break\n")], "C18.R4"),
]
BENIGN += [
    ("cleaned row under another name, by comprehension", [
        (CV, "            filtered_row = list(filter(lambda x: x != \"\", row))\n", "            cells = [x for x in row if x != \"\"]\n"),
        (CV, "            if len(filtered_row) > 0:\n                data.append(convert_row(filtered_row))\n", "            if cells:\n                data.append(convert_row(cells))\n")]),
    ("blank rows skipped with continue", [
        (CV, "            if len(filtered_row) > 0:\n                data.append(convert_row(filtered_row))\n", "            if not filtered_row:\n                continue\n            data.append(convert_row(filtered_row))\n")]),
]
