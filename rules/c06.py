"""C06 — pairwise comparison, dominating tiers, Condorcet consistency: structural clauses (DESIGN §5/C06)."""
from __future__ import annotations

import ast
import re

from vk import astx, numkind, elect, pairsym
from vk.report import shape_rule
from vk.algebra import Normalizer, bool_key, literals, spec_rat, NotClosedForm
from vk.loader import AnalysisError
from rules import c04, c08

EXPLANATION = (
    "Exactness, formula/orientation and sibling-agreement rules over PairwiseComparisonGraph and the "
    "two rules built on it. Decides: exact rationals in ballot_fill / head2head_count / "
    "compute_pairwise_dict; head-to-head counting (first of the two candidates met on a ballot wins "
    "its weight); partial ballots completed by every permutation of the missing candidates at equal "
    "weight, appended after the listed ones; the stored margin is |h(a,b)-h(b,a)| under the key whose "
    "count is larger, both orientations with 0 on a pairwise tie; graph edges point from key[0] to "
    "key[1]; tiers are grouped by reach-set size and ordered by it descending; every consumer treats "
    "index 0 as the top tier; DominatingSets elects exactly tier 0 and keeps tiers[1:] in order; "
    "CondoBorda selects from the tiers in order with the borda tiebreak. Does NOT decide that the "
    "reach-size grouping equals the Smith-set decomposition on every profile (graph reachability is a "
    "runtime fact)."
)
ASSUMPTIONS = ["networkx.has_path is reachability in the directed graph (trusted)",
               "itertools.permutations / combinations enumerate each arrangement / pair once (trusted)"]
TRUSTED = ["networkx.has_path", "itertools.permutations", "itertools.combinations"]


def r1_exact(ctx):
    prog = ctx.prog
    for name in ("PairwiseComparisonGraph.ballot_fill", "PairwiseComparisonGraph.head2head_count", "PairwiseComparisonGraph.compute_pairwise_dict"):
        f = prog.find_func(name)
        ev = numkind.exactness_events(prog, f)
        div = numkind.inexact_divisions(prog, f)
        if not ev and not div:
            ctx.ok(f, f.node, f"{f.name}: exact arithmetic", "")
        for e in ev:
            ctx.violated(f, e.node, f"{f.name}: inexact value reaches an exact sink", e.detail)
        for n, l, r in div:
            if not ev:
                ctx.violated(f, n, f"{f.name}: int/int true division", f"`{astx.u(n)[:60]}` ({l} / {r})")


def r2_counts_and_margin(ctx):
    prog = ctx.prog
    # head2head_count
    f = prog.find_func("PairwiseComparisonGraph.head2head_count")
    c1, c2 = f.params[1:3]
    pm = astx.parents(f.node)
    augs = [n for n in astx.walk_own(f.node) if isinstance(n, ast.AugAssign)]
    good = False
    d = ""
    if len(augs) == 1:
        a = augs[0]
        loops = [l for l in astx.enclosing_loops(a, pm, f.node) if isinstance(l, ast.For)]
        if len(loops) == 2:
            pos, bal = loops
            b = astx.u(bal.target)
            s = astx.u(pos.target)
            N = Normalizer(f.node, inline=False)
            la = literals(N.conj(astx.path_condition(f.node, a, pm)))
            brks = [x for x in ast.walk(pos) if isinstance(x, ast.Break) and astx.enclosing(x, pm, (ast.For, ast.While)) is pos]
            lbs = sorted(sorted(literals(N.conj(astx.path_condition(f.node, x, pm)))) for x in brks)
            it = astx.unique_def(f.node, astx.u(pos.iter)) if isinstance(pos.iter, ast.Name) else pos.iter
            bi = astx.unique_def(f.node, astx.u(bal.iter)) if isinstance(bal.iter, ast.Name) else bal.iter
            # the scan stops at the first position holding either candidate; it counts the ballot iff that position holds a
            blk = pm.get(a)
            stops_after = any(isinstance(x, ast.Break) for fld in ("body", "orelse") for x in (getattr(blk, fld, []) or []) if any(y is a for y in getattr(blk, fld, []))
                              and getattr(x, "lineno", 0) >= a.lineno)
            d = f"+= {astx.u(a.value)} under {sorted(la)}; breaks under {lbs}"
            good = (la == {f"in({c1}, {s})"} and lbs == sorted([sorted([f"in({c1}, {s})"]), sorted([f"in({c2}, {s})", f"not in({c1}, {s})"])]) and stops_after
                    and astx.u(a.value) == f"{b}.weight" and isinstance(a.op, ast.Add) and it is not None and astx.u(it) == f"{b}.ranking" and bi is not None and astx.u(bi) == "self.profile.ballots")
        elif len(loops) == 1:
            # the same scan as a first-match search:  first = next((s for s in b.ranking if a in s or b in s), None);
            # the ballot counts iff such a position exists and holds a
            from vk.algebra import equivalent, spec_guard
            bal = loops[0]
            b = astx.u(bal.target)
            N = Normalizer(f.node, inline=True)
            la = literals(N.conj(astx.path_condition(f.node, a, pm)))
            firsts = [n for st in bal.body for n in ast.walk(st) if isinstance(n, ast.Call) and astx.u(n.func) == "next" and len(n.args) == 2 and astx.is_const(n.args[1], None)
                      and isinstance(n.args[0], ast.GeneratorExp)]
            bi = astx.unique_def(f.node, astx.u(bal.iter)) if isinstance(bal.iter, ast.Name) else bal.iter
            d = f"+= {astx.u(a.value)} under {sorted(la)}"
            if firsts and len({astx.u(x) for x in firsts}) == 1:
                g = firsts[0].args[0]
                s = astx.u(g.generators[0].target)
                K = N.key(firsts[0])
                okgen = len(g.generators) == 1 and astx.u(g.generators[0].iter) == f"{b}.ranking" and astx.u(g.elt) == s and len(g.generators[0].ifs) >= 1 \
                    and equivalent(Normalizer(None, inline=False).conj([(t, True) for t in g.generators[0].ifs]), spec_guard(f"{c1} in {s} or {c2} in {s}"))
                good = okgen and la == {f"not isnone({K})", f"in({c1}, {K})"} and astx.u(a.value) == f"{b}.weight" and isinstance(a.op, ast.Add) \
                    and bi is not None and astx.u(bi) == "self.profile.ballots" and not any(isinstance(x, (ast.Break, ast.Continue, ast.Return)) for x in ast.walk(bal))
    ctx.check(good, f, augs[0] if augs else f.node, "head2head(a,b): a ballot counts for a iff a is met before b", d,
              f"counting loop is `{d}`; documented: scan positions, add the weight and stop when a is found, stop when b is found")
    init = [dv for st, dv in astx.defs_of(f.node, astx.u(augs[0].target)) if dv is not None] if augs else []
    ctx.check(len(init) == 1 and astx.u(init[0]) in ("0", "Fraction(0)"), f, f.node, "count starts at 0", "", "head-to-head count does not start at zero")
    # ballot_fill
    f = prog.find_func("PairwiseComparisonGraph.ballot_fill")
    pm = astx.parents(f.node)
    ctors = [c for c in astx.calls_in(f.node, "Ballot")]
    good = False
    d = ""
    fill_lits = set()
    if len(ctors) == 1:
        c = ctors[0]
        kw = {k.arg: k.value for k in c.keywords}
        loops = [l for l in astx.enclosing_loops(c, pm, f.node) if isinstance(l, ast.For)]
        if len(loops) == 2 and "weight" in kw and "ranking" in kw:
            perm_loop, bal_loop = loops
            b = astx.u(bal_loop.target)
            perm = astx.u(perm_loop.target)
            plist = astx.unique_def(f.node, astx.u(perm_loop.iter)) if isinstance(perm_loop.iter, ast.Name) else perm_loop.iter
            pk = astx.u(astx.strip_wrappers(plist)) if plist is not None else ""
            mm = re.fullmatch(r"permutations\((\w+), len\(\1\)\)|permutations\((\w+)\)", pk)
            missing = (mm.group(1) or mm.group(2)) if mm else None
            miss = astx.unique_def(f.node, missing) if missing else None
            okmiss = isinstance(miss, astx.LCOMP) and [bool_key(Normalizer(None, inline=False).guard(t)) for t in miss.generators[0].ifs] == [f"not in({miss.generators[0].target.id}, {b}.ranking)"] \
                and astx.is_name(miss.elt, miss.generators[0].target.id)
            cl = astx.unique_def(f.node, astx.u(miss.generators[0].iter)) if okmiss and isinstance(miss.generators[0].iter, ast.Name) else None
            okmiss = okmiss and cl is not None and astx.u(cl) == astx.A(f"[{{cand}} for cand in {f.params[1]}.candidates]")

            def rename(e):
                if astx.u(e) == f"{b}.weight":
                    return "W"
                if isinstance(e, ast.Call) and astx.u(e.func) == "len" and e.args and astx.u(e.args[0]) == astx.u(perm_loop.iter):
                    return "P"
                return None
            N = Normalizer(f.node, inline=True, rename=rename)
            try:
                okw = N.rat(kw["weight"]).equals(spec_rat("W / P"))
                wk = N.rat(kw["weight"]).key()
            except NotClosedForm as e:
                okw, wk = False, str(e)
            rv = kw["ranking"]
            rv = astx.unique_def(f.node, rv.id) if isinstance(rv, ast.Name) else rv
            rk = astx.u(rv) if rv is not None else ""
            okr = rk == astx.A(f"{b}.ranking + tuple([frozenset(c) for c in {perm}])")
            fill_lits = literals(Normalizer(f.node, inline=False, int_atoms=lambda a: True).conj(astx.path_condition(f.node, c, pm)))
            want = literals(Normalizer(None, inline=False, int_atoms=lambda a: True).conj([(ast.parse(f"len({b}.ranking) < {f.params[2]}", mode="eval").body, True)]))
            d = f"weight={wk}; ranking={rk}; perms={pk}; under {sorted(fill_lits)}"
            good = okw and okr and mm is not None and okmiss and want <= fill_lits
    ctx.check(bool(good), f, ctors[0] if ctors else f.node, "partial ballot -> every completion by a permutation of the missing candidates, equal share, appended last", d,
              f"completion is `{d}`")
    keep = [c for c in astx.calls_in(f.node, "append") if c.args and isinstance(c.args[0], ast.Name)]
    goodk = False
    kept_sites = 0
    for c in keep:
        lits = literals(Normalizer(f.node, inline=False, int_atoms=lambda a: True).conj(astx.path_condition(f.node, c, pm)))
        loops = [l for l in astx.enclosing_loops(c, pm, f.node) if isinstance(l, ast.For)]
        if len(loops) == 1 and astx.u(c.args[0]) == astx.u(loops[0].target):
            # every place that carries a ballot over unchanged does so only for full-length ballots
            negs = {(l[4:] if l.startswith("not ") else "not " + l) for l in fill_lits if "ballot_length" in l or f.params[2] in l}
            ok_here = bool(negs) and negs <= lits
            goodk = ok_here if kept_sites == 0 else (goodk and ok_here)
            kept_sites += 1
    ctx.check(goodk, f, f.node, "full-length ballots are kept unchanged", "", "complete ballots are not carried over unchanged")
    # compute_pairwise_dict: the guarded stores of the pair loop, evaluated on the three sign regions of
    # d = h(a,b) - h(b,a)  (finite case split; nothing is executed)
    f = prog.find_func("PairwiseComparisonGraph.compute_pairwise_dict")
    pls = pairsym.pair_loops(f.node)
    if len(pls) != 1:
        raise AnalysisError("compute_pairwise_dict: expected exactly one loop over combinations(<candidates>, 2)")
    lp, a, b = pls[0]
    it = lp.iter if not isinstance(lp.iter, ast.Name) else astx.unique_def(f.node, lp.iter.id)
    ctx.check(it is not None and astx.u(astx.strip_wrappers(it)) == "combinations(self.candidates, 2)", f, lp, "every unordered pair of candidates is visited once", "",
              "pairs are not combinations(self.candidates, 2)")
    idx = [x for x in astx.walk_own(f.node) if isinstance(x, ast.For)].index(lp)
    stores = pairsym.guarded_stores(f.node, idx, a, b)
    N0 = Normalizer(None, inline=False)
    dsrc = f"self.head2head_count({a}, {b}) - self.head2head_count({b}, {a})"
    d = N0.rat(ast.parse(dsrc, mode="eval").body)
    regs_pos, _ = pairsym.sign_regions(literals(N0.guard(ast.parse(dsrc + " > 0", mode="eval").body)))
    (Q, rp), = regs_pos.items()
    flip = {"pos": "neg", "neg": "pos", "zero": "zero"}
    absk = f"abs({min(d.normalised().key(), (-d).normalised().key())})"
    dd = "{" + ", ".join(sorted([f"({a}, {b}): self.head2head_count({a}, {b})", f"({b}, {a}): self.head2head_count({b}, {a})"])) + "}"
    argmax = f"max(zip({dd}.values(), {dd}.keys()))[1]"
    table = {r: set() for r in pairsym.REGIONS}
    problems = []
    for cont, key, val, regs, rest, N, tag, st in stores:
        if cont != "pairwise_dict" and not any(isinstance(x, ast.Return) and astx.u(x.value) == cont for x in astx.walk_own(f.node)):
            continue  # a scratch dictionary, not the result
        if rest or set(regs) - {Q}:
            problems.append(f"store `{astx.u(st)[:60]}` is guarded by something other than the sign of h({a},{b}) - h({b},{a}): {sorted(rest) + sorted(set(regs) - {Q})}")
            continue
        kk = N.key(key)
        try:
            v = N.rat(val)
        except NotClosedForm:
            v = None
        for r in pairsym.REGIONS:  # r: sign of d
            rq = r if rp == frozenset({"pos"}) else flip[r]
            if rq not in regs.get(Q, frozenset(pairsym.REGIONS)):
                continue
            if kk == f"[{a}, {b}]":
                kc = "ab"
            elif kk == f"[{b}, {a}]":
                kc = "ba"
            elif kk == argmax and r != "zero":
                kc = "ab" if r == "pos" else "ba"
            else:
                kc = "?" + kk[:60]
            if v is None:
                vc = "?" + N.key(val)[:60]
            elif v.is_zero() or r == "zero" and (v.equals(d) or v.equals(-d) or v.key() == absk):
                vc = "0"
            elif v.key() == absk:
                vc = "|d|"
            elif v.equals(d):
                vc = "|d|" if r == "pos" else "-|d|"
            elif v.equals(-d):
                vc = "|d|" if r == "neg" else "-|d|"
            else:
                vc = "?" + v.key()[:80]
            table[r].add((kc, vc, tag))
    d_txt = "; ".join(f"d{'>' if r == 'pos' else '<' if r == 'neg' else '='}0: {sorted(table[r])}" for r in ("pos", "neg", "zero"))
    good = not problems and table["pos"] == {("ab", "|d|", "")} and table["neg"] == {("ba", "|d|", "")}
    ctx.check(good, f, lp, "margin = |h(a,b) - h(b,a)| stored under the (winner, loser) key when the two counts differ", d_txt,
              f"with d = h({a},{b}) - h({b},{a}) the stores are: {d_txt}" + ("; " + "; ".join(problems) if problems else ""))
    good = not problems and table["zero"] == {("ab", "0", ""), ("ba", "0", "")}
    ctx.check(good, f, lp, "pairwise tie: both orientations stored with margin 0", d_txt, f"with d = h({a},{b}) - h({b},{a}) the stores are: {d_txt}")
    # graph orientation
    f = prog.find_func("PairwiseComparisonGraph.build_graph")
    edges = astx.calls_in(f.node, "add_edge")
    good = False
    if len(edges) == 1:
        lp = astx.enclosing(edges[0], astx.parents(f.node), ast.For)
        kw = {k.arg: astx.u(k.value) for k in edges[0].keywords}
        # the stored margins are walked either by key (weight looked up) or by item (weight bound by the loop)
        if lp is not None and isinstance(lp.target, ast.Tuple) and len(lp.target.elts) == 2 and astx.u(lp.iter) == "self.pairwise_dict.items()":
            e, w = astx.u(lp.target.elts[0]), astx.u(lp.target.elts[1])
            if isinstance(lp.target.elts[0], ast.Tuple) and len(lp.target.elts[0].elts) == 2:
                ends = [astx.u(x) for x in lp.target.elts[0].elts]
            else:
                ends = [f"{e}[0]", f"{e}[1]"]
            rebound = any(isinstance(x, ast.Name) and isinstance(x.ctx, ast.Store) for st in lp.body for x in ast.walk(st))
            good = [astx.u(x) for x in edges[0].args] == ends and kw == {"weight": w} and not rebound
        else:
            e = astx.u(lp.target) if lp is not None else "?"
            good = lp is not None and astx.u(lp.iter) == "self.pairwise_dict" and [astx.u(x) for x in edges[0].args] == [f"{e}[0]", f"{e}[1]"] \
                and kw == {"weight": f"self.pairwise_dict[{e}]"}
    if len(edges) == 1:
        # one edge per stored margin: nothing in the loop decides whether the edge is added
        pme = astx.parents(f.node)
        lp = astx.enclosing(edges[0], pme, ast.For)
        if lp is not None and (pme.get(astx.stmt_of(edges[0], pme)) is not lp or any(isinstance(x, (ast.Continue, ast.Break, ast.Return)) for x in ast.walk(lp))):
            good = False
    nodes = astx.calls_in(f.node, "add_nodes_from")
    good = good and len(nodes) == 1 and astx.u(nodes[0].args[0]) == "self.candidates"
    ctx.check(good, f, edges[0] if edges else f.node, "graph: all candidates are nodes; an edge key[0] -> key[1] per stored margin", "", "graph construction changed orientation or node set")
    # constructor wiring
    f = prog.find_func("PairwiseComparisonGraph.__init__")
    txt = [astx.u(n) for n in astx.walk_own(f.node) if isinstance(n, ast.Assign)]
    good = all(t in txt for t in ["self.profile = full_profile", "self.candidates = self.profile.candidates", "self.pairwise_dict = self.compute_pairwise_dict()",
                                  "self.pairwise_graph = self.build_graph()"]) and any(t.startswith("full_profile = self.ballot_fill(profile, self.ballot_length)") for t in txt)
    ctx.check(good, f, f.node, "constructor: fill -> candidates -> pairwise dict -> graph", "", "constructor wiring of the pairwise graph changed")


def r3_tiers(ctx):
    prog = ctx.prog
    f = prog.find_func("PairwiseComparisonGraph.dominating_tiers")
    pm = astx.parents(f.node)
    # reach sets
    hp = astx.calls_in(f.node, "has_path")
    good = False
    if len(hp) == 1:
        from vk import listform
        q = prog.resolve_expr(f.module, hp[0].func)
        outer = [l for l in astx.enclosing_loops(hp[0], pm, f.node) if isinstance(l, ast.For)]
        cand = astx.u(outer[-1].target) if outer else None
        # the collection the reachable candidates are gathered in: a set comprehension, or a set filled by .add in a loop
        sizes0 = [n for n in astx.walk_own(f.node) if isinstance(n, ast.Call) and astx.u(n.func) == "len" and n.args]
        b = None
        for z in sizes0:
            b = listform.build_of(f.node, z.args[0])
            if b is not None and any(x is hp[0] for x in ast.walk(b.loop if b.loop is not None else b.node)):
                break
            b = None
        if b is not None and cand is not None:
            other = b.var
            args = [astx.u(a) for a in hp[0].args]
            lits = b.filter_literals(f.node, Normalizer(f.node, inline=False))
            good = q == "networkx.has_path" and args == ["self.pairwise_graph", cand, other] and astx.u(b.iter) == "self.candidates" and astx.u(outer[-1].iter) == "self.candidates" \
                and b.kind == "map" and astx.u(b.elt) == other \
                and lits in ({f"not eq({cand}, {other})", f"truthy(nx.has_path(self.pairwise_graph, {cand}, {other}))"}, {f"not eq({other}, {cand})", f"truthy(nx.has_path(self.pairwise_graph, {cand}, {other}))"})
    ctx.check_shape(good, f, hp[0] if hp else f.node, "reach set of c = every other candidate reachable from c in the beats-or-ties graph", "", "reach-set computation changed")
    sizes = [n for n in astx.walk_own(f.node) if isinstance(n, ast.Assign) and isinstance(n.targets[0], ast.Subscript) and isinstance(n.value, ast.Call) and astx.u(n.value.func) == "len"]
    ctx.check_shape(len(sizes) == 1, f, sizes[0] if sizes else f.node, "tiers are keyed by reach-set size", "", "tier key is no longer len(reach set)")
    # order
    rets = [n for n in astx.walk_own(f.node) if isinstance(n, ast.Return)]
    rv = rets[0].value if rets else None
    rv = astx.unique_def(f.node, rv.id) if isinstance(rv, ast.Name) else rv
    good = False
    d = astx.u(rv) if rv is not None else ""
    if isinstance(rv, astx.LCOMP):
        srt = rv.generators[0].iter
        if isinstance(srt, ast.Call) and astx.u(srt.func) == "sorted":
            kw = {k.arg: k.value for k in srt.keywords}
            td = astx.u(srt.args[0])
            good = astx.is_const(kw.get("reverse"), True) and "key" not in kw and astx.u(rv.elt) == f"{td}[{astx.u(rv.generators[0].target)}]" and isinstance(srt.args[0], (ast.Name, ast.Attribute))
    ctx.check_shape(good, f, rets[0] if rets else f.node, "tiers ordered by reach-set size, largest first", d, f"tier list is `{d}`; documented sorted(sizes, reverse=True)")
    # consumers of tier 0
    f = prog.find_func("PairwiseComparisonGraph.has_condorcet_winner")
    N = Normalizer(f.node, inline=True, int_atoms=lambda a: True)
    tests = [n.value for n in astx.walk_own(f.node) if isinstance(n, ast.Return) and n.value is not None]
    k = bool_key(N.guard(tests[0])) if len(tests) == 1 else ""
    ctx.check(k == "eq(len(self.dominating_tiers()[0]), 1)", f, tests[0] if tests else f.node, "Condorcet winner exists iff tier 0 is a single candidate", k,
              f"has_condorcet_winner tests `{k}`")
    f = prog.find_func("PairwiseComparisonGraph.get_condorcet_winner")
    pm = astx.parents(f.node)
    rets = [n for n in astx.walk_own(f.node) if isinstance(n, ast.Return)]
    good = False
    if rets:
        lits = literals(Normalizer(f.node, inline=False).conj(astx.path_condition(f.node, rets[0], pm)))
        good = astx.u(rets[0].value) == "list(self.dominating_tiers()[0])[0]" and lits == {"truthy(self.has_condorcet_winner())"}
    ctx.check(good, f, rets[0] if rets else f.node, "Condorcet winner = the member of tier 0, only when it is a singleton", "", "get_condorcet_winner changed")
    f = prog.find_func("DominatingSets._run_step")
    tv = None
    for n in astx.walk_own(f.node):
        if isinstance(n, ast.Assign) and isinstance(n.value, ast.Call) and astx.call_name(n.value) == "dominating_tiers":
            tv = astx.u(n.targets[0])
            g = astx.unique_def(f.node, astx.u(n.value.func.value))
            ctx.check(g is not None and astx.u(g) == f"PairwiseComparisonGraph({f.params[1]})", f, n, "DominatingSets builds the graph of the step's profile", "", "graph is not built from the step's profile")
    # the tier list is a list ordered by construction (clauses above), so indexing a copy of it that was mapped element by
    # element is mapping the indexed tier: tuple(frozenset(s) for s in tiers)[0] == frozenset(tiers[0])
    import copy
    from vk.canon import IndexThroughMap

    def thru(e):
        return astx.u(ast.fix_missing_locations(IndexThroughMap().visit(copy.deepcopy(e)))) if e is not None else None
    kw = {}
    for sc in elect.state_ctor_calls(prog, f):
        kw = {k: thru(astx.unique_def(f.node, v.id) if isinstance(v, ast.Name) else v) for k, v in elect.state_kwargs(prog, sc).items()}
    # (which candidates are struck does not depend on the container they are handed over in)
    rc = []
    for c in astx.calls_in(f.node, "remove_cand"):
        a0 = ast.parse(thru(c.args[0]), mode="eval").body
        rc.append(astx.u(astx.strip_wrappers(a0, ("list", "tuple", "frozenset", "set"))))
    good = tv is not None and kw.get("elected") == f"(frozenset({tv}[0]),)" and kw.get("remaining") == astx.A(f"tuple([frozenset(s) for s in {tv}[1:]])") and rc == [f"{tv}[0]"]
    ctx.check(good, f, f.node, "DominatingSets elects exactly tier 0, keeps tiers[1:] in order, removes tier 0", str(kw), f"DominatingSets records {kw}, removes {rc}")
    f = prog.find_func("CondoBorda._run_step")
    tv = None
    for n in astx.walk_own(f.node):
        if isinstance(n, ast.Assign) and isinstance(n.value, ast.Call) and astx.call_name(n.value) == "dominating_tiers":
            tv = astx.u(n.targets[0])
            g = astx.unique_def(f.node, astx.u(n.value.func.value))
            ctx.check(g is not None and astx.u(g) == f"PairwiseComparisonGraph({f.params[1]})", f, n, "CondoBorda builds the graph of the step's profile", "", "graph is not built from the step's profile")
    sel = astx.calls_in(f.node, "elect_cands_from_set_ranking")
    good = False
    if sel and tv:
        rk = sel[0].args[0]
        rd = astx.unique_def(f.node, rk.id) if isinstance(rk, ast.Name) else rk
        good = rd is not None and astx.u(rd) == astx.A(f"tuple([frozenset(s) for s in {tv}])")
    ctx.check(good, f, sel[0] if sel else f.node, "CondoBorda selects from the tiers in their order", "", "CondoBorda does not pass the tiers in order to the selector")


def r4_condoborda(ctx):
    sub = type(ctx)(ctx.prog, ctx.prop, ctx.tier)
    sub.cur_rule = "C06.R4"
    c04.r6_top_m(sub)
    n = 0
    for o in sub.obs:
        if "CondoBorda" in o.construct:
            o.rule = "C06.R4"
            ctx.obs.append(o)
            n += 1
    if n == 0:
        ctx.vanished("CondoBorda selector call")
    from rules import c09
    sub = type(ctx)(ctx.prog, ctx.prop, ctx.tier)
    c09.r5_recorded_scores(sub)
    for o in sub.obs:
        if "CondoBorda" in o.construct:
            o.rule = "C06.R4"
            ctx.obs.append(o)
    # prerequisite: a Borda tiebreak that leaves several groups still tied hands them to tiebroken_ranking, which must put every
    # resolution at its group's own place (C10.R9 / C03.R8); otherwise a lower-Borda tier-mate is seated first
    from rules import c10
    sub = type(ctx)(ctx.prog, ctx.prop, ctx.tier)
    c10.r9_resolution_assembly(sub)
    for o in sub.obs:
        o.rule = "C06.R4"
        ctx.obs.append(o)


RULES = [
    ("C06.R1", r1_exact, 3, "exact rationals in ballot_fill / head2head_count / compute_pairwise_dict"),
    ("C06.R2", r2_counts_and_margin, 9, "head-to-head counting, ballot completion, margin formula and key orientation, graph edges"),
    ("C06.R3", r3_tiers, 9, "tiers by reach-set size descending; every consumer uses index 0; DominatingSets / CondoBorda wiring"),
    ("C06.R4", r4_condoborda, 3, "CondoBorda: selector with tiebreak='borda' on the same profile; recorded Borda scores of the result"),
]

PG = "src/votekit/graphs/pairwise_comparison_graph.py"
DS = "src/votekit/elections/election_types/ranking/dominating_sets.py"
CB = "src/votekit/elections/election_types/ranking/condo_borda.py"
FAULTS = [
    ("h2h counts b side", [(PG, "                if cand1 in s:\n                    count += ballot.weight\n                    break\n                elif cand2 in s:\n                    break",
                            "                if cand2 in s:\n                    break\n                elif cand1 in s:\n                    count += ballot.weight")], "C06.R2"),
    ("h2h ignores weight", [(PG, "                    count += ballot.weight\n", "                    count += 1\n")], "C06.R2"),
    ("fill weight float", [(PG, "frac_freq = ballot.weight / (len(missing_cands_perms))", "frac_freq = float(ballot.weight) / (len(missing_cands_perms))")], "C06.R"),
    ("fill prepends", [(PG, "updated_rank = ballot.ranking + tuple([frozenset(c) for c in perm])", "updated_rank = tuple([frozenset(c) for c in perm]) + ballot.ranking")], "C06.R2"),
    ("margin under loser key", [(PG, "pairwise_dict[max_pair[1]] = abs(", "pairwise_dict[min(zip(head_2_head_dict.values(), head_2_head_dict.keys()))[1]] = abs(")], "C06.R2"),
    ("margin is winner count", [(PG, "                pairwise_dict[max_pair[1]] = abs(\n                    self.head2head_count(cand_a, cand_b)\n                    - self.head2head_count(cand_b, cand_a)\n                )",
                                 "                pairwise_dict[max_pair[1]] = abs(\n                    self.head2head_count(cand_a, cand_b)\n                )")], "C06.R2"),
    ("reverse count derived from the total weight (seeded C08-r2-1)", [(PG, ("        for pair in cand_pairs:", "        return pairwise_dict"), c08._PAIR_ONE_SIDED)], "C06.R2"),
    ("margin stored under the loser's key in explicit branches", [(PG, ("        for pair in cand_pairs:", "        return pairwise_dict"), c08._PAIR_SYMMETRIC.replace("if margin > 0:", "if margin < 0:").replace("elif margin < 0:", "elif margin > 0:"))], "C06.R2"),
    ("tie stored one way", [(PG, "                pairwise_dict[(cand_b, cand_a)] = Fraction(0)\n", "")], "C06.R2"),
    ("edges reversed", [(PG, "G.add_edge(e[0], e[1], weight=self.pairwise_dict[e])", "G.add_edge(e[1], e[0], weight=self.pairwise_dict[e])")], "C06.R2"),
    ("tiers ascending", [(PG, "tier_list = [tier_dict[k] for k in sorted(tier_dict.keys(), reverse=True)]", "tier_list = [tier_dict[k] for k in sorted(tier_dict.keys())]")], "C06.R3"),
    ("reach counts self", [(PG, "                if cand != other_cand:\n                    if nx.has_path", "                if True:\n                    if nx.has_path")], "C06.R3"),
    ("condorcet winner from last tier", [(PG, "return list(self.dominating_tiers()[0])[0]", "return list(self.dominating_tiers()[-1])[0]")], "C06.R3"),
    ("has_condorcet <=", [(PG, "if len(dominating_tiers[0]) == 1:", "if len(dominating_tiers[0]) >= 1:")], "C06.R3"),
    ("dominating sets elects two tiers", [(DS, "elected = (frozenset(dominating_tiers[0]),)", "elected = (frozenset(dominating_tiers[0]), frozenset(dominating_tiers[1]))")], "C06.R3"),
    ("condoborda random tiebreak", [(CB, 'dt_ranking, self.m, profile, tiebreak="borda"', 'dt_ranking, self.m, profile, tiebreak="random"')], "C06.R4"),
    ("condoborda reversed tiers", [(CB, "dt_ranking = tuple([frozenset(s) for s in dominating_tiers])", "dt_ranking = tuple([frozenset(s) for s in dominating_tiers[::-1]])")], "C06.R3"),
]
BENIGN = [
    ("pair loop rewritten with explicit margin branches", [(PG, ("        for pair in cand_pairs:", "        return pairwise_dict"), c08._PAIR_SYMMETRIC)]),
    ("has_condorcet compare flipped", [(PG, "if len(dominating_tiers[0]) == 1:", "if 1 == len(dominating_tiers[0]):")]),
    ("margin difference flipped under abs", [(PG, "                pairwise_dict[max_pair[1]] = abs(\n                    self.head2head_count(cand_a, cand_b)\n                    - self.head2head_count(cand_b, cand_a)\n                )",
                                              "                pairwise_dict[max_pair[1]] = abs(\n                    self.head2head_count(cand_b, cand_a)\n                    - self.head2head_count(cand_a, cand_b)\n                )")]),
]
