"""C09 — round queries are consistent and pure: structural clauses (DESIGN §5/C09)."""
from __future__ import annotations

import ast
import re

from vk import astx, elect, facts, effects
from vk.report import shape_rule
from vk.algebra import Normalizer, bool_key, simplify, spec_guard, equivalent, atoms_of, spec_rat, NotClosedForm
from vk.loader import AnalysisError

EXPLANATION = (
    "Static effect, guard-dominance and range rules over the query methods and the 13 _run_step "
    "definitions. Decides: query methods (and everything they call on self) write nothing to the "
    "election object or its states; _run_step writes only under `if store_states` (which only "
    "_run_election sets); replayed step logic reads no run-dependent state (no election_states, no "
    "cumulative query beyond prev_state.round_number, no attribute written after construction); "
    "every round_number query has the two-sided IndexError guard followed by `% len(states)`; the "
    "recorded scores are the class's score function applied to the returned profile; the cumulative "
    "queries use the slice/loop bounds of the documented semantics. Does NOT decide equality of the "
    "replayed profile with the stored round on all inputs."
)
ASSUMPTIONS = [
    "closed world (P0, checked every run): no getattr/setattr/__dict__/eval/exec/importlib in the package",
    "objects bound only to constructor calls / literals in the same activation are local (writes to them are not effects)",
    "virtual dispatch: self.m() may reach the definition seen by the class or any override in a subclass",
]
TRUSTED = ["python ast module"]

CUMULATIVE = {"get_elected", "get_eliminated", "get_remaining", "get_ranking", "get_status_df", "get_step"}


# --------------------------------------------------------------------------------------------- P0
REFLECTIVE = {"getattr", "setattr", "delattr", "vars", "eval", "exec", "globals", "locals", "__import__"}


def p0_closed_world(ctx):
    prog = ctx.prog
    n = 0
    for f in prog.iter_functions():
        for node in astx.walk_all(f.node):
            if isinstance(node, ast.Call) and isinstance(node.func, ast.Name) and node.func.id in REFLECTIVE:
                ctx.undecided(f, node, f"reflective call {node.func.id}()",
                              "dynamic attribute access defeats the who-may-write / effect rules")
                n += 1
            if isinstance(node, ast.Attribute) and node.attr in ("__dict__", "__class__") and isinstance(node.ctx, ast.Store):
                ctx.undecided(f, node, f"store to {node.attr}", "dynamic class/attribute rebinding")
                n += 1
    for m in prog.modules.values():
        if "importlib" in m.imports.values() or "importlib" in m.imports:
            ctx.undecided(None, None, f"importlib in {m.path}", "dynamic import")
            n += 1
    if n == 0:
        ctx.ok(None, None, "closed world", f"0 reflective accesses in {len(prog.functions)} functions")
    # positive fixture: the matcher must see a reflective call in a synthetic function
    fx = ast.parse("def f(o):\n    return getattr(o, 'x')\n").body[0]
    hit = any(isinstance(x, ast.Call) and isinstance(x.func, ast.Name) and x.func.id in REFLECTIVE for x in astx.walk_all(fx))
    if not hit:
        ctx.undecided(None, None, "P0 fixture", "matcher failed on the embedded positive example")


# --------------------------------------------------------------------------------------------- R1
def _query_defs(prog):
    out = []
    base = prog.find_class("Election")
    for q in elect.QUERIES:
        for c in prog.subclasses("Election"):
            if q in c.methods:
                out.append(c.methods[q])
    if len({f.name for f in out}) < 8:
        raise AnalysisError("anchor-missing: fewer than 8 of the documented query methods exist on Election")
    return out


def _closure(prog, f, skip=("_run_step",), depth=4):
    """Functions reachable from f through self-calls (virtual dispatch) and package-level calls."""
    seen = {f.qualname: f}
    work = [(f, 0)]
    while work:
        g, d = work.pop()
        if d >= depth or isinstance(g.node, ast.Lambda):
            continue
        for name, c in effects.self_calls(g):
            if name in skip or g.cls is None:
                continue
            for tgt in effects.dispatch(prog, g.cls, name):
                if tgt.qualname not in seen:
                    seen[tgt.qualname] = tgt
                    work.append((tgt, d + 1))
        for c in astx.calls_in(g.node):
            q = prog.resolve_expr(g.module, c.func)
            if q and q in prog.functions and q not in seen:
                seen[q] = prog.functions[q]
                work.append((prog.functions[q], d + 1))
    return list(seen.values())


def _effect_writes(prog, g):
    """Writes of g that can be observed outside its activation."""
    out = []
    fr = effects.fresh_locals(prog, g)
    for w in effects.writes_in(g.node):
        if w.root is None:
            out.append(w)
        elif w.root == "self" or (w.root in g.params and w.root not in fr):
            out.append(w)
        elif w.root not in fr and w.root not in g.params:
            # a local alias of non-fresh data (e.g. `for state in self.election_states: state.x = ...`)
            out.append(w)
    return out


def r1_queries_pure(ctx):
    prog = ctx.prog
    for q in _query_defs(prog):
        bad = []
        reach = _closure(prog, q)
        for g in reach:
            if isinstance(g.node, ast.Lambda):
                continue
            if g.name == "__init__" and g is not q:
                continue  # constructing a fresh sub-election: its writes are to the new object
            for w in _effect_writes(prog, g):
                bad.append((g, w))
        if not bad:
            ctx.ok(q, q.node, f"query {q.short} is effect-free", f"{len(reach)} functions in its call closure write nothing observable")
        for g, w in bad:
            ctx.violated(g, w.node, f"query {q.short} reaches a write: {w.describe()}",
                         f"{g.short} performs `{w.describe()}`; a query must leave the recorded rounds and later answers unchanged")


# --------------------------------------------------------------------------------------------- R2 / R3
def _guarded(f, node, pm) -> bool:
    for t, pol in astx.path_condition(f.node, node, pm, drop_stale=False):
        # (`if not store_states: return ...` before the write is the same guard: the test negated, the write on its false edge)
        while isinstance(t, ast.UnaryOp) and isinstance(t.op, ast.Not):
            t, pol = t.operand, not pol
        if pol and astx.is_name(t, "store_states"):
            return True
    return False


def _unguarded_helpers(prog, f):
    """self.helper() methods called (transitively) from outside the store_states guard."""
    out = {}
    pm = astx.parents(f.node)
    work = [(f, True)]
    while work:
        g, top = work.pop()
        gpm = pm if g is f else astx.parents(g.node)
        for name, c in effects.self_calls(g):
            if name in elect.QUERIES or name in ("_run_step", "score_function", "transfer"):
                continue
            if g is f and _guarded(f, c, gpm):
                continue
            for tgt in effects.dispatch(prog, f.cls, name):
                if tgt.qualname not in out and tgt.name != "__init__":
                    out[tgt.qualname] = tgt
                    work.append((tgt, False))
    return list(out.values())


def r2_writes_guarded(ctx):
    prog = ctx.prog
    for f in elect.step_functions(prog):
        d = f.param_default("store_states")
        ctx.check(d is not None and astx.is_const(d, False), f, f.node, "store_states defaults to False",
                  "replay never records", "store_states parameter is missing or does not default to False")
        pm = astx.parents(f.node)
        nbad = 0
        for w in _effect_writes(prog, f):
            if _guarded(f, w.node, pm):
                ctx.ok(f, w.node, f"guarded write: {w.describe()}", "dominated by the true edge of `if store_states`")
            else:
                nbad += 1
                ctx.violated(f, w.node, f"write outside store_states guard: {w.describe()}",
                             f"`{w.describe()}` executes when the step is replayed by get_profile (store_states=False)")
        for h in _unguarded_helpers(prog, f):
            ws = _effect_writes(prog, h)
            if not ws:
                ctx.ok(h, h.node, f"helper {h.short} of {f.short} writes nothing", "")
            for w in ws:
                ctx.violated(h, w.node, f"write in unguarded helper: {w.describe()}",
                             f"{h.short} is called by {f.short} outside the store_states guard and performs `{w.describe()}`")


def _run_dependent_attrs(prog, cls):
    """Attributes of the election object written (observably) outside constructors, plus the
    two that Election itself maintains while running."""
    out = {"election_states": "maintained by the run", "length": "set after the run"}
    for c in cls.mro() + prog.subclasses(cls.name, strict=True):
        for m in c.methods.values():
            if m.name == "__init__" or isinstance(m.node, ast.Lambda):
                continue
            for w in effects.writes_in(m.node):
                t = w.target
                while isinstance(t, ast.Subscript):
                    t = t.value
                if isinstance(t, ast.Attribute) and astx.is_name(t.value, "self"):
                    out.setdefault(t.attr, f"written in {m.short}")
    return out


def r3_replay_independent(ctx):
    prog = ctx.prog
    for f in elect.step_functions(prog):
        rd = _run_dependent_attrs(prog, f.cls)
        bodies = [f] + _unguarded_helpers(prog, f)
        nbad = 0
        seen_reads = set()
        for g in bodies:
            pm = astx.parents(g.node)
            prev = g.params[2] if (g is f and len(g.params) > 2) else "prev_state"
            for n in astx.walk_own(g.node):
                if g is f and _guarded(f, n, pm):
                    continue
                # cumulative queries must be bounded by the previous state's round number
                if isinstance(n, ast.Call) and isinstance(n.func, ast.Attribute) and astx.is_name(n.func.value, "self"):
                    nm = n.func.attr
                    if nm in CUMULATIVE:
                        arg = n.args[0] if n.args else next((k.value for k in n.keywords if k.arg == "round_number"), None)
                        if arg is not None and re.fullmatch(r"\w+\.round_number", astx.u(arg)) and astx.u(arg).split(".")[0] in g.params:
                            ctx.ok(g, n, f"replay-safe query self.{nm}({astx.u(arg)})", "bounded by the previous state's round")
                        else:
                            nbad += 1
                            ctx.violated(g, n, f"step logic consults self.{nm}({astx.u(arg) if arg is not None else ''})",
                                         f"under replay (get_profile) self.{nm}() answers for the *finished* election, not for the round being replayed")
                    elif nm == "get_profile":
                        arg = n.args[0] if n.args else next((k.value for k in n.keywords if k.arg == "round_number"), None)
                        if arg is not None and astx.is_const(arg, 0):
                            ctx.ok(g, n, "self.get_profile(0)", "the initial profile is run-independent")
                        else:
                            nbad += 1
                            ctx.violated(g, n, f"step logic consults self.get_profile({astx.u(arg) if arg is not None else ''})",
                                         "replay would depend on later rounds")
                if isinstance(n, ast.Attribute) and isinstance(n.ctx, ast.Load) and astx.is_name(n.value, "self") and n.attr in rd:
                    par = pm.get(n)
                    if isinstance(par, ast.Attribute) and par.attr in effects.MUTATORS and isinstance(pm.get(par), ast.Call):
                        continue  # receiver of a mutating call: a write, owned by R2
                    if (g.qualname, n.attr) in seen_reads:
                        continue
                    seen_reads.add((g.qualname, n.attr))
                    nbad += 1
                    ctx.violated(g, n, f"step logic reads run-dependent self.{n.attr}",
                                 f"self.{n.attr} is {rd[n.attr]}; a replayed step would see its final value")
                if isinstance(n, ast.Call) and astx.u(n.func) == "len" and n.args and astx.is_name(n.args[0], "self"):
                    nbad += 1
                    ctx.violated(g, n, "step logic reads len(self)", "run-dependent")
        if nbad == 0:
            ctx.ok(f, f.node, f"{f.short}: replayed logic reads only construction-time state",
                   f"{len(bodies)} bodies scanned; run-dependent attributes: {sorted(rd)}")


# --------------------------------------------------------------------------------------------- R4
def r4_index_guards(ctx):
    prog = ctx.prog
    int_all = lambda a: True  # noqa: E731
    spec = spec_guard("rn < -len(self.election_states) or rn > len(self.election_states) - 1", int_atoms=int_all)
    guarded_methods = set()
    qdefs = [q for q in _query_defs(prog) if "round_number" in q.params]
    for q in qdefs:
        pm = astx.parents(q.node)
        raises = [r for r in astx.raises_in(q.node) if astx.raise_type(r) == "IndexError"]
        if raises:
            # (a single-assignment temporary such as n = len(self.election_states) is read through)
            N = Normalizer(q.node, inline=True, int_atoms=int_all, rename=lambda e: "rn" if astx.is_name(e, "round_number") else None, no_inline=["round_number"])
            g = simplify(("or", [N.conj(astx.path_condition(q.node, r, pm)) for r in raises]))
            first_use = min((n.lineno for n in astx.walk_own(q.node)
                             if isinstance(n, ast.Name) and n.id == "round_number" and isinstance(n.ctx, ast.Load)
                             and not any(n in ast.walk(t) for r in raises for t, _ in astx.path_condition(q.node, r, pm))
                             ), default=10 ** 9)
            okg = equivalent(g, spec)
            # normalisation by modulo
            mods = [n for n in astx.walk_own(q.node) if isinstance(n, ast.Assign) and astx.is_name(n.targets[0], "round_number")
                    and isinstance(n.value, ast.BinOp) and isinstance(n.value.op, ast.Mod)
                    and astx.is_name(n.value.left, "round_number") and N.key(n.value.right) == "len(self.election_states)"]
            okm = bool(mods) and all(r.lineno < mods[0].lineno for r in raises)
            if not mods:
                # the normalised index kept under another name (read through): after the guard, round_number is only ever read as
                # round_number % len(states)
                modx = [n for n in astx.walk_own(q.node) if isinstance(n, ast.BinOp) and isinstance(n.op, ast.Mod) and astx.is_name(n.left, "round_number")
                        and N.key(n.right) == "len(self.election_states)"]
                lefts = {id(n.left) for n in modx}
                guard_nodes = {id(x) for r in raises for t, _ in astx.path_condition(q.node, r, pm) for x in ast.walk(t)}
                later = [n for n in astx.walk_own(q.node) if isinstance(n, ast.Name) and n.id == "round_number" and isinstance(n.ctx, ast.Load)
                         and id(n) not in guard_nodes and not any(id(n) in {id(y) for y in ast.walk(r)} for r in raises)]
                okm = bool(modx) and all(id(n) in lefts for n in later) and all(r.lineno <= min(m.lineno for m in modx) for r in raises)
            if okg and okm:
                guarded_methods.add(q.qualname)
                ctx.ok(q, raises[0], f"{q.short}: two-sided IndexError guard then `% len(states)`", bool_key(g))
            else:
                ctx.violated(q, raises[0], f"{q.short}: round_number guard",
                             f"IndexError iff `{bool_key(g)}` (specified `{bool_key(spec)}`); modulo normalisation after the guard: {okm}")
    for q in qdefs:
        if q.qualname in guarded_methods:
            continue
        if any(astx.raise_type(r) == "IndexError" for r in astx.raises_in(q.node)):
            continue  # already reported
        # delegating: round_number flows only into guarded methods or a native subscript of self.election_states
        bad = []
        pm = astx.parents(q.node)
        for n in astx.walk_own(q.node):
            if isinstance(n, ast.Name) and n.id == "round_number" and isinstance(n.ctx, ast.Load):
                par = pm.get(n)
                if isinstance(par, ast.Call) and isinstance(par.func, ast.Attribute) and astx.is_name(par.func.value, "self") \
                        and par.func.attr in elect.QUERIES:
                    continue
                if isinstance(par, ast.keyword) and par.arg == "round_number":
                    continue
                if isinstance(par, ast.Subscript) and par.slice is n and astx.is_self_attr(par.value, "election_states"):
                    continue
                bad.append(n)
        ctx.check(not bad, q, bad[0] if bad else q.node, f"{q.short}: delegates round_number to guarded queries / native subscript",
                  "IndexError comes from the delegate", "round_number is used arithmetically without the bounds guard")


# --------------------------------------------------------------------------------------------- R5
def _returned_names(f):
    vals = set()
    for n in astx.walk_own(f.node):
        if isinstance(n, ast.Return):
            if isinstance(n.value, ast.Call) and astx.call_name(n.value) == "PreferenceProfile" and not n.value.args and not n.value.keywords:
                continue  # early return of the empty profile records nothing (progress is C01.R2's business)
            vals.add(astx.u(n.value) if n.value is not None else "None")
    return vals


def _profile_filter_of(f, e):
    """X such that e == PreferenceProfile(ballots=<comprehension over X.ballots filtered by .ranking only>)."""
    v = astx.unique_def(f.node, e.id) if isinstance(e, ast.Name) else e
    if isinstance(v, ast.Call) and astx.call_name(v) == "PreferenceProfile":
        b = next((k.value for k in v.keywords if k.arg == "ballots"), None)
        if isinstance(b, ast.Name):
            b = astx.unique_def(f.node, b.id)
        b = astx.strip_wrappers(b) if b is not None else None
        if isinstance(b, (ast.GeneratorExp, ast.ListComp)) and len(b.generators) == 1:
            g = b.generators[0]
            it = astx.u(g.iter)
            if it.endswith(".ballots") and astx.is_name(b.elt, getattr(g.target, "id", None)) and len(g.ifs) == 1 \
                    and astx.u(g.ifs[0]) == f"{g.target.id}.ranking":
                return it[: -len(".ballots")]
    return None


def r5_recorded_scores(ctx):
    prog = ctx.prog
    for f in elect.step_functions(prog):
        kind, slot, scope = facts.score_function_slot(prog, f.cls)
        slot_funcs = facts.slot_functions(prog, slot, scope) if kind == "expr" else []
        rets = _returned_names(f)
        for sc in elect.state_ctor_calls(prog, f):
            kw = elect.state_kwargs(prog, sc)
            if "scores" not in kw:
                ctx.check(kind == "none", f, sc, f"{f.cls.name}: state recorded without scores",
                          "class has no score function", "a class with a score function records a state without scores")
                continue
            sv = kw["scores"]
            defs = [dv for _, dv in astx.defs_of(f.node, sv.id)] if isinstance(sv, ast.Name) else [sv]
            pm = astx.parents(f.node)
            # choose the definitions in the same branch chain as the constructor call
            problems = []
            n_ok = 0
            for dv in defs:
                if dv is None or not isinstance(dv, ast.Call):
                    problems.append("scores is not the result of a call")
                    continue
                callee = astx.u(dv.func)
                arg = dv.args[0] if dv.args else None
                is_slot = callee == "self.score_function" or (
                    prog.resolve_expr(f.module, dv.func) in {g.qualname for g in slot_funcs})
                if not is_slot:
                    problems.append(f"scores computed by `{callee}`, not by the class's score function")
                    continue
                an = astx.u(arg) if arg is not None else ""
                if an in rets and len(rets) == 1:
                    n_ok += 1
                elif arg is not None and _profile_filter_of(f, arg) in rets and len(rets) == 1:
                    n_ok += 1
                else:
                    problems.append(f"scores are computed from `{an}` but the step returns {sorted(rets)}")
            ctx.check(n_ok >= 1 and not problems, f, sc, f"{f.cls.name}: recorded scores = score function of the returned profile",
                      f"returns {sorted(rets)}", "; ".join(problems) or "no definition of scores found")
            if "remaining" in kw:
                rv = kw["remaining"]
                rdef = astx.unique_def(f.node, rv.id) if isinstance(rv, ast.Name) else rv
                if isinstance(rdef, ast.Call) and astx.call_name(rdef) == "score_dict_to_ranking":
                    sd = prog.find_func("score_dict_to_ranking")
                    b = astx.bind_args(rdef, sd.params)
                    same = astx.u(b.get(sd.params[0])) == astx.u(sv)
                    flag = b.get(sd.params[1])
                    okflag = flag is None or astx.is_const(flag, True)
                    ctx.check(same and okflag, f, rdef, f"{f.cls.name}: recorded order = ranking of the recorded scores, high to low",
                              astx.u(rdef), f"`{astx.u(rdef)}`: must rank the recorded `{astx.u(sv)}` with the default high-to-low flag")


# --------------------------------------------------------------------------------------------- R6
def _comp_over_states(q):
    for n in astx.walk_own(q.node):
        if isinstance(n, (ast.ListComp, ast.GeneratorExp)):
            for g in n.generators:
                if isinstance(g.iter, ast.Subscript) and astx.is_self_attr(g.iter.value, "election_states"):
                    return n, g
    return None, None


def r6_ranges(ctx):
    prog = ctx.prog
    base = prog.find_class("Election")
    N = None

    def key_of(q, e):
        return Normalizer(q.node, inline=False, int_atoms=lambda a: True).key(e)

    from vk import listform

    def fold(q, label, want_iter, attr_elt, skip_when):
        """The query returns the concatenation, over the states `want_iter`, of each state's groups `attr_elt`; rounds whose
        group tuple is the empty placeholder may be skipped (in any spelling: comprehension filter or guard + continue)."""
        rets = [n for n in astx.walk_own(q.node) if isinstance(n, ast.Return)]
        b = listform.build_of(q.node, rets[0].value) if len(rets) == 1 else None
        if b is None:
            ctx.undecided(q, rets[0] if rets else q.node, label, "the returned tuple is not built as a concatenation over the recorded states that this rule can evaluate")
            return
        Nq = Normalizer(q.node, inline=False, int_atoms=lambda a: True)
        k = Nq.key(b.iter)
        st = b.var
        lits = b.filter_literals(q.node, Normalizer(q.node, inline=False))
        allowed = {f"not eq({st}.{skip_when}, [frozenset()])", f"not eq([frozenset()], {st}.{skip_when})"}
        good = b.kind == "flatmap" and k == want_iter and Nq.key(b.elt) == attr_elt.format(st=st) and (not lits or (len(lits) == 1 and lits <= allowed))
        ctx.check(good, q, b.node, label, k, f"folds `{Nq.key(b.elt)}` over `{k}` under {sorted(lits)}; specified {attr_elt.format(st='state')} over {want_iter}, skipping at most the empty placeholder")
    fold(prog.find_func("Election.get_elected"), "get_elected folds rounds 0..rn in order", "self.election_states[:round_number + 1]", "{st}.elected", "elected")
    fold(prog.find_func("Election.get_eliminated"), "get_eliminated folds rounds rn..0, each round reversed", "self.election_states[round_number::-1]", "{st}.eliminated[::-1]", "eliminated")
    # get_remaining
    q = prog.find_func("Election.get_remaining")
    rets = [n for n in astx.walk_own(q.node) if isinstance(n, ast.Return)]
    k = key_of(q, rets[0].value) if rets else "<none>"
    ctx.check(k == "self.election_states[round_number].remaining", q, rets[0] if rets else q.node,
              "get_remaining reads the state of round rn", k, f"returns `{k}`")
    # get_ranking
    q = prog.find_func("Election.get_ranking")
    comps = [n for n in astx.walk_own(q.node) if isinstance(n, (ast.ListComp, ast.GeneratorExp))]
    good = False
    k = "<none>"
    if comps:
        c = comps[0]
        k = astx.u(c.generators[0].iter)
        want = "self.get_elected(round_number) + self.get_remaining(round_number) + self.get_eliminated(round_number)"
        filt = [bool_key(Normalizer(q.node, inline=False).guard(t)) for t in c.generators[0].ifs]
        good = k == want and astx.is_name(c.elt, c.generators[0].target.id) and filt in ([], [f"truthy({c.generators[0].target.id})"])
    ctx.check(good, q, comps[0] if comps else q.node, "get_ranking = elected + remaining + eliminated, empty groups dropped", k,
              f"concatenation is `{k}`")
    # get_status_df
    q = prog.find_func("Election.get_status_df")
    loops = [n for n in astx.walk_own(q.node) if isinstance(n, ast.For) and astx.u(n.iter).startswith("range(")]
    good = False
    d = "<no range loop>"
    if loops:
        lp = loops[0]
        idx = lp.target.id if isinstance(lp.target, ast.Name) else "?"
        st = [n for n in astx.walk_own(lp) if isinstance(n, ast.Subscript) and astx.is_self_attr(n.value, "election_states")]
        d = f"for {idx} in {astx.u(lp.iter)}: states[{', '.join(key_of(q, s.slice) for s in st)}]"
        good = astx.u(lp.iter) == "range(round_number)" and st and all(key_of(q, s.slice) == f"{idx} + 1" for s in st)
        rounds = [n for n in astx.walk_own(lp) if isinstance(n, ast.Assign) and "Round" in astx.u(n.targets[0])]
        good = good and rounds and all(key_of(q, r.value) == f"{idx} + 1" for r in rounds)
    if not loops:
        # the same walk spelled with enumerate: for r, state in enumerate(self.election_states[1 : rn + 1], start=1)
        for lp in (n for n in astx.walk_own(q.node) if isinstance(n, ast.For) and isinstance(n.iter, ast.Call) and astx.u(n.iter.func) == "enumerate"):
            it = lp.iter
            start = it.args[1] if len(it.args) > 1 else next((k.value for k in it.keywords if k.arg == "start"), None)
            sub = it.args[0] if it.args else None
            if isinstance(sub, ast.Subscript) and astx.is_self_attr(sub.value, "election_states") and isinstance(lp.target, ast.Tuple) and len(lp.target.elts) == 2:
                loops = [lp]
                r = astx.u(lp.target.elts[0])
                d = f"for {r}, state in enumerate(states[{key_of(q, sub.slice)}], start={astx.u(start) if start is not None else 0})"
                rounds = [n for n in astx.walk_own(lp) if isinstance(n, ast.Assign) and "Round" in astx.u(n.targets[0])]
                good = key_of(q, sub.slice) == "1:round_number + 1" and astx.is_const(start, 1) and rounds and all(key_of(q, x.value) == r for x in rounds)
                break
    ctx.check(bool(good), q, loops[0] if loops else q.node, "get_status_df applies states 1..rn in increasing order", d, d)
    # get_profile (base and overrides that replay)
    for q in [m for c in prog.subclasses("Election") for m in [c.methods.get("get_profile")] if m is not None]:
        loops = [n for n in astx.walk_own(q.node) if isinstance(n, ast.For) and astx.calls_in(n, "_run_step", own_only=False)]
        if not loops:
            ctx.violated(q, q.node, f"{q.short}: replay loop", "no loop replaying _run_step")
            continue
        for lp in loops:
            idx = lp.target.id if isinstance(lp.target, ast.Name) else "?"
            call = astx.calls_in(lp, "_run_step", own_only=False)[0]
            b = astx.bind_args(call, ["profile", "prev_state", "store_states"])
            tgt = astx.stmt_of(call, astx.parents(q.node))
            # the value the replay starts from: every binding that can reach the loop from outside it is self._profile
            pmq = astx.parents(q.node)
            outer = [dv for st_, dv in astx.reaching_defs(q.node, astx.u(b["profile"]), lp) if astx.enclosing(st_, pmq, ast.For) is not lp and st_ is not tgt]
            init = bool(outer) and all(dv is not None and astx.u(dv) == "self._profile" for dv in outer)
            by_index = astx.u(lp.iter) == "range(round_number)" and astx.u(b.get("prev_state")) == f"self.election_states[{idx}]"
            # the same states walked directly: for state in self.election_states[:round_number] (round_number has been reduced modulo the number of states before: C09.R4, so the slice is exactly the first round_number states)
            by_slice = astx.u(lp.iter) in ("self.election_states[:round_number]", "self.election_states[0:round_number]") and isinstance(lp.target, ast.Name) \
                and astx.u(b.get("prev_state")) == idx and not any(isinstance(n, ast.Name) and n.id == idx and isinstance(n.ctx, ast.Store) for st_ in lp.body for n in ast.walk(st_))
            good = ((by_index or by_slice) and "store_states" not in b and isinstance(tgt, ast.Assign) and astx.u(tgt.targets[0]) == astx.u(b["profile"]) and bool(init))
            ctx.check(good, q, lp, f"{q.short}: replays steps 0..rn-1 from the initial profile without recording",
                      f"for {idx} in {astx.u(lp.iter)}: {astx.u(tgt)[:90]}",
                      f"replay loop is `for {idx} in {astx.u(lp.iter)}: {astx.u(tgt)[:90]}`; specified range(rn) over self.election_states[i], starting at self._profile, store_states unset")


def r8_replay_reads(ctx):
    """A get_profile implementation consults nothing the run left behind except the recorded states themselves: an object
    cached by the run (e.g. a sub-election whose states the run renumbers in place) answers differently afterwards."""
    prog = ctx.prog
    n = 0
    for q in [m for c in prog.subclasses("Election") for m in [c.methods.get("get_profile")] if m is not None]:
        n += 1
        rd = {a: why for a, why in _run_dependent_attrs(prog, q.cls).items() if a not in ("election_states", "length")}
        stale = [x for x in astx.walk_own(q.node) if isinstance(x, ast.Attribute) and isinstance(x.ctx, ast.Load) and astx.is_name(x.value, "self") and x.attr in rd]
        ctx.check(not stale, q, stale[0] if stale else q.node, f"{q.short}: the replay reads only construction-time state and the recorded states", f"run-dependent attributes: {sorted(rd)}",
                  f"reads self.{stale[0].attr if stale else ''}, which is {rd.get(stale[0].attr) if stale else ''}: the replayed profile depends on what the run left in it")
    if n < 2:
        ctx.vanished(f"get_profile implementations: only {n}")


# --------------------------------------------------------------------------------------------- R7
MUTABLE_LITERALS = (ast.List, ast.Dict, ast.Set, ast.ListComp, ast.DictComp, ast.SetComp)


def _is_mutable_literal(e):
    if isinstance(e, MUTABLE_LITERALS):
        return True
    return isinstance(e, ast.Call) and astx.u(e.func) in ("list", "dict", "set", "defaultdict", "collections.defaultdict") and not e.args


def r7_no_shared_mutable_state(ctx):
    """State that outlives one call / one election object: mutable parameter defaults and mutable
    class attributes that are mutated, module-level mutable objects mutated from functions, and
    in-place mutation of arguments by the shared utilities."""
    prog = ctx.prog
    n = 0
    scope = elect.SCOPE_ELECTION + ("src/votekit/cleaning.py", "src/votekit/cvr_loaders.py", "src/votekit/pref_interval.py")
    for f in prog.iter_functions(scope):
        if isinstance(f.node, ast.Lambda):
            continue
        n += 1
        a = f.node.args
        pos = a.posonlyargs + a.args
        defaults = dict(zip([p.arg for p in pos][len(pos) - len(a.defaults):], a.defaults))
        defaults.update({p.arg: d for p, d in zip(a.kwonlyargs, a.kw_defaults) if d is not None})
        ws = effects.writes_in(f.node)
        nm = effects.name_mutations(f.node)
        for name, d in defaults.items():
            if _is_mutable_literal(d) and (any(w.root == name for w in ws) or any(x[1] == name for x in nm)):
                ctx.violated(f, d, f"{f.short}: mutable default `{name}={astx.u(d)}` is mutated", "the default object is shared by all calls: state leaks from one call / election into the next")
    # class-level mutable attributes mutated through self / cls
    for c in prog.classes.values():
        if not c.module.path.startswith(scope):
            continue
        shared = {}
        for st in c.node.body:
            tg = st.targets[0] if isinstance(st, ast.Assign) else (st.target if isinstance(st, ast.AnnAssign) and st.value is not None else None)
            val = st.value if isinstance(st, (ast.Assign, ast.AnnAssign)) else None
            is_dc = any("dataclass" in astx.u(d) for d in c.node.decorator_list)
            if isinstance(tg, ast.Name) and val is not None and _is_mutable_literal(val) and not is_dc:
                shared[tg.id] = st
        for name, st in shared.items():
            for cls2 in [c] + prog.subclasses(c.name, strict=True):
                for m in cls2.methods.values():
                    rebinds = any(isinstance(x, ast.Assign) and any(astx.is_self_attr(t, name) for t in x.targets) for x in astx.walk_own(m.node)) if m.name == "__init__" else False
                    if rebinds:
                        continue
                    for w in effects.writes_in(m.node):
                        t = w.target
                        while isinstance(t, ast.Subscript):
                            t = t.value
                        if isinstance(t, ast.Attribute) and t.attr == name and astx.u(t.value) in ("self", "cls", c.name):
                            ctx.violated(m, w.node, f"{c.name}.{name} is a class-level mutable object mutated in {m.short}",
                                         f"`{astx.u(st)[:60]}` is shared by every instance (and every subclass): what one election stores, the next one reads")
    # module-level mutable objects mutated from functions
    for m in prog.modules.values():
        if not m.path.startswith(scope):
            continue
        globs = {k for k, v in m.defs.items() if isinstance(v, (ast.Assign, ast.AnnAssign)) and v.value is not None and _is_mutable_literal(v.value)}
        for f in prog.iter_functions((m.path,)):
            if isinstance(f.node, ast.Lambda) or f.module is not m:
                continue
            loc = set(f.params)
            for x in astx.walk_own(f.node):
                if isinstance(x, ast.Name) and isinstance(x.ctx, ast.Store):
                    loc.add(x.id)
            for w in effects.writes_in(f.node):
                if w.root in globs and w.root not in loc:
                    ctx.violated(f, w.node, f"{f.short} mutates module-level `{w.root}`", "module-level mutable state survives across calls and elections")
    # shared utilities leave their arguments alone
    for name in ("remove_cand", "add_missing_cands", "score_profile_from_rankings", "first_place_votes", "borda_scores", "mentions", "tiebreak_set", "tiebroken_ranking",
                 "score_dict_to_ranking", "elect_cands_from_set_ranking", "expand_tied_ballot", "resolve_profile_ties", "score_profile_from_ballot_scores",
                 "fractional_transfer", "random_transfer", "ballots_by_first_cand", "validate_score_vector"):
        f = prog.find_func(name)
        fr = effects.fresh_locals(prog, f)
        bad = [(w.node, w.root, w.describe()) for w in effects.writes_in(f.node) if w.root in f.params and w.root not in fr and not _rebound_before(f, w.root, w.node)]
        bad += [(node, nm_, d_) for node, nm_, d_ in effects.name_mutations(f.node) if nm_ in f.params and not _rebound_before(f, nm_, node)]
        if not bad:
            ctx.ok(f, f.node, f"{name} does not mutate its arguments", "")
        for node, nm_, d_ in bad:
            ctx.violated(f, node, f"{name} mutates its argument `{nm_}`: {d_}", "the caller's ballots / rankings / score dictionaries (possibly a recorded round) are changed in place")
    ctx.note(f"R7 scanned {n} functions for shared mutable state")


def _rebound_before(f, name, node):
    """The parameter was re-bound to a fresh object earlier in the function (x = list(x))."""
    for st, dv in astx.defs_of(f.node, name):
        if dv is not None and st.lineno < node.lineno and isinstance(dv, (ast.Call, ast.List, ast.BinOp, ast.ListComp)):
            return True
    return False


def _check_defaults(ctx, table):
    """table: [(function short name, parameter, expected default source text)]"""
    prog = ctx.prog
    for fn, param, want in table:
        f = prog.find_func(fn)
        if param not in f.params:
            ctx.violated(f, f.node, f"{fn}: parameter `{param}`", f"parameter `{param}` no longer exists; callers rely on its documented default {want}")
            continue
        d = f.param_default(param)
        got = astx.u(d) if d is not None else "<required>"
        ctx.check(got == want, f, d if d is not None else f.node, f"{fn}({param}={want}) documented default", got,
                  f"default of `{param}` is {got}, documented {want}: every caller that omits the argument silently changes behaviour")


def r8_defaults(ctx):
    table = [(f"Election.{q}", "round_number", "-1") for q in ("get_profile", "get_step", "get_elected", "get_eliminated", "get_remaining", "get_ranking", "get_status_df")]
    table += [("Alaska.get_profile", "round_number", "-1"), ("Election.__init__", "score_function", "None"), ("Election.__init__", "sort_high_low", "True")]
    _check_defaults(ctx, table)


def r10_alaska_replay_agrees(ctx):
    """Alaska.get_profile answers for rounds >= 2 from an STV election it rebuilds: the answer is the run's only if that STV
    is built with the same arguments, in the same slots, as the one the run built.  Decided by the sibling-agreement
    clauses of C13.R3 (the clauses about get_profile) and by the argument-slot rule C13.R4 restricted to alaska.py."""
    from rules import c13
    sub = type(ctx)(ctx.prog, ctx.prop, ctx.tier)
    c13.r3_alaska(sub)
    kept = [o for o in sub.obs if "get_profile" in (o.construct or "")]
    n_sib = len(kept)
    sub2 = type(ctx)(ctx.prog, ctx.prop, ctx.tier)
    c13.r4_argument_order(sub2)
    kept += [o for o in sub2.obs if "alaska.py" in (o.site or "")]
    for o in kept:
        o.rule = "C09.R10"
        ctx.obs.append(o)
    if n_sib < 3:
        ctx.vanished(f"Alaska.get_profile sibling clauses: only {n_sib}")


def r11_round_numbers(ctx):
    """Every accessor addresses a round by its position in election_states (C09.R4, R6), and steps read
    `prev_state.round_number` to decide what to do next (STV's default election, the two stages of TopTwo / Alaska): the
    state a step records must carry the number of the round it completes - the previous state's number plus one, or the
    literal 1 in a rule whose only step is round 1; the initial state carries 0."""
    prog = ctx.prog
    n = 0
    for c in prog.subclasses("Election"):
        f = c.methods.get("_run_step")
        if f is None or len(f.params) < 3:
            continue
        prev = f.params[2]
        N = Normalizer(f.node, inline=True, int_atoms=lambda a: True)
        for sc in elect.state_ctor_calls(prog, f):
            rn = elect.state_kwargs(prog, sc).get("round_number")
            if rn is None:
                continue
            n += 1
            try:
                good = astx.is_const(rn, 1) or N.rat(rn).equals(spec_rat(f"{prev}.round_number + 1", int_atoms=lambda a: True))
            except NotClosedForm:
                good = False
            ctx.check(good, f, sc, f"{f.short}: the recorded state is numbered prev_state.round_number + 1", astx.u(rn), f"the state is recorded as round `{astx.u(rn)}`")
    f = prog.find_func("Election._run_election")
    for sc in elect.state_ctor_calls(prog, f):
        rn = elect.state_kwargs(prog, sc).get("round_number")
        n += 1
        ctx.check(rn is None or astx.is_const(rn, 0), f, sc, "the initial state is round 0", astx.u(rn) if rn is not None else "default", "the initial state is not numbered 0")
    if n < 8:
        ctx.vanished(f"recorded states with an explicit round number: only {n}")


RULES = [
    ("C09.R11", r11_round_numbers, 8, "recorded states are numbered consecutively: prev_state.round_number + 1 (1 for single-step rules), 0 initially"),
    ("C09.R10", r10_alaska_replay_agrees, 3, "Alaska.get_profile rebuilds the STV stage exactly as the run did (C13.R3 sibling clauses, C13.R4 argument slots)"),
    ("C09.P0", p0_closed_world, 1, "closed-world precondition: no reflective attribute access in the package"),
    ("C09.R1", r1_queries_pure, 9, "query methods and their call closure write nothing observable"),
    ("C09.R2", r2_writes_guarded, 20, "_run_step (and its unguarded helpers) writes only under `if store_states`"),
    ("C09.R3", r3_replay_independent, 12, "replayed step logic reads no run-dependent state"),
    ("C09.R4", r4_index_guards, 8, "two-sided IndexError guard + modulo, or delegation to a guarded query"),
    ("C09.R5", r5_recorded_scores, 12, "recorded scores/order = class score function of the returned profile"),
    ("C09.R8", r8_defaults, 10, "documented defaults: every query addresses the final round by default"),
    ("C09.R7", r7_no_shared_mutable_state, 15, "no mutated mutable defaults / class-level / module-level state; shared utilities do not mutate their arguments"),
    ("C09.R9", r8_replay_reads, 2, "get_profile implementations read no attribute the run writes (other than the recorded states)"),
    ("C09.R6", r6_ranges, 7, "cumulative queries use the documented slice / loop bounds"),
]


MO = "src/votekit/models.py"
STV = "src/votekit/elections/election_types/ranking/stv.py"
PL = "src/votekit/elections/election_types/ranking/plurality.py"
TT = "src/votekit/elections/election_types/ranking/top_two.py"
AK = "src/votekit/elections/election_types/ranking/alaska.py"
RT = "src/votekit/elections/election_types/scores/rating.py"
CB = "src/votekit/elections/election_types/ranking/condo_borda.py"
FAULTS = [
    ("STV numbers the recorded round two ahead", [(STV, "                round_number=prev_state.round_number + 1,", "                round_number=prev_state.round_number + 2,")], "C09.R11"),
    ("computed getattr in models", [(MO, "        return self.length\n", "        return getattr(self, 'len' + 'gth')\n")], "C09.P0"),
    ("get_remaining caches on self", [(MO, "        return tuple(self.election_states[round_number].remaining)", "        self._last_remaining = tuple(self.election_states[round_number].remaining)\n        return self._last_remaining")], "C09.R1"),
    ("get_eliminated reverses stored tuple in place", [(MO, "        round_number = round_number % len(self.election_states)\n\n        # reverses order to match ranking convention", "        round_number = round_number % len(self.election_states)\n        self.election_states.reverse()\n        self.election_states.reverse()\n\n        # reverses order to match ranking convention")], "C09.R1"),
    ("plurality appends during replay", [(PL, "            self.election_states.append(new_state)\n\n        return new_profile\n\n\nclass SNTV", "            pass\n        self.election_states.append(new_state)\n\n        return new_profile\n\n\nclass SNTV")], "C09.R2"),
    ("toptwo renumbers outside guard", [(TT, "            if store_states:\n                # first state was already stored by round 1 plurality\n                # need to update round numbers\n                plurality.election_states[1].round_number = 2\n                self.election_states.append(plurality.election_states[1])",
                                          "            self.election_states[-1].round_number = 2\n            if store_states:\n                self.election_states.append(plurality.election_states[1])")], "C09.R2"),
    ("stv step reads election_states", [(STV, "        elif len(profile.candidates) == self.m - len(\n            [c for s in self.get_elected(prev_state.round_number) for c in s]\n        ):", "        elif len(profile.candidates) == self.m - len(\n            [c for st in self.election_states for s in st.elected for c in s]\n        ):")], "C09.R3"),
    ("stv step consults final ranking", [(STV, "            lowest_fpv_cands = prev_state.remaining[-1]", "            lowest_fpv_cands = self.get_remaining()[-1]")], "C09.R3"),
    ("class-level memo dict in STV", [(STV, "    def _stv_validate_profile(self, profile: PreferenceProfile):", "    _memo: dict = {}\n\n    def _remember(self, key, value):\n        self._memo[key] = value\n\n    def _stv_validate_profile(self, profile: PreferenceProfile):")], "C09.R7"),
    ("mutable default accumulates", [("src/votekit/utils.py", "def score_dict_to_ranking(\n    score_dict: Union[dict[str, Fraction], dict[str, float]], sort_high_low: bool = True\n) -> tuple[frozenset[str], ...]:", "def score_dict_to_ranking(\n    score_dict: Union[dict[str, Fraction], dict[str, float]], sort_high_low: bool = True, _seen: list = []\n) -> tuple[frozenset[str], ...]:\n    _seen.append(len(score_dict))")], "C09.R7"),
    ("selector pops from the caller's ranking", [("src/votekit/utils.py", "    num_elected = 0\n    elected = []\n    i = 0\n    tiebreak_ranking = None", "    num_elected = 0\n    elected = []\n    i = 0\n    tiebreak_ranking = None\n    if isinstance(ranking, list) and ranking and not ranking[-1]:\n        ranking.pop()")], "C09.R7"),
    ("get_elected upper bound off by one", [(MO, "            or round_number > len(self.election_states) - 1\n        ):\n            raise IndexError(\"round_number out of range.\")\n\n        round_number = round_number % len(self.election_states)\n\n        return tuple(\n            [\n                s\n                for state in self.election_states[: (round_number + 1)]",
                                             "            or round_number > len(self.election_states)\n        ):\n            raise IndexError(\"round_number out of range.\")\n\n        round_number = round_number % len(self.election_states)\n\n        return tuple(\n            [\n                s\n                for state in self.election_states[: (round_number + 1)]")], "C09.R4"),
    ("get_status_df skips modulo", [(MO, "        round_number = round_number % len(self.election_states)\n\n        new_index", "        new_index")], "C09.R4"),
    ("get_step arithmetic on raw index", [(MO, "        return (self.get_profile(round_number), self.election_states[round_number])", "        return (self.get_profile(round_number), self.election_states[round_number - 0 * len(self)])")], "C09.R"),
    ("rating scores from old profile", [(RT, "                scores = self.score_function(new_profile)", "                scores = self.score_function(profile)")], "C09.R5"),
    ("condoborda scores first place", [(CB, "                    scores=borda_scores(new_profile),", "                    scores=borda_scores(profile),")], "C09.R5"),
    ("stv ranks low to high", [(STV, "            remaining = score_dict_to_ranking(scores)\n\n            new_state = ElectionState(\n                round_number=prev_state.round_number + 1,\n                remaining=remaining,\n                elected=elected,\n                eliminated=eliminated,", "            remaining = score_dict_to_ranking(scores, False)\n\n            new_state = ElectionState(\n                round_number=prev_state.round_number + 1,\n                remaining=remaining,\n                elected=elected,\n                eliminated=eliminated,")], "C09.R5"),
    ("get_elected excludes current round", [(MO, "                for state in self.election_states[: (round_number + 1)]", "                for state in self.election_states[:round_number]")], "C09.R6"),
    ("get_elected drops filter polarity", [(MO, "                if state.elected != (frozenset(),)", "                if state.elected == (frozenset(),)")], "C09.R6"),
    ("get_eliminated forward order", [(MO, "                for state in self.election_states[round_number::-1]", "                for state in self.election_states[: round_number + 1]")], "C09.R6"),
    ("get_ranking order elim before remaining", [(MO, "                for s in self.get_elected(round_number)\n                + self.get_remaining(round_number)\n                + self.get_eliminated(round_number)", "                for s in self.get_elected(round_number)\n                + self.get_eliminated(round_number)\n                + self.get_remaining(round_number)")], "C09.R6"),
    ("status df uses state i", [(MO, "            state = self.election_states[i + 1]", "            state = self.election_states[i]")], "C09.R6"),
    ("get_profile replays one step too many", [(MO, "        for i in range(round_number):\n            profile = self._run_step(profile, self.election_states[i])\n\n        return profile", "        for i in range(round_number + 1):\n            profile = self._run_step(profile, self.election_states[i])\n\n        return profile")], "C09.R6"),
    ("get_profile records while replaying", [(MO, "            profile = self._run_step(profile, self.election_states[i])\n\n        return profile", "            profile = self._run_step(profile, self.election_states[i], store_states=True)\n\n        return profile")], "C0"),
    ("alaska get_profile replays a slice one state too long", [(AK, "            for i in range(round_number):\n                profile = self._run_step(profile, self.election_states[i])", "            for state in self.election_states[: round_number + 1]:\n                profile = self._run_step(profile, state)")], "C09.R6"),
    ("alaska get_profile replays from round-1 profile", [(AK, "        profile = self._profile\n\n        if round_number in [0, 1]:", "        profile = self.get_profile(0) if round_number == 0 else self._profile\n\n        if round_number in [0, 1]:")], None),
]
BENIGN = [
    ("alaska get_profile replays the slice of the first states", [(AK, "            for i in range(round_number):\n                profile = self._run_step(profile, self.election_states[i])", "            for state in self.election_states[:round_number]:\n                profile = self._run_step(profile, state)")]),
    ("literal getattr in models", [(MO, "        return self.length\n", "        return getattr(self, 'length')\n")]),
    ("guard with <= written as not >", [(MO, "            round_number < -len(self.election_states)\n            or round_number > len(self.election_states) - 1\n        ):\n            raise IndexError(\"round_number out of range.\")\n\n        round_number = round_number % len(self.election_states)\n\n        profile = self._profile",
                                         "            round_number >= len(self.election_states)\n            or -len(self.election_states) > round_number\n        ):\n            raise IndexError(\"round_number out of range.\")\n\n        round_number = round_number % len(self.election_states)\n\n        profile = self._profile")]),
    ("slice written without parentheses", [(MO, "                for state in self.election_states[: (round_number + 1)]", "                for state in self.election_states[: 1 + round_number]")]),
]
