"""C01 — termination, exactly m winners, consistent outcome: structural clauses (DESIGN §5/C01)."""
from __future__ import annotations

import ast
import re

from vk import astx, da, elect, facts
from vk.report import shape_rule
from vk.algebra import Normalizer, bool_key, simplify, atoms_of, spec_guard, equivalent, NotClosedForm, literals
from vk.loader import AnalysisError
from vk.paths import PathCounter, INF

EXPLANATION = (
    "Static dataflow / path / wiring rules over the election modules. Decides: no local can be "
    "unbound on a feasible structured path of election code (an UnboundLocalError would be an "
    "escaping non-documented exception); every _run_step path taken by _run_election appends a "
    "state (progress of the while-not-finished loop) and single-round rules append exactly one; "
    "the seat parameter reaches the finish test and the top-m selector unmodified; every explicit "
    "raise is of a documented type and no handler around a package call swallows a ValueError / TypeError; an unbroken boundary tie raises ValueError and the election "
    "loop of elect_cands_from_set_ranking stops at the first index reaching m; the candidates "
    "removed from the profile in a step are the candidates recorded as elected/eliminated. "
    "Does NOT decide termination of multi-round rules, |elected| = m, or the partition/monotone "
    "status clauses on all inputs."
)
ASSUMPTIONS = [
    "A1: ballots reaching a RankingElection step have a non-empty ranking (validated by _validate_profile; "
    "remove_cand drops ranking-less ballots) - used only to prune `if <ballot>.ranking` in step code",
    "A2: PluralityVeto never sees a tied last place with a falsy tiebreak (constructor raises for tiebreak=None; checked structurally)",
    "F1 (checked each run): self.score_function is truthy in every concrete class using the analysed method",
    "loops execute zero or more times; try-bodies may fail at any statement",
    "closed world: no getattr/setattr/exec in the package (rule P0 in C09)",
]
TRUSTED = ["python ast module", "structured control flow only (no match/async/yield/try-finally in analysed code)"]


# --------------------------------------------------------------------------------------------- R1
def _facts_for(ctx, f):
    prog = ctx.prog
    forced = {}
    infeasible = []
    note = []
    cls = f.cls
    if cls is not None and cls.is_subclass_of("Election"):
        okf1, why = facts.F1_holds(prog, cls)
        if okf1:
            forced["truthy(self.score_function)"] = True
            note.append("F1")
        if cls.is_subclass_of("RankingElection") and f.name != "__init__" and "validate" not in f.name:
            forced["__A1__"] = True
        if cls.name == "PluralityVeto" and f.name == "_run_step" and _A2_checked(prog):
            infeasible.append("A2")

    def fact(atom: str):
        if atom in forced:
            return forced[atom]
        if "__A1__" in forced and re.fullmatch(r"truthy\([A-Za-z_][\w]*\.ranking\)", atom):
            return True
        return None

    return fact, infeasible


def _A2_checked(prog) -> bool:
    try:
        init = prog.find_func("PluralityVeto.__init__")
    except AnalysisError:
        return False
    pm = astx.parents(init.node)
    N = Normalizer(init.node, inline=False)
    for r in astx.raises_in(init.node):
        g = N.conj(astx.path_condition(init.node, r, pm))
        ats = atoms_of(g)
        if any(a.startswith("isnone(self.tiebreak)") for a in ats) and any(a.startswith("any(") and "len(" in a for a in ats):
            # must precede Election.__init__
            sup = facts.super_init_call(init)
            if sup is not None and r.lineno < sup.lineno:
                return True
    return False


def r1_definite_assignment(ctx):
    n_funcs = 0
    for f in ctx.prog.iter_functions(elect.SCOPE_ELECTION):
        if isinstance(f.node, ast.Lambda):
            continue
        n_funcs += 1
        fact, infeasible_tags = _facts_for(ctx, f)
        infeasible = []
        if "A2" in infeasible_tags:
            N = Normalizer(f.node, inline=False)
            for n in astx.walk_own(f.node):
                if isinstance(n, ast.If):
                    for a in atoms_of(simplify(N.guard(n.test))):
                        if re.fullmatch(r"ge\(len\(.*\.ranking\[.*\]\), 2\)", a):
                            infeasible.append([(a, True), ("truthy(self.tiebreak)", False)])
        try:
            found = da.DA(f.node, fact, infeasible).run()
        except NotImplementedError as e:
            ctx.undecided(f, f.node, "definite assignment", f"unsupported statement kind: {e}")
            continue
        names = {}
        for fd in found:
            names.setdefault(fd.name, fd)
        if not names:
            ctx.ok(f, f.node, "definite assignment", "every local is bound on every structured path")
        for name, fd in sorted(names.items()):
            val = ", ".join(f"{k}={v}" for k, v in sorted(fd.valuation.items())) or "any"
            ctx.violated(f, fd.node, f"local '{name}' may be unbound",
                         f"use of '{name}' at line {fd.node.lineno} is reachable with no binding (guards: {val}) -> UnboundLocalError escapes")
    ctx.note(f"R1 analysed {n_funcs} functions in {len(elect.SCOPE_ELECTION)} module prefixes")


# --------------------------------------------------------------------------------------------- R2
def _finish_condition(f):
    """Normal form of `_is_finished() is True`."""
    pm = astx.parents(f.node)
    N = Normalizer(f.node, inline=True, int_atoms=lambda a: True)
    alts = []
    for n in astx.walk_own(f.node):
        if isinstance(n, ast.Return):
            pc = astx.path_condition(f.node, n, pm)
            if astx.is_const(n.value, True):
                alts.append(N.conj(pc))
            elif astx.is_const(n.value, False) or n.value is None:
                continue
            else:
                alts.append(simplify(("and", [N.conj(pc), N.guard(n.value)])))
    if not alts:
        raise AnalysisError(f"{f.short}: no return that can yield True")
    return simplify(("or", alts))


def r2_progress(ctx):
    prog = ctx.prog
    steps = elect.step_functions(prog)
    for f in steps:
        a1 = f.cls.is_subclass_of("RankingElection")

        def fact(a, a1=a1):
            if a == "truthy(store_states)":
                return True
            if a1 and re.fullmatch(r"truthy\([A-Za-z_]\w*\.ranking\)", a):
                return True  # A1
            return None
        exits = PathCounter(f.node, elect.is_states_append, fact).run()
        normal = [e for e in exits if e.kind in ("return", "fall-off")]
        # single-round classes: _is_finished is len(self.election_states) == K
        fin = f.cls.lookup("_is_finished")
        exact = False
        if fin is not None and not prog.is_abstract(fin):
            k = bool_key(_finish_condition(fin))
            exact = bool(re.fullmatch(r"eq\(len\(self\.election_states\), \d+\)", k))
        for e in normal:
            where = f"{e.kind} at line {getattr(e.node, 'lineno', f.node.end_lineno)}"
            if e.lo < 1:
                ctx.violated(f, e.node or f.node, "step path records no state",
                             f"{where}: a path taken with store_states=True appends nothing to self.election_states; "
                             "the while-not-finished loop then makes no progress")
            elif exact and e.hi > 1:
                ctx.violated(f, e.node or f.node, "step path records more than one state",
                             f"{where}: up to {'many' if e.hi >= INF else e.hi} appends on a path of a rule whose finish test is len(states) == K")
            else:
                ctx.ok(f, e.node or f.node, f"step path records state ({where})",
                       f"appends on path: [{e.lo},{'inf' if e.hi >= INF else e.hi}]" + (" ; exactly one required" if exact else ""))
    # who may pass store_states=True
    callers = []
    for g in prog.iter_functions():
        if isinstance(g.node, ast.Lambda):
            continue
        for c in astx.calls_in(g.node, "_run_step"):
            for kw in c.keywords:
                if kw.arg == "store_states" and not astx.is_const(kw.value, False):
                    callers.append((g, c))
            if len(c.args) >= 3:
                callers.append((g, c))
    for g, c in callers:
        ctx.check(g.short == "Election._run_election", g, c, "caller passes store_states",
                  "only Election._run_election runs steps in recording mode",
                  f"{g.short} calls _run_step with store_states set; only _run_election may")
    rel = elect.run_election(prog)
    loops = [n for n in astx.walk_own(rel.node) if isinstance(n, ast.While)]
    N = Normalizer(rel.node, inline=False)
    okloop = len(loops) == 1 and bool_key(N.guard(loops[0].test)) == "not truthy(self._is_finished())"
    ctx.check(okloop, rel, loops[0] if loops else rel.node, "election loop runs while not self._is_finished()",
              "loop test is `not self._is_finished()`", "the main loop no longer tests `not self._is_finished()`")
    if loops:
        body_calls = [c for c in astx.calls_in(loops[0], "_run_step")]
        good = len(body_calls) == 1 and any(kw.arg == "store_states" and astx.is_const(kw.value, True) for kw in body_calls[0].keywords)
        if good:
            b = astx.bind_args(body_calls[0], ["profile", "prev_state", "store_states"])
            good = astx.u(b.get("prev_state")) == "self.election_states[-1]"
        ctx.check(good, rel, loops[0], "loop body = one recording step from the last state",
                  "self._run_step(profile, self.election_states[-1], store_states=True)",
                  "the loop body does not run exactly one recording step on the last recorded state")


# --------------------------------------------------------------------------------------------- R3
SEAT_PARAMS = ("m", "m_1", "m_2")


def _seat_attr_plain(prog, cls, attr):
    """Every store to self.<attr> in the class's MRO is `self.attr = <ctor param attr>` (unmodified)."""
    bad = []
    n = 0
    for c in cls.mro():
        for m in c.methods.values():
            for node in astx.walk_own(m.node):
                if isinstance(node, ast.Assign):
                    for t in node.targets:
                        if astx.is_self_attr(t, attr):
                            n += 1
                            if not (m.name == "__init__" and astx.is_name(node.value, attr) and attr in m.params
                                    and not facts._rebound(m, attr)):
                                bad.append((m, node))
                elif isinstance(node, (ast.AugAssign, ast.AnnAssign)) and astx.is_self_attr(node.target, attr):
                    n += 1
                    bad.append((m, node))
    return n, bad


def _finish_compare(f):
    """The single comparison deciding `_is_finished`: (left, op, right) with locals inlined."""
    tests = []
    for n in astx.walk_own(f.node):
        if isinstance(n, ast.If) and any(isinstance(s, ast.Return) and astx.is_const(s.value, True) for s in n.body):
            tests.append(n.test)
        elif isinstance(n, ast.Return) and n.value is not None and not astx.is_const(n.value):
            tests.append(n.value)
    if len(tests) != 1:
        return None
    t = tests[0]
    if isinstance(t, ast.Name):
        t = astx.unique_def(f.node, t.id) or t
    if not (isinstance(t, ast.Compare) and len(t.ops) == 1):
        return None

    def inl(e):
        if isinstance(e, ast.Name):
            return astx.unique_def(f.node, e.id) or e
        return e
    return inl(t.left), t.ops[0], inl(t.comparators[0])


def r3_seat_wiring(ctx):
    prog = ctx.prog
    for cls in facts.election_classes(prog):
        fin = cls.lookup("_is_finished")
        cmp_ = _finish_compare(fin)
        if cmp_ is None:
            ctx.undecided(fin, fin.node, f"{cls.name}: finish test", "finish test is not a single comparison")
            continue
        left, op, right = cmp_
        N = Normalizer(fin.node, inline=True)
        kl, kr = N.key(left), N.key(right)
        desc = f"{kl} {type(op).__name__} {kr}"
        if kl == "len(self.election_states)" or kr == "len(self.election_states)":
            other = right if kl == "len(self.election_states)" else left
            want = 3 if cls.name == "TopTwo" else 2
            ctx.check(isinstance(op, ast.Eq) and astx.is_const(other, want), fin, fin.node,
                      f"{cls.name}: finished iff {want} states recorded", desc,
                      f"finish test is `{desc}`; a {want - 1}-round rule must stop at exactly {want} states")
            continue
        # count (from self.get_elected()) compared with the seat attribute
        seat_side = None
        for side, e in (("l", left), ("r", right)):
            if astx.is_self_attr(e) and e.attr in SEAT_PARAMS:
                seat_side = side
        if seat_side is None:
            ctx.violated(fin, fin.node, f"{cls.name}: finish test vs seat parameter",
                         f"`{desc}` does not compare against the unmodified seat attribute")
            continue
        seat, count = (left, right) if seat_side == "l" else (right, left)
        kcount = kr if seat_side == "l" else kl
        okop = isinstance(op, ast.Eq) or (isinstance(op, ast.GtE) and seat_side == "r") or (isinstance(op, ast.LtE) and seat_side == "l")
        want_attr = "m_2" if cls.name == "Alaska" else "m"
        n, bad = _seat_attr_plain(prog, cls, seat.attr)
        problems = []
        if "self.get_elected()" not in kcount:
            problems.append("the count is not derived from self.get_elected()")
        if not okop:
            problems.append("operator is not `count == seats` / `count >= seats`")
        if seat.attr != want_attr:
            problems.append(f"compares with self.{seat.attr}, expected self.{want_attr}")
        if n < 1 or bad:
            problems.append(f"self.{seat.attr} is not the unmodified constructor parameter")
        ctx.check(not problems, fin, bad[0][1] if bad else fin.node,
                  f"{cls.name}: finished iff elected-count reaches self.{want_attr}", desc, f"`{desc}`: " + "; ".join(problems))
    # the m argument of the top-m selector
    sel = prog.find_func("elect_cands_from_set_ranking")
    for f in prog.iter_functions(("src/votekit/elections/",)):
        if isinstance(f.node, ast.Lambda) or f.cls is None:
            continue
        for c in astx.calls_in(f.node, "elect_cands_from_set_ranking"):
            b = astx.bind_args(c, sel.params)
            marg = b.get("m")
            if marg is None:
                ctx.violated(f, c, "top-m selector called without m", "no m argument")
                continue
            if astx.is_self_attr(marg) and marg.attr in SEAT_PARAMS:
                n, bad = _seat_attr_plain(prog, f.cls, marg.attr)
                ctx.check(n >= 1 and not bad, f, c, f"selector m = self.{marg.attr} (constructor parameter, unmodified)",
                          astx.u(c)[:120], f"self.{marg.attr} is modified between the constructor and the selector")
            elif astx.is_const(marg, 1) and f.short == "STV._single_elect_step":
                ctx.ok(f, c, "selector m = 1 in one-by-one STV", astx.u(marg))
            else:
                ctx.violated(f, c, "selector m is not the seat parameter",
                             f"m argument is `{astx.u(marg)}`; expected the class's unmodified seat attribute")


# --------------------------------------------------------------------------------------------- R4
ALLOWED_RAISES = {"ValueError", "TypeError"}


def _documented_raises(f):
    out = set()
    for owner in (f, ):
        doc = ast.get_docstring(owner.node) or ""
        out.update(re.findall(r"^\s*([A-Z][A-Za-z]+Error)\s*:", doc, re.M))
    if f.cls is not None:
        doc = ast.get_docstring(f.cls.node) or ""
        out.update(re.findall(r"^\s*([A-Z][A-Za-z]+Error)\s*:", doc, re.M))
    return out


_CATCHES_DOCUMENTED = {"ValueError", "TypeError", "Exception", "BaseException", "ArithmeticError"}


def swallowing_handlers(func_node, is_package_call):
    """(handler, try body call) pairs: an `except` that catches ValueError / TypeError (or a base of them, or everything)
    around a call into the package and does not end in a raise on every path.  The documented refusals of the rules
    (unbroken boundary tie, invalid seats, ballots without the needed data) are ValueErrors / TypeErrors raised by the
    package's own constructors and helpers: such a handler turns one of them into "some result"."""
    out = []
    for t in ast.walk(func_node):
        if not isinstance(t, ast.Try):
            continue
        calls = [c for st in t.body for c in ast.walk(st) if isinstance(c, ast.Call) and is_package_call(c)]
        if not calls:
            continue
        for h in t.handlers:
            names = [astx.u(x) for x in (h.type.elts if isinstance(h.type, ast.Tuple) else [h.type])] if h.type is not None else ["BaseException"]
            if not any(n.split(".")[-1] in _CATCHES_DOCUMENTED for n in names):
                continue
            if astx.always_raises(h.body):
                continue
            out.append((h, calls[0]))
    return out


_HANDLER_SAMPLE = """
def step(self, profile):
    try:
        first = Plurality(profile, 2, self.tiebreak)
    except ValueError:
        first = Plurality(profile, 1, self.tiebreak)
    try:
        k = names.index(c)
    except ValueError:
        k = -1
    try:
        second = Plurality(profile, 2, self.tiebreak)
    except ValueError as e:
        raise ValueError("no runoff possible") from e
    return first
"""


def r4_raise_census(ctx):
    prog = ctx.prog
    sample = ast.parse(_HANDLER_SAMPLE).body[0]
    got = swallowing_handlers(sample, lambda c: astx.call_name(c) == "Plurality")
    if len(got) != 1 or got[0][0].lineno != 5:
        ctx.undecided(None, None, "handler clause self-test", f"the handler clause finds {len(got)} of the 1 swallowing handler of its built-in sample")
    else:
        ctx.ok(None, None, "handler clause self-test: 1 swallowing handler of 3 in the built-in sample", "")
    for f in prog.iter_functions(elect.SCOPE_ELECTION):
        if isinstance(f.node, ast.Lambda):
            continue
        pm = None
        for r in astx.raises_in(f.node):
            t = astx.raise_type(r)
            if t in ALLOWED_RAISES:
                ctx.ok(f, r, f"raise {t}", "documented error type")
                continue
            if t == "IndexError":
                pm = pm or astx.parents(f.node)
                pc = astx.path_condition(f.node, r, pm)
                names = {n.id for tst, _ in pc for n in ast.walk(tst) if isinstance(n, ast.Name)}
                ctx.check("round_number" in names, f, r, "raise IndexError under a round_number guard",
                          "index error for an out-of-range round", "IndexError raised outside a round_number guard")
                continue
            if t in _documented_raises(f):
                ctx.ok(f, r, f"raise {t}", "named in the Raises: section of the docstring")
                continue
            if t == "TypeError" or t == "<reraise>":
                ctx.ok(f, r, f"raise {t}", "")
                continue
            ctx.violated(f, r, f"raise {t}",
                         f"{t} is neither ValueError/TypeError nor documented for {f.short}; it would escape for otherwise valid input")
        # no handler swallows a documented refusal
        def _pkg(c, f=f):
            q = prog.resolve_expr(f.module, c.func)
            if q and (q in prog.functions or q in prog.classes):
                return True
            return isinstance(c.func, ast.Attribute) and astx.is_name(c.func.value, "self") and f.cls is not None and f.cls.lookup(c.func.attr) is not None
        for h, c in swallowing_handlers(f.node, _pkg):
            ctx.violated(f, h, "no handler swallows a documented ValueError / TypeError of the package",
                         f"`except {astx.u(h.type) if h.type is not None else ''}` around `{astx.u(c)[:60]}` does not re-raise: a refusal raised inside "
                         "(an unbroken boundary tie, an invalid seat count, ballots without the needed data) is turned into some result")
        for a in astx.walk_own(f.node):
            if isinstance(a, ast.Assert) and not astx.is_const(a.test, False):
                # an assertion that restates what the path already established cannot fire
                from vk.algebra import implies
                pm = pm or astx.parents(f.node)
                Na = Normalizer(f.node, inline=False)
                try:
                    redundant = implies(Na.conj(astx.path_condition(f.node, a, pm)), Na.guard(a.test))
                except Exception:
                    redundant = False
                if redundant:
                    ctx.ok(f, a, "assert restating its path condition", astx.u(a.test)[:60])
                else:
                    ctx.violated(f, a, "assert in election code", "AssertionError could escape")


# --------------------------------------------------------------------------------------------- R5
def r5_boundary_tie(ctx):
    """Decided on the iteration table of the selector (rules/selmodel.py): the paths of one pass through the election
    loop, each with its condition and effect in entry values, whatever order the body tests and appends in."""
    from rules import selmodel
    prog = ctx.prog
    m = selmodel.model(prog)
    f = m.f
    if m.loop is None:
        if m.problem and m.problem.startswith("anchor-missing"):
            raise AnalysisError(m.problem)
        ctx.undecided(f, f.node, "election loop", m.problem or "no election loop")
        return
    loop = m.loop
    pm = astx.parents(f.node)
    tb_calls0 = astx.calls_in(f.node, "tiebreak_set")
    if tb_calls0 and all(astx.enclosing(c, pm, ast.While) is not loop for c in tb_calls0):
        ctx.undecided(f, loop, "selector shape", "the boundary tie is resolved outside the election loop: not the arrangement these clauses describe")
        return
    lk = bool_key(m.N().guard(loop.test))
    if m.CNT is None:
        ctx.violated(f, loop, "election loop continues iff elected-so-far < m",
                     f"loop test normal form is `{lk}`; expected `<count> < {m.M}` so that the loop stops at the first index reaching m")
        return
    ctx.ok(f, loop, "election loop continues iff elected-so-far < m", lk)
    if m.problem:
        ctx.undecided(f, loop, "selector shape", m.problem)
        return
    int_atoms = lambda a: True
    N = m.N()
    grp = m.group()
    # paths that go on to the next group: exactly when the group fits; the group is appended and counted
    nexts = m.kinds("next")
    fits = spec_guard(f"not ({m.overshoot()})", int_atoms=int_atoms)
    okinc = bool(nexts) and not m.kinds("break")
    for o in nexts:
        e, c = o.state.get(m.E), o.state.get(m.CNT)
        okinc = okinc and e is not None and len(e.segs) == 2 and e.segs[0] == ("base", m.E) and e.segs[1][0] == "elem" and N.key(e.segs[1][1]) == grp \
            and c is not None and m.rat_eq(c, f"{m.CNT} + len({grp})")
    okinc = okinc and equivalent(m.union(nexts), fits)
    ctx.check(okinc, f, loop, "counter += len(group) for the group appended to elected",
              "a group that fits is appended and counted; the loop goes on exactly then",
              "on the paths that continue with the next group, the group is not appended and counted (count + len(group) <= m) exactly once: "
              + "; ".join(f"[{bool_key(m.cond(o))}] {m.E}={o.state[m.E].text() if m.E in o.state else m.E}, {m.CNT}={astx.u(o.state.get(m.CNT)) if o.state.get(m.CNT) is not None else m.CNT}" for o in nexts)[:300])
    # ValueError iff overshoot and no tiebreak
    spec = spec_guard(f"{m.overshoot()} and not {m.TB}", int_atoms=int_atoms)
    raises = m.kinds("raise")
    if not raises:
        ctx.violated(f, loop, "unbroken boundary tie raises ValueError", "no raise inside the election loop: an unbroken tie returns some result")
    else:
        g = m.union(raises)
        good = equivalent(g, spec) and all(astx.raise_type(o.node) == "ValueError" for o in raises)
        ctx.check(good, f, raises[0].node, "unbroken boundary tie raises ValueError",
                  f"raise {astx.raise_type(raises[0].node)} iff {bool_key(g)}",
                  f"raise {astx.raise_type(raises[0].node)} under `{bool_key(g)}`; specified: ValueError iff `{bool_key(spec)}`")
    # the tiebreak branch: returns inside the loop; third component = (tied group, tiebreak_set(...))
    rets = m.kinds("return")
    spec_tb = spec_guard(f"{m.overshoot()} and {m.TB}", int_atoms=int_atoms)
    if not rets:
        ctx.violated(f, loop, "broken boundary tie returns the resolution", "no return on the tiebreak branch")
    else:
        g = m.union(rets)
        okg = equivalent(g, spec_tb)
        okc = True
        detail = ""
        tb = prog.find_func("tiebreak_set")
        for o in rets:
            v = selmodel.tie_call(m, o)
            if v is None:
                okc = False
                detail = "third component is not (tied group, tiebreak_set(tied group, profile, tiebreak))"
                continue
            tied = o.value.elts[2].elts[0]
            b = astx.bind_args(v, tb.params)
            ok1 = (b.get(tb.params[0]) is not None and N.key(b.get(tb.params[0])) == N.key(tied) == grp and astx.is_name(b.get(tb.params[1]), m.PROF)
                   and astx.is_name(b.get(tb.params[2]), m.TB))
            okc = okc and ok1
            detail = f"third component ({astx.u(tied)}, {astx.u(v)})"
        ctx.check(okg and okc, f, rets[0].node, "broken boundary tie returns (tied group, its resolution)",
                  f"under {bool_key(g)}: {detail}",
                  f"path condition `{bool_key(g)}` (specified `{bool_key(spec_tb)}`); {detail}")


def _inside(node, container) -> bool:
    return any(n is node for n in ast.walk(container))


# --------------------------------------------------------------------------------------------- R6
def _singleton_pick_base(prog, f, x):
    """`c = list(E[0])[0]` where E is component 0 of an m=1 election (fact F3: E == ({c},)) -> E."""
    v = astx.unique_def(f.node, x.id) if isinstance(x, ast.Name) else x
    if (isinstance(v, ast.Subscript) and astx.is_const(v.slice, 0) and isinstance(v.value, ast.Call)
            and astx.call_name(v.value) == "list" and len(v.value.args) == 1):
        inner = v.value.args[0]
        if isinstance(inner, ast.Subscript) and astx.is_const(inner.slice, 0) and isinstance(inner.value, ast.Name):
            src = astx.tuple_unpack_source(f.node, inner.value.id)
            if src is not None and src[1] == 0 and isinstance(src[0], ast.Call) and astx.call_name(src[0]) == "elect_cands_from_set_ranking":
                sel = prog.find_func("elect_cands_from_set_ranking")
                b = astx.bind_args(src[0], sel.params)
                if astx.is_const(b.get("m"), 1):
                    return inner.value
    return x


def r6_bookkeeping(ctx):
    prog = ctx.prog
    N_sites = 0
    for f in prog.iter_functions(("src/votekit/elections/election_types/",)):
        if isinstance(f.node, ast.Lambda) or f.cls is None or not f.cls.is_subclass_of("Election"):
            continue
        rcs = astx.calls_in(f.node, "remove_cand")
        if not rcs:
            continue
        N = Normalizer(f.node, inline=False)
        recorded = {}
        for sc in elect.state_ctor_calls(prog, f):
            kw = elect.state_kwargs(prog, sc)
            for fld in ("elected", "eliminated"):
                if fld in kw:
                    v = kw[fld]
                    if isinstance(v, ast.Name):
                        for _, dv in astx.defs_of(f.node, v.id):
                            if dv is not None:
                                recorded[N.key(elect.flatten_base(dv, f.node))] = fld
                    recorded[N.key(elect.flatten_base(v, f.node))] = fld
        for r in (n for n in astx.walk_own(f.node) if isinstance(n, ast.Return)):
            if isinstance(r.value, ast.Tuple):
                for el in r.value.elts:
                    recorded.setdefault(N.key(elect.flatten_base(el, f.node)), "returned component")
        rc_f = prog.find_func("remove_cand")
        for c in rcs:
            N_sites += 1
            b = astx.bind_args(c, rc_f.params)
            x = b.get(rc_f.params[0])
            x = _singleton_pick_base(prog, f, elect.flatten_base(x, f.node) if isinstance(x, (ast.List, ast.Tuple, ast.Set)) else x)
            k = N.key(elect.flatten_base(x, f.node))
            if k in recorded:
                ctx.ok(f, c, f"removed candidates = recorded {recorded[k]}", f"remove_cand({astx.u(x)[:60]}, ...) ; recorded from `{k}`")
            else:
                ctx.violated(f, c, "removed candidates differ from the recorded group",
                             f"remove_cand removes `{k}` but the step records {sorted(recorded) or 'nothing'} as elected/eliminated")
        # STV-style candidate tuple: set(profile.candidates).difference(<flatten(X)>) must use the same X
        for d in astx.calls_in(f.node, "difference"):
            if isinstance(d.func, ast.Attribute) and "candidates" in astx.u(d.func.value) and d.args:
                a0 = d.args[0]
                # [c] with c the single member of the recorded group is that group; a bare name c is NOT: set.difference(c)
                # would iterate over the characters of the candidate's name
                if isinstance(a0, (ast.List, ast.Tuple, ast.Set)):
                    a0 = _singleton_pick_base(prog, f, elect.flatten_base(a0, f.node))
                k = N.key(elect.flatten_base(a0, f.node))
                ctx.check(k in recorded, f, d, "remaining candidate tuple = previous candidates minus the recorded group",
                          f"difference({k})", f"candidates removed from the tuple (`{k}`) are not the recorded group {sorted(recorded)}")
    ctx.note(f"R6 examined {N_sites} remove_cand sites in rule classes")
    # "everyone left is elected" branches record prev_state.remaining and return the empty profile
    for f in elect.step_functions(prog):
        for n in astx.walk_own(f.node):
            if isinstance(n, ast.Assign) and len(n.targets) == 1 and astx.is_name(n.targets[0]) and \
                    isinstance(n.value, ast.Call) and astx.call_name(n.value) == "PreferenceProfile" and not n.value.args and not n.value.keywords:
                # empty next profile: the same branch must record prev_state.remaining as elected
                pm = astx.parents(f.node)
                blk = pm[n]
                body = getattr(blk, "body", [])
                seq = body if n in body else getattr(blk, "orelse", [])
                el = [s for s in seq if isinstance(s, ast.Assign) and astx.is_name(s.targets[0], "elected")]
                good = any(astx.u(s.value).endswith(".remaining") for s in el)
                ctx.check(good, f, n, "empty next profile only when all remaining candidates are recorded as elected",
                          "elected = prev_state.remaining", "the branch that empties the profile does not elect prev_state.remaining")
    # scoring helpers initialise over all profile.candidates
    for name in ("score_profile_from_rankings", "mentions", "score_profile_from_ballot_scores"):
        g = prog.find_func(name)
        inits = [n for n in astx.walk_own(g.node) if isinstance(n, ast.DictComp) and len(n.generators) == 1
                 and astx.u(n.generators[0].iter).endswith(".candidates") and not n.generators[0].ifs
                 and astx.is_name(n.key, getattr(n.generators[0].target, "id", None))]
        if not inits:
            # dict.fromkeys(<profile>.candidates, zero) is the same table
            inits = [n for n in astx.walk_own(g.node) if isinstance(n, ast.Call) and astx.u(n.func) == "dict.fromkeys" and len(n.args) == 2 and astx.u(n.args[0]).endswith(".candidates")]
        ctx.check(bool(inits), g, inits[0] if inits else g.node, "score dict initialised over all profile.candidates",
                  "zero-vote candidates stay listed", "score dictionary is no longer initialised over every candidate of the profile")


# --------------------------------------------------------------------------------------------- R7
def r7_plurality_veto_shape(ctx):
    """PluralityVeto has no counterpart in the other properties' rules: the step's veto mechanics."""
    prog = ctx.prog
    f = prog.find_func("PluralityVeto._run_step")
    pm = astx.parents(f.node)
    N = Normalizer(f.node, inline=True, int_atoms=lambda a: True)
    Nl = Normalizer(f.node, inline=False)
    # final round: remaining candidates == m, computed from the elimination table
    hits = [n for n in astx.walk_own(f.node) if isinstance(n, ast.Assign) and astx.is_name(n.targets[0], "elected") and astx.u(n.value).endswith(".remaining")]
    good = False
    d = ""
    if len(hits) == 1:
        g = N.conj(astx.path_condition(f.node, hits[0], pm))
        d = bool_key(g)
        good = d in ("eq(len(self.eliminated_dict) - self.m - sum(self.eliminated_dict.values()), 0)", "eq(-len(self.eliminated_dict) + self.m + sum(self.eliminated_dict.values()), 0)")
    ctx.check(good, f, hits[0] if hits else f.node, "PluralityVeto: the last round is reached iff (#candidates - #eliminated) == m", d,
              f"final-round condition is `{d}`; documented: candidates not yet eliminated == m")
    # the veto: one point off the last-placed candidate of the voter's current ballot
    decs = [n for n in astx.walk_own(f.node) if isinstance(n, ast.AugAssign) and isinstance(n.op, ast.Sub)]
    good = False
    d = ""
    if len(decs) == 1:
        dn = decs[0]
        tgt = astx.u(dn.target.slice) if isinstance(dn.target, ast.Subscript) else "?"
        lp = astx.unique_def(f.node, tgt)
        lastp = astx.unique_def(f.node, "last_place")
        tb = [dv for st, dv in astx.defs_of(f.node, "tiebroken_ranking") if dv is not None]
        d = f"{astx.u(dn)}; {tgt} = {astx.u(lp) if lp is not None else None}"
        good = astx.u(dn.value) in ("Fraction(1)", "1") and lp is not None and re.fullmatch(r"list\((\w+)\[-1\]\)\[0\]", astx.u(lp)) is not None \
            and lastp is not None and astx.u(lastp) == "self.preference_index[ballot_index]" \
            and any(astx.u(x) == "(ballot.ranking[last_place],)" for x in tb) and any(astx.u(x).startswith("tiebreak_set(ballot.ranking[last_place]") for x in tb)
    ctx.check(good, f, decs[0] if decs else f.node, "PluralityVeto: each voter takes exactly one point off the last-placed candidate of their current ballot", d,
              f"veto step is `{d}`")
    # elimination test and stop
    good = False
    if decs:
        blk = pm[decs[0]]
        seq = blk.body if decs[0] in blk.body else getattr(blk, "orelse", [])
        nxt = seq[seq.index(decs[0]) + 1] if seq.index(decs[0]) + 1 < len(seq) else None
        if isinstance(nxt, ast.If):
            k = bool_key(Nl.guard(nxt.test))
            tgt = astx.u(decs[0].target)
            body = [astx.u(x) for x in nxt.body]
            good = k == f"le({tgt}, 0)" and len(body) == 2 and body[0].startswith("eliminated_cands.append(") and body[1] == "break" and not nxt.orelse
    ctx.check(good, f, decs[0] if decs else f.node, "PluralityVeto: a candidate reaching score <= 0 is eliminated and the round stops there", "",
              "the elimination test after the veto is not `if score <= 0: eliminated.append(c); break`")
    # skip voters whose ballot is exhausted; round 0 pre-eliminates zero-score candidates
    pre = [dv for st, dv in astx.defs_of(f.node, "eliminated_cands") if isinstance(dv, astx.LCOMP)]
    sc_var = astx.u(pre[0].generators[0].target.elts[1]) if len(pre) == 1 and isinstance(pre[0].generators[0].target, ast.Tuple) and len(pre[0].generators[0].target.elts) == 2 else "score"
    good = len(pre) == 1 and [bool_key(Normalizer(None, inline=False).guard(t)) for t in pre[0].generators[0].ifs] == [f"le({sc_var}, 0)"] and astx.u(pre[0].generators[0].iter).endswith(".scores.items()")
    if good:
        st = [st for st, dv in astx.defs_of(f.node, "eliminated_cands") if dv is pre[0]][0]
        good = f"eq({f.params[2]}.round_number, 0)" in literals(Nl.conj(astx.path_condition(f.node, st, pm)))
    ctx.check(good, f, pre[0] if pre else f.node, "PluralityVeto: candidates with no first-place votes are eliminated in the first round only", "", "round-0 pre-elimination changed")
    # rotation of the voter order
    rot = [n for n in astx.walk_own(f.node) if isinstance(n, ast.Assign) and astx.u(n.targets[0]) == "self.random_order"]
    ctx.check(len(rot) == 1 and N.key(rot[0].value) == "self.random_order[rand_index + 1:] ++ self.random_order[:rand_index + 1]", f, rot[0] if rot else f.node,
              "PluralityVeto: the next round continues with the voter after the one who caused the elimination", astx.u(rot[0].value)[:90] if rot else "",
              "the circular shift of the voter order changed")
    # bookkeeping of eliminated candidates
    marks = [n for n in astx.walk_own(f.node) if isinstance(n, ast.Assign) and astx.u(n.targets[0]).startswith("self.eliminated_dict[") and astx.is_const(n.value, True)]
    rc = astx.calls_in(f.node, "remove_cand")
    good = len(marks) == 1 and isinstance(pm.get(marks[0]), ast.For) and astx.u(pm[marks[0]].iter) == "eliminated_cands" and len(rc) == 1
    if good:
        b = {k: astx.u(v) for k, v in astx.bind_args(rc[0], prog.find_func("remove_cand").params).items()}
        good = b == {"removed": "eliminated_cands", "profile_or_ballots": f.params[1], "condense": "False", "leave_zero_weight_ballots": "True"}
    ctx.check(good, f, rc[0] if rc else f.node, "PluralityVeto: every eliminated candidate is marked and removed from all ballots, ballot positions kept aligned", "",
              "marking / removal of eliminated candidates changed (condense=False, leave_zero_weight_ballots=True keep the per-voter indices valid)")
    # constructor: one unit ballot per vote, uniformly shuffled voter order, all candidates unmarked
    init = prog.find_func("PluralityVeto.__init__")
    ctor = [c for c in astx.calls_in(init.node, "Ballot") if c.args or any(k.arg == "ranking" for k in c.keywords)]
    good = False
    if len(ctor) == 1:
        c = ctor[0]
        ipm = astx.parents(init.node)
        loops = [l for l in astx.enclosing_loops(c, ipm, init.node) if isinstance(l, ast.For)]
        kw = {k.arg: astx.u(k.value) for k in c.keywords}
        good = len(loops) == 2 and astx.u(loops[0].iter) == f"range(int({astx.u(loops[1].target)}.weight))" and astx.u(loops[1].iter) in ("ballots", f"{init.params[1]}.ballots") \
            and kw.get("weight") in ("Fraction(1, 1)", "Fraction(1)") and (astx.u(c.args[0]) if c.args else kw.get("ranking")) == f"{astx.u(loops[1].target)}.ranking"
    ctx.check(good, init, ctor[0] if ctor else init.node, "PluralityVeto: every unit of weight becomes one voter with the same ranking", "", "decondensing of the profile changed")
    sh = [c for c in astx.calls_in(init.node, "shuffle")]
    ro = [n for n in astx.walk_own(init.node) if isinstance(n, ast.Assign) and astx.u(n.targets[0]) == "self.random_order"]
    good = len(sh) == 1 and astx.u(sh[0].args[0]) == "self.random_order" and len(ro) == 1 and astx.u(ro[0].value) == "list(range(int(profile.num_ballots)))" and ro[0].lineno < sh[0].lineno
    ctx.check(good, init, sh[0] if sh else init.node, "PluralityVeto: voter order = uniform shuffle of all voters", "", "voter order initialisation changed")
    ed = [n for n in astx.walk_own(init.node) if isinstance(n, ast.Assign) and astx.u(n.targets[0]) == "self.eliminated_dict"]
    ctx.check(len(ed) == 1 and astx.u(ed[0].value) == astx.A("{c: False for c in profile.candidates}"), init, ed[0] if ed else init.node, "PluralityVeto: nobody is eliminated at the start", "", "elimination table initialisation changed")
    pi = [n for n in list(astx.walk_own(init.node)) + list(astx.walk_own(f.node)) if isinstance(n, ast.Assign) and astx.u(n.targets[0]) == "self.preference_index"]
    ctx.check(len(pi) == 2 and all(astx.u(x.value) == astx.A("[len(ballot.ranking) - 1 if ballot.ranking else -1 for ballot in self.ballot_list]") for x in pi), f, pi[0] if pi else f.node,
              "PluralityVeto: a voter's veto position is the last position of their current ballot (-1 when exhausted), recomputed after every round", "", "preference_index computation changed")


# --------------------------------------------------------------------------------------------- R8
def _c17_boosted(sub):
    from rules import c17
    return c17.r2_boosted(sub)


def _c12_wrap(sub):
    from rules import c12
    return c12.r1_filter_polarity(sub)


def r8_prerequisites(ctx):
    """Facts the clauses above rest on, decided by the rules that own them and re-stated here:
    F2 (tiebreak_set returns a strict order of singletons: random fallback behind the still-tied test),
    the quota formulas (at most m candidates can reach the Droop quota), and the agreement of the two
    STV constructions in Alaska (a diverging replay raises IndexError / reports other winners)."""
    from rules import c10, c02, c13, c09
    picks = [(c10.r4_fallback, lambda o: True), (c10.r5_groups_obey, lambda o: True), (c02.r1_quota, lambda o: True),
             (c02.r6_elimination, lambda o: True), (c09.r2_writes_guarded, lambda o: ".stv.STV." in o.function),
             (c09.r7_no_shared_mutable_state, lambda o: o.status != "DISCHARGED" or "mutate" in o.construct),
             (c10.r2_only_in_tie, lambda o: True),
             # at most m candidates reach the quota only while no vote is created: each winner's own pile through the transfer rule once
             (c02.r8_transfer_wiring, lambda o: "transfer" in o.construct or "carried over" in o.construct or "carried-over" in o.construct),
             # eliminations and dictator elections remove ONE candidate by name: a name that is not wrapped before the membership
             # tests strikes every candidate whose name it contains, and the next tally raises KeyError out of the constructor
             (_c12_wrap, lambda o: "wrapped into a list" in o.construct),
             # with as many seats as candidates the last candidate may hold no vote at all: only the "single remaining candidate wins
             # outright" branch keeps the squares law from dividing by a total weight of 0 (ValueError instead of the m-th winner)
             (_c17_boosted, lambda o: "single remaining candidate" in o.construct or "squares branch iff" in o.construct),
             (c13.r3_alaska, lambda o: "get_profile" in o.construct or "stage 1" in o.construct or "STV" in o.construct)]
    n = 0
    for fn, keep in picks:
        sub = type(ctx)(ctx.prog, ctx.prop, ctx.tier)
        try:
            fn(sub)
        except AnalysisError as e:
            ctx.vanished(str(e))
            continue
        for o in sub.obs:
            if keep(o):
                o.rule = "C01.R8"
                ctx.obs.append(o)
                n += 1
    if n < 10:
        ctx.vanished(f"prerequisite obligations: only {n}")


def r9_finish_reachable(ctx):
    """Termination of count-down rules: a step whose finishing branch is guarded by an EQUALITY between the number of
    candidates still standing and m terminates only if every other round lowers that number by exactly one.  A round
    that can strike several candidates at once can step over m, after which the equality never holds and
    _run_election loops forever."""
    prog = ctx.prog
    n = 0
    for f in elect.step_functions(prog):
        pm = astx.parents(f.node)
        N = Normalizer(f.node, inline=False)
        for t in (x for x in astx.walk_own(f.node) if isinstance(x, ast.If)):
            c = t.test
            if not (isinstance(c, ast.Compare) and len(c.ops) == 1 and isinstance(c.ops[0], ast.Eq)):
                continue
            sides = [c.left, c.comparators[0]]
            cnt = next((x for x in sides if isinstance(x, ast.Name)), None)
            if cnt is None or not any(astx.is_self_attr(x, "m") for x in sides):
                continue
            cd = astx.unique_def(f.node, cnt.id)
            if cd is None:
                continue
            # the table the count is taken from, and the per-round writes into it
            tables = {x.attr for x in ast.walk(cd) if isinstance(x, ast.Attribute) and astx.is_name(x.value, "self")}
            marks = [st for st in astx.walk_own(f.node) if isinstance(st, ast.Assign) and isinstance(st.targets[0], ast.Subscript)
                     and isinstance(st.targets[0].value, ast.Attribute) and astx.is_name(st.targets[0].value.value, "self") and st.targets[0].value.attr in tables]
            for mk in marks:
                n += 1
                lp = astx.enclosing(mk, pm, ast.For)
                several = None
                if lp is not None and isinstance(lp.iter, ast.Name):
                    defs = astx.defs_of(f.node, lp.iter.id)
                    grows = [x for x in astx.calls_in(f.node, "append") if astx.is_name(x.func.value, lp.iter.id)]
                    multi = [dv for _, dv in defs if isinstance(dv, (ast.ListComp, ast.GeneratorExp)) or (isinstance(dv, ast.Call) and astx.u(dv.func) in ("list", "sorted"))]
                    if multi or len(grows) > 1:
                        several = f"`{lp.iter.id}` is built by `{astx.u(multi[0])[:70]}`" + (f" and {len(grows)} append(s)" if grows else "") if multi else f"`{lp.iter.id}` grows by {len(grows)} appends"
                if several:
                    ctx.violated(f, t, f"{f.short}: finishing test `{astx.u(c)}` can be stepped over",
                                 f"the round marks every member of a collection at once ({several}), so `{cnt.id}` can drop from above m to below m "
                                 f"without ever equalling it; the finishing branch is then unreachable and the election never terminates")
                else:
                    ctx.ok(f, t, f"{f.short}: finishing test `{astx.u(c)}` is reached", "one candidate is struck per round")
    if n < 1:
        ctx.vanished("count-down finishing tests: none found")


RULES = [
    ("C01.R1", r1_definite_assignment, 60, "no unbound local on a feasible path of election code (predicate-refined definite assignment)"),
    ("C01.R2", r2_progress, 12, "every recording step path appends a state; single-round rules exactly one; only _run_election records"),
    ("C01.R3", r3_seat_wiring, 18, "seat parameter reaches the finish test and the top-m selector unmodified"),
    ("C01.R4", r4_raise_census, 40, "every explicit raise in election code is ValueError/TypeError/guarded IndexError/documented"),
    ("C01.R5", r5_boundary_tie, 4, "unbroken boundary tie => ValueError; loop stops at the first index reaching m; resolution returned"),
    ("C01.R6", r6_bookkeeping, 12, "candidates removed from the profile = candidates recorded as elected/eliminated"),
    ("C01.R8", r8_prerequisites, 10, "prerequisites: F2 (strict resolutions), selector split, quota formulas, Alaska's two STV constructions agree"),
    ("C01.R9", r9_finish_reachable, 1, "a finishing test that is an equality on a count-down is reached: no round strikes several candidates at once"),
    ("C01.R7", r7_plurality_veto_shape, 10, "PluralityVeto veto mechanics: final-round test, one point off the last place, stop at <= 0, rotation, bookkeeping"),
]


def sweep(prog):
    """Thorough tier: predicate-refined definite assignment over EVERY function of the package."""
    out = []
    n = 0
    for f in prog.iter_functions():
        if isinstance(f.node, ast.Lambda) or f.module.path.startswith(elect.SCOPE_ELECTION):
            continue
        n += 1
        try:
            for fd in da.DA(f.node).run():
                out.append(f"possibly unbound local '{fd.name}' at {f.loc(fd.node)} (outside the election scope; informational)")
        except NotImplementedError:
            pass
    out.append(f"definite assignment swept over {n} further functions outside the election scope")
    return out


UT = "src/votekit/utils.py"
MO = "src/votekit/models.py"
STV = "src/votekit/elections/election_types/ranking/stv.py"
PL = "src/votekit/elections/election_types/ranking/plurality.py"
RD = "src/votekit/elections/election_types/ranking/random_dictator.py"
BRD = "src/votekit/elections/election_types/ranking/boosted_random_dictator.py"
PV = "src/votekit/elections/election_types/ranking/plurality_veto.py"
TT = "src/votekit/elections/election_types/ranking/top_two.py"
DS = "src/votekit/elections/election_types/ranking/dominating_sets.py"
RT = "src/votekit/elections/election_types/scores/rating.py"
FAULTS = [
    ("BRD tiebreaks unbound again", [(BRD, "            winning_candidate = remaining_cands[0]\n            tiebreaks = {}\n", "            winning_candidate = remaining_cands[0]\n")], "C01.R1"),
    ("stv elected only bound when someone passes", [(STV, "            elected = (frozenset(),)\n            eliminated = (frozenset([eliminated_cand]),)", "            eliminated = (frozenset([eliminated_cand]),)")], "C01.R1"),
    ("plurality tiebreaks bound only on ties", [(PL, "            else:\n                tiebreaks = {}\n\n            new_state = ElectionState(\n                round_number=1,  # single shot election\n                remaining=remaining,\n                elected=elected,\n                scores=scores,\n                tiebreaks=tiebreaks,\n            )\n\n            self.election_states.append(new_state)\n\n        return new_profile\n\n\nclass SNTV",
                                                  "\n            new_state = ElectionState(\n                round_number=1,  # single shot election\n                remaining=remaining,\n                elected=elected,\n                scores=scores,\n                tiebreaks=tiebreaks,\n            )\n\n            self.election_states.append(new_state)\n\n        return new_profile\n\n\nclass SNTV")], "C01.R1"),
    ("dominating sets records nothing when one tier", [(DS, "        if store_states:\n            elected = (frozenset(dominating_tiers[0]),)", "        if store_states and len(dominating_tiers) > 1:\n            elected = (frozenset(dominating_tiers[0]),)")], "C01.R2"),
    ("rating appends twice", [(RT, "            self.election_states.append(new_state)\n\n        return new_profile\n\n\nclass Rating", "            self.election_states.append(new_state)\n            if tie_resolution:\n                self.election_states.append(new_state)\n\n        return new_profile\n\n\nclass Rating")], "C01.R2"),
    ("get_profile records", [(MO, "            profile = self._run_step(profile, self.election_states[i])\n\n        return profile", "            profile = self._run_step(profile, self.election_states[i], store_states=i < 0)\n\n        return profile")], "C01.R2"),
    ("stv finished at m-1", [(STV, "        if len(elected_cands) == self.m:\n            return True", "        if len(elected_cands) == self.m - 1:\n            return True")], "C01.R3"),
    ("RD finished strictly more", [(RD, "        return sum(cands_elected) >= self.m", "        return sum(cands_elected) > self.m")], "C01.R3"),
    ("toptwo stops after one round", [(TT, "        if len(self.election_states) == 3:", "        if len(self.election_states) == 2:")], "C01.R3"),
    ("plurality seats doubled", [(PL, "        self.m = m\n        self.tiebreak = tiebreak\n        super().__init__(profile, score_function=first_place_votes, sort_high_low=True)", "        self.m = 2 * m if False else m + 0\n        self.tiebreak = tiebreak\n        super().__init__(profile, score_function=first_place_votes, sort_high_low=True)")], "C01.R3"),
    ("KeyError raised explicitly", [(UT, "            if len(first_cand) > 1:\n                raise ValueError(f\"Ballot {b} has a tie for first.\")", "            if len(first_cand) > 1:\n                raise KeyError(f\"Ballot {b} has a tie for first.\")")], "C01.R4"),
    ("boundary tie picks silently", [(UT, "            if not tiebreak:\n                raise ValueError(\n                    \"Cannot elect correct number of candidates without breaking ties.\"\n                )\n            else:", "            if not tiebreak and profile is None:\n                raise ValueError(\n                    \"Cannot elect correct number of candidates without breaking ties.\"\n                )\n            else:")], "C01.R5"),
    ("selector loop <= m", [(UT, "    while num_elected < m:", "    while num_elected <= m:")], "C01.R5"),
    ("boundary test >= m", [(UT, "        if num_elected > m:\n            if not tiebreak:", "        if num_elected >= m:\n            if not tiebreak:")], "C01.R5"),
    ("tie raises TypeError", [(UT, "                raise ValueError(\n                    \"Cannot elect correct number of candidates without breaking ties.\"\n                )", "                raise TypeError(\n                    \"Cannot elect correct number of candidates without breaking ties.\"\n                )")], "C01.R5"),
    ("plurality removes remaining instead of elected", [(PL, "        new_profile = remove_cand([c for s in elected for c in s], profile)", "        new_profile = remove_cand([c for s in remaining for c in s], profile)")], "C01.R6"),
    ("stv candidate tuple keeps the elected", [(STV, "        remaining_cands = set(profile.candidates).difference(\n            [c for s in elected for c in s]\n        )\n        new_profile = PreferenceProfile(\n            ballots=cleaned_ballots, candidates=tuple(remaining_cands)\n        )\n        return (tuple(elected), new_profile)",
                                                 "        remaining_cands = set(profile.candidates).difference(\n            [c for s in elected[1:] for c in s]\n        )\n        new_profile = PreferenceProfile(\n            ballots=cleaned_ballots, candidates=tuple(remaining_cands)\n        )\n        return (tuple(elected), new_profile)")], "C01.R6"),
    ("scores only over cast candidates", [(UT, "    scores = {c: Fraction(0) for c in profile.candidates}\n    for ballot in profile.ballots:\n        current_ind = 0", "    scores = {c: Fraction(0) for c in profile.candidates_cast}\n    for ballot in profile.ballots:\n        current_ind = 0")], "C01.R6"),
    ("fallback only when the first group is tied", [(UT, "    if any(len(s) > 1 for s in new_ranking):\n        print(", "    if len(new_ranking[0]) > 1:\n        print(")], "C01.R8"),
    ("droop rounds up", [(STV, "                return int(total_ballot_wt / (self.m + 1) + 1)  # takes floor", "                return -int(-total_ballot_wt // (self.m + 1))")], "C01.R8"),
    ("PV final round at m+1", [(PV, "        if remaining_count == self.m:", "        if remaining_count <= self.m + 1:")], "C01.R7"),
    ("PV veto takes two points", [(PV, "                    new_scores[least_preferred] -= Fraction(1)", "                    new_scores[least_preferred] -= Fraction(2)")], "C01.R7"),
    ("PV vetoes the favourite", [(PV, "                    least_preferred = list(tiebroken_ranking[-1])[0]", "                    least_preferred = list(tiebroken_ranking[0])[0]")], "C01.R7"),
    ("PV eliminates below zero only", [(PV, "                    if new_scores[least_preferred] <= 0:", "                    if new_scores[least_preferred] < 0:")], "C01.R7"),
    ("PV restarts with the same voter", [(PV, "                self.random_order[rand_index + 1 :]\n                + self.random_order[: rand_index + 1]", "                self.random_order[rand_index:]\n                + self.random_order[:rand_index]")], "C01.R7"),
    ("PV condenses ballots", [(PV, "                condense=False,\n                leave_zero_weight_ballots=True,", "                condense=True,\n                leave_zero_weight_ballots=True,")], "C01.R7"),
    ("PV one voter per ballot", [(PV, "            for _ in range(int(b.weight)):", "            for _ in range(1):")], "C01.R7"),
]
BENIGN = [
    ("stv finish test flipped", [(STV, "        if len(elected_cands) == self.m:\n            return True", "        if self.m == len(elected_cands):\n            return True")]),
    ("selector loop as not >=", [(UT, "    while num_elected < m:", "    while not num_elected >= m:")]),
]

# the selector re-arranged as "test first, append only what fits": same iteration table (rules/selmodel.py)
from rules.c10 import _SEL_REGION, _SEL_TEST_FIRST  # noqa: E402
FAULTS += [
    ("test-first selector, a group that exactly fills the seats is sent to the tiebreak", [(UT, _SEL_REGION, _SEL_TEST_FIRST % ("<", ""))], "C01.R5"),
]
BENIGN += [
    ("test-first selector", [(UT, _SEL_REGION, _SEL_TEST_FIRST % ("<=", ""))]),
]

# handlers around package calls (clause of C01.R4)
_TT_FIRST = "            plurality = Plurality(profile, 2, self.tiebreak)\n"
FAULTS += [
    ("first stage of TopTwo falls back to one seat on any ValueError", [(TT, _TT_FIRST, "            try:\n                plurality = Plurality(profile, 2, self.tiebreak)\n            except ValueError:\n                plurality = Plurality(profile, 1, self.tiebreak)\n")], "C01.R4"),
    ("first stage of TopTwo ignores every error", [(TT, _TT_FIRST, "            try:\n                plurality = Plurality(profile, 2, self.tiebreak)\n            except Exception:\n                return profile\n")], "C01.R4"),
]
BENIGN += [
    ("first stage of TopTwo re-raises with context", [(TT, _TT_FIRST, "            try:\n                plurality = Plurality(profile, 2, self.tiebreak)\n            except ValueError as err:\n                raise ValueError(f\"first stage: {err}\") from err\n")]),
    ("first stage of TopTwo guards a lookup of a built-in", [(TT, _TT_FIRST, "            try:\n                _pos = list(profile.candidates).index(\"\")\n            except ValueError:\n                _pos = -1\n            plurality = Plurality(profile, 2, self.tiebreak)\n")]),
]
