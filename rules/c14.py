"""C14 — generators return well-formed profiles of the requested size: structural clauses (DESIGN §5/C14)."""
from __future__ import annotations

import ast
import re

from vk import astx, align, seqeval
from vk.report import shape_rule
from vk.algebra import Normalizer, bool_key, literals, spec_rat, spec_guard, NotClosedForm
from vk.loader import AnalysisError
from rules import c12

EXPLANATION = (
    "Sibling-agreement, draw-table, shape and aggregation rules over every generate_profile* of the "
    "15 generator classes (read from source; the module cannot be imported in this sandbox). Decides: "
    "all 8 apportionment calls are apportion.compute('huntington', <proportions>, <the "
    "number_of_ballots parameter>) zipped with the bloc (or voter-type) list the proportions were "
    "taken from, in the same order; the crossover models' proportions are cohesion*share and "
    "(1-cohesion)*share per (bloc, type); rankings are drawn without replacement with size = the "
    "population (or the requested short length), cumulative points with replacement and size = "
    "num_votes; every sampled position is a singleton frozenset, zero-support candidates are appended "
    "once as a final tied group, each drawn ballot has weight Fraction(1) and ballot_pool_to_profile "
    "counts occurrences; a bloc's pool is filled for exactly its apportioned count; the aggregate is "
    "the fold of + over the per-bloc profiles and by_bloc returns (dict, aggregate). Does NOT decide "
    "totals / well-formedness for all parameters and random streams."
)
EXPLANATION += ' Also decided (prerequisites and later clauses): the unit weight of a drawn ballot is read off the Ballot call itself and is decided in a restructured function too.'
ASSUMPTIONS = ["apportionment.methods.compute('huntington', ...) is Huntington-Hill and returns one count per proportion, in order (trusted)",
               "numpy.random.choice(replace=False) returns distinct members of the population (trusted)"]
TRUSTED = ["apportionment.methods.compute", "numpy.random.choice"]

BG = ("src/votekit/ballot_generator.py",)


def _gen_functions(prog):
    out = []
    for f in prog.iter_functions(BG):
        if f.cls is not None and f.cls.is_subclass_of("BallotGenerator") and f.name.startswith("generate_profile"):
            if not prog.is_abstract(f):
                out.append(f)
    return out


def g1_apportionment(ctx):
    prog = ctx.prog
    init = prog.find_func("BallotGenerator.__init__")
    bl = [n for n in astx.walk_own(init.node) if isinstance(n, ast.Assign) and astx.u(n.targets[0]) == "self.blocs"]
    blocs_ok = len(bl) == 1 and astx.u(bl[0].value) == "list(self.bloc_voter_prop)"
    ctx.check(blocs_ok, init, bl[0] if bl else init.node, "self.blocs = the keys of bloc_voter_prop, in order", "", "self.blocs is not list(self.bloc_voter_prop.keys())")
    n = 0
    shapes = set()
    for f in _gen_functions(prog):
        for c in astx.calls_in(f.node, "compute"):
            q = prog.resolve_expr(f.module, c.func)
            if q != "apportionment.methods.compute":
                continue
            n += 1
            pm = astx.parents(f.node)
            method = c.args[0] if c.args else None
            props = c.args[1] if len(c.args) > 1 else None
            total = c.args[2] if len(c.args) > 2 else None
            nb = f.params[1]
            okm = astx.is_const(method, "huntington")
            okt = astx.is_name(total, nb) and not any(isinstance(x, ast.Name) and x.id == nb and isinstance(x.ctx, ast.Store) for x in astx.walk_own(f.node))
            zp = pm.get(c)
            okz = isinstance(zp, ast.Call) and astx.u(zp.func) == "zip" and len(zp.args) == 2 and zp.args[1] is c and isinstance(pm.get(zp), ast.Call) and astx.u(pm[zp].func) == "dict"
            why = ""
            oka = False
            if okz:
                keys = zp.args[0]
                ks = align.sigs(f, keys, c)
                ps = align.sigs(f, props, c)
                if ks == {("atom", "self.blocs")} and blocs_ok:
                    ks = {("keys", "self.bloc_voter_prop")}
                oka, why = align.aligned(ks, ps)
                if not oka:
                    # both lists reduce to equally long per-bloc blocks over the same bloc order
                    K, P = seqeval.evaluate_any(prog, f, keys, c), seqeval.evaluate_any(prog, f, props, c)
                    canon = {"self.blocs", "list(self.bloc_voter_prop)", "list(self.bloc_voter_prop.keys())", "self.bloc_voter_prop.keys()", "self.bloc_voter_prop"}
                    if K is not None and P is not None and len(K.elems) == len(P.elems) and (K.source == P.source or (blocs_ok and K.source in canon and P.source in canon)):
                        oka, why = True, f"per-bloc blocks of {len(K.elems)} over {K.source} / {P.source}"
                shapes.add("blocs" if ks == {("keys", "self.bloc_voter_prop")} else "types")
            ctx.check(okm and okt and okz and oka, f, c, f"{f.short}: counts = Huntington-Hill of number_of_ballots by the proportions, keyed in the proportions' order",
                      why[:160], f"`{astx.u(c)}`: method ok={okm}, total is the number_of_ballots parameter={okt}, dict(zip(keys, counts))={okz}, keys/proportions aligned={oka} ({why[:120]})")
    if n < 7:
        ctx.vanished("apportionment call sites" + ": " + f"only {n} apportionment calls in generate_profile* (floor 7)")
    # crossover proportions: the (bloc, kind) list and the share list reduced to per-bloc blocks, whatever their spelling
    for qn in ("AlternatingCrossover.generate_profile", "CambridgeSampler.generate_profile"):
        f = prog.find_func(qn)
        pm = astx.parents(f.node)
        calls = [c for c in astx.calls_in(f.node, "compute") if prog.resolve_expr(f.module, c.func) == "apportionment.methods.compute"]
        zp = pm.get(calls[0]) if len(calls) == 1 else None
        if not (isinstance(zp, ast.Call) and astx.u(zp.func) == "zip" and len(zp.args) == 2 and len(calls[0].args) > 1):
            ctx.violated(f, f.node, f"{f.short}: voter-type shares", "no dict(zip(types, compute(..., shares, n))) apportionment found")
            continue
        K = seqeval.evaluate_any(prog, f, zp.args[0], calls[0])
        P = seqeval.evaluate_any(prog, f, calls[0].args[1], calls[0])
        if K is None or P is None:
            ctx.undecided(f, calls[0], f"{f.short}: voter-type shares", f"the construction of `{astx.u(zp.args[0])[:40]}` / `{astx.u(calls[0].args[1])[:40]}` is not a per-bloc block this rule can evaluate")
            continue
        canon = {"self.blocs", "list(self.bloc_voter_prop)", "list(self.bloc_voter_prop.keys())", "self.bloc_voter_prop.keys()", "self.bloc_voter_prop"}
        same_src = (K.source in canon and P.source in canon and blocs_ok) or K.source == P.source
        labels = [astx.const(e.elts[1]) if isinstance(e, ast.Tuple) and len(e.elts) == 2 and astx.is_name(e.elts[0], K.var) and astx.is_const(e.elts[1]) else None for e in K.elems]

        def rn(e, v=P.var, g=P.func):
            t = astx.u(e)
            if t == f"self.bloc_voter_prop[{v}]":
                return "S"
            if t == f"self.cohesion_parameters[{v}][{v}]":
                return "C"
            if isinstance(e, ast.Subscript) and isinstance(e.value, ast.Name) and astx.is_name(e.slice, v):
                dc = astx.unique_def(g.node, e.value.id)
                if isinstance(dc, ast.DictComp) and len(dc.generators) == 1 and isinstance(dc.generators[0].target, ast.Name) and astx.is_name(dc.key, dc.generators[0].target.id):
                    if astx.u(seqeval.subst(dc.value, {dc.generators[0].target.id: ast.Name(id=v, ctx=ast.Load())})) == f"self.cohesion_parameters[{v}][{v}]":
                        return "C"
            return None
        N = Normalizer(P.func.node, inline=True, rename=rn)
        want = {"bloc": spec_rat("C * S"), "cross": spec_rat("(1 - C) * S")}
        got = []
        good = same_src and len(K.elems) == len(P.elems) == 2 and sorted(map(str, labels)) == ["bloc", "cross"]
        for lab, pe in zip(labels, P.elems):
            try:
                r = N.rat(pe)
                got.append(f"{lab}: {r.key()}")
                good = good and lab in want and r.equals(want[lab])
            except NotClosedForm as e:
                got.append(f"{lab}: {e}")
                good = False
        d = f"per {K.source}: kinds {labels}; per {P.source}: shares {got}"
        ctx.check(good, f, calls[0], f"{f.short}: voter-type shares = cohesion*share (bloc) and (1-cohesion)*share (cross), own cohesion, paired with their kind", d,
                  f"voter types and their proportions are built as `{d}`; documented: bloc -> C*S, cross -> (1 - C)*S in the same order")
        st = astx.stmt_of(calls[0], pm)
        T = st.targets[0].id if isinstance(st, ast.Assign) and isinstance(st.targets[0], ast.Name) else None
        uses = sorted({astx.u(n.slice) for n in astx.walk_own(f.node) if isinstance(n, ast.Subscript) and T is not None and astx.is_name(n.value, T)})
        loopvars = {astx.assigned_names(l.target)[-1] for l in astx.walk_own(f.node) if isinstance(l, ast.For) and "self.blocs" in astx.u(l.iter)}
        ctx.check(any(uses == [f"({b}, 'bloc')", f"({b}, 'cross')"] for b in loopvars), f, f.node, f"{f.short}: both voter types of the bloc are consumed by key", str(uses),
                  f"the apportioned counts are read as {uses}")


RANKING_DRAWS = {
    # function -> list of (population text pattern, replace, size text)
    "short_name_PlackettLuce.generate_profile": [("non_zero_cands", False, None), ("zero_cands", False, None)],
    "AlternatingCrossover.generate_profile": [("bloc_cands", False, "len(bloc_cands)"), ("opposing_cands", False, "len(opposing_cands)")],
    "CambridgeSampler.generate_profile": [("list(pref_interval_dict.interval)", False, "len(pref_interval_dict.interval)")],
    "slate_PlackettLuce.generate_profile": [("list(cands)", False, "len(cands)")],
    "slate_BradleyTerry.generate_profile": [("list(cands)", False, "len(cands)")],
    "name_Cumulative.generate_profile": [("non_zero_cands", True, "self.num_votes")],
}


def g2_draw_table(ctx):
    prog = ctx.prog
    for qn, want in RANKING_DRAWS.items():
        f = prog.find_func(qn)
        got = []
        # population / size are compared through single-assignment temporaries (cands = list(interval.keys()); ... choice(cands, len(cands)))
        Ni = Normalizer(f.node, inline=True, int_atoms=lambda a: True)

        def nk(txt):
            try:
                return Ni.key(ast.parse(txt, mode="eval").body)
            except SyntaxError:
                return txt
        for d in align.draws_in(prog, f):
            if d.kind != "numpy.random.choice":
                continue
            rep = d.kw.get("replace")
            got.append((Ni.key(d.pop), (None if rep is None else (astx.const(rep) if astx.is_const(rep) else astx.u(rep))), Ni.key(d.kw.get("size")) if d.kw.get("size") is not None else None, d.call))
        for pop, rep, size in want:
            size = nk(size) if size is not None else None
            hit = [g for g in got if g[0] == nk(pop)]
            if not hit:
                ctx.violated(f, f.node, f"{f.short}: draw over `{pop}`", "draw site not found")
                continue
            g = hit[0]
            kind = "with" if rep else "without"
            ctx.check(g[1] is rep and (size is None or g[2] == size), f, g[3], f"{f.short}: `{pop}` drawn {kind} replacement, size {size}", f"replace={g[1]}, size={g[2]}",
                      f"draw over `{pop}` has replace={g[1]}, size={g[2]}; documented replace={rep}, size={size}")


def _lengths_by_cases(f, pm):
    """The same bookkeeping in any arrangement: the statements of the per-bloc block that bind number_to_sample / number_tied
    before the sampling loop are read through case by case; with BL = self.ballot_length and NZ = len(non_zero_cands) the
    cases must be  NZ < BL: sample NZ, tie BL - NZ   and   otherwise: sample BL, no tie."""
    from vk.loopsym import IterationExec, Unsupported
    from vk.algebra import NotClosedForm, spec_rat
    NAMES = {"number_to_sample", "number_tied"}
    sites = [n for n in astx.walk_own(f.node) if isinstance(n, ast.Assign) and isinstance(n.targets[0], ast.Name) and n.targets[0].id in NAMES]
    if not sites:
        return False
    # the block of the bloc loop that holds them
    blk = None
    for lp in (n for n in astx.walk_own(f.node) if isinstance(n, ast.For)):
        if all(any(x is st for b in lp.body for x in ast.walk(b)) for st in sites) and not any(isinstance(b, ast.For) and any(x is st for x in ast.walk(b) for st in sites) for b in lp.body):
            blk = lp.body
    if blk is None:
        return False
    stmts = []
    for b in blk:
        if isinstance(b, (ast.For, ast.While)):
            break
        if any(x is st for x in ast.walk(b) for st in sites):
            stmts.append(b)
    ex = IterationExec(f.node, stmts, lists=set())
    try:
        outs = ex.run()
    except Unsupported:
        return False
    rn = lambda e: "BL" if astx.u(e) == "self.ballot_length" else ("NZ" if astx.u(e) == "len(non_zero_cands)" else None)
    N = Normalizer(None, inline=False, int_atoms=lambda a: True, rename=rn)
    short = bool_key(spec_guard("NZ < BL", int_atoms=lambda a: True))
    seen = set()
    try:
        for o in outs:
            k = bool_key(N.conj(o.conds)) if o.conds else "true"
            nts, tied = o.state.get("number_to_sample"), o.state.get("number_tied")
            if nts is None or tied is None:
                return False
            if k == short:
                if not (N.rat(nts).equals(spec_rat("NZ")) and N.rat(tied).equals(spec_rat("BL - NZ"))):
                    return False
            elif k == "not " + short or k == bool_key(spec_guard("not (NZ < BL)", int_atoms=lambda a: True)):
                if not (N.rat(nts).equals(spec_rat("BL")) and isinstance(tied, ast.Constant) and tied.value is None):
                    return False
            else:
                return False
            seen.add(k == short)
    except NotClosedForm:
        return False
    return seen == {True, False}


def g6_short_pl_lengths(ctx):
    """short Plackett-Luce: the sampled prefix and the zero-support tie together have exactly ballot_length candidates."""
    prog = ctx.prog
    # short PL: the sample length is min(ballot_length, #supported), the tie takes the rest
    f = prog.find_func("short_name_PlackettLuce.generate_profile")
    pm = astx.parents(f.node)
    N = Normalizer(f.node, inline=False, int_atoms=lambda a: True)
    d1 = {astx.u(st): literals(N.conj(astx.path_condition(f.node, st, pm))) for st, dv in astx.defs_of(f.node, "number_to_sample")}
    d2 = {astx.u(st): literals(N.conj(astx.path_condition(f.node, st, pm))) for st, dv in astx.defs_of(f.node, "number_tied")}
    short = literals(spec_guard("len(non_zero_cands) < number_to_sample", int_atoms=lambda a: True))
    good = d1.get("number_to_sample = self.ballot_length") == set() and d1.get("number_to_sample = len(non_zero_cands)") == short \
        and d2.get("number_tied = number_to_sample - len(non_zero_cands)") == short and d2.get("number_tied = None") == set()
    order = [astx.u(s) for s in astx.walk_own(f.node) if isinstance(s, ast.Assign) and astx.u(s.targets[0]) in ("number_tied", "number_to_sample") and astx.u(s.value) != "None"]
    good = good and order == ["number_to_sample = self.ballot_length", "number_tied = number_to_sample - len(non_zero_cands)", "number_to_sample = len(non_zero_cands)"]
    if not good:
        good = _lengths_by_cases(f, pm)
    # the length that generate_profile reads is the one the caller asked for: the constructor stores its argument as it is
    init = prog.find_func("short_name_PlackettLuce.__init__")
    st = [n for n in astx.walk_own(init.node) if isinstance(n, ast.Assign) and any(astx.u(t) == "self.ballot_length" for t in n.targets)]
    rebound = [n for n in astx.walk_own(init.node) if isinstance(n, ast.Name) and n.id == "ballot_length" and isinstance(n.ctx, (ast.Store, ast.Del))]
    ok_len = "ballot_length" in init.params and len(st) == 1 and astx.is_name(st[0].value, "ballot_length") and not rebound
    ctx.check(ok_len, init, st[0] if st else init.node, "short PL: self.ballot_length is the requested ballot_length, unchanged", "",
              "the stored ballot length is not the constructor's argument as given (" + (f"`{astx.u(st[0])[:70]}`" if st else "no single store") + ")")
    ctx.check_shape(good, f, f.node, "short PL: sample min(ballot_length, #supported) candidates, the remaining positions are one zero-support tie", str(order),
              f"length bookkeeping is {order} under {d1} / {d2}")


@shape_rule
def g3_shape(ctx):
    prog = ctx.prog
    n = 0
    for f in _gen_functions(prog) + [prog.find_func("BallotGenerator.ballot_pool_to_profile"), prog.find_func("name_BradleyTerry._BT_mcmc")]:
        pm = astx.parents(f.node)
        for c in astx.calls_in(f.node, "Ballot"):
            kw = {k.arg: k.value for k in c.keywords}
            if "ranking" not in kw and "scores" not in kw:
                continue  # placeholder
            n += 1
            # weight
            cls, k = c12.weight_class(prog, f, c)
            if f.name == "ballot_pool_to_profile":
                okw = k in ("count", "Fraction(count)")
            elif f.name == "_BT_mcmc":
                okw = cls in ("DEFAULT", "UNIT")
            elif f.name == "generate_profile_MCMC":
                okw = cls in ("DEFAULT", "UNIT")  # the seed ballot of the chain
            else:
                okw = cls == "UNIT"
            # (the weight of a constructed ballot is read off the call itself, not off the arrangement of the statements
            # around it: this clause keeps its verdict in a restructured function)
            shape_depth, ctx._shape = ctx._shape, 0
            try:
                ctx.check(okw, f, c, f"{f.short}: one drawn ballot = weight 1 (or its count)", k, f"generated ballot has weight `{k}` ({cls}): "
                          "not the unit weight of one drawn ballot (a count that may be 0 gives a zero-weight ballot, any other value miscounts the voters)")
            finally:
                ctx._shape = shape_depth
            if "ranking" not in kw:
                continue
            r = kw["ranking"]
            rv = astx.strip_wrappers(r)
            base = rv
            if isinstance(rv, ast.Name):
                defs = [dv for st, dv in astx.defs_of(f.node, rv.id) if dv is not None]
                base = defs[0] if defs else rv
            # every sampled position is a singleton
            singles = True
            comps = [x for x in ast.walk(base) if isinstance(x, (ast.ListComp, ast.GeneratorExp))]
            src = ""
            for comp in comps:
                e = comp.elt
                if not (isinstance(e, ast.Call) and astx.u(e.func) == "frozenset" and len(e.args) == 1 and isinstance(e.args[0], (ast.Set, ast.List)) and len(e.args[0].elts) == 1):
                    singles = False
                src = astx.u(comp)[:60]
            if not comps:
                # ranking[i] = frozenset({x}) fills
                fills = [x for x in astx.walk_own(f.node) if isinstance(x, ast.Assign) and isinstance(x.targets[0], ast.Subscript) and isinstance(rv, ast.Name)
                         and astx.is_name(x.targets[0].value, rv.id)]
                singles = bool(fills) and all(isinstance(x.value, ast.Call) and astx.u(x.value.func) == "frozenset" and isinstance(x.value.args[0], ast.Set)
                                              and len(x.value.args[0].elts) == 1 for x in fills)
                src = "index fills"
                if f.name == "_BT_mcmc":
                    singles = True  # positions come from the seed ballot, checked for ties at entry
                    src = "seed ballot positions (tie-checked)"
            ctx.check(singles, f, c, f"{f.short}: every sampled position is a singleton set", src, f"ranking positions are built as `{src}`, not frozenset({{cand}})")
            # zero-support tail: appended once, last, only when there are any
            if isinstance(rv, ast.Name):
                for x in astx.calls_in(f.node):
                    if isinstance(x.func, ast.Attribute) and astx.is_name(x.func.value, rv.id) and x.func.attr in ("insert", "extend", "sort", "reverse", "remove"):
                        ctx.violated(f, x, f"{f.short}: ranking list is re-arranged by .{x.func.attr}()", f"`{astx.u(x)[:60]}`: positions must be sampled order + one final zero-support group")
                apps = [x for x in astx.calls_in(f.node, "append") if astx.is_name(x.func.value, rv.id)]
                for a in apps:
                    arg = astx.u(a.args[0])
                    if "zero" in arg or "tied" in arg:
                        lits = literals(Normalizer(f.node, inline=False).conj(astx.path_condition(f.node, a, pm)))
                        okz = re.fullmatch(r"frozenset\(\w+\)", arg) is not None and len(lits) == 1 and a.lineno < c.lineno
                        ctx.check(okz, f, a, f"{f.short}: zero-support candidates appended as one final tied group, only when present", f"{arg} under {sorted(lits)}",
                                  f"zero-support tail is `{arg}` under {sorted(lits)}")
    # ... and they do reach the ballots: a generator that computes the zero-support candidates of a bloc uses them for more
    # than a test (a ballot of a complete-ranking model lists every candidate)
    for f in _gen_functions(prog):
        for zn in ("zero_cands", "tied_candidates"):
            ds = [st for st, dv in astx.defs_of(f.node, zn) if dv is not None]
            if not ds:
                continue
            pmz = astx.parents(f.node)
            reads = [x for x in astx.walk_own(f.node) if isinstance(x, ast.Name) and x.id == zn and isinstance(x.ctx, ast.Load)]

            def in_test(x):
                cur = x
                while cur in pmz:
                    par = pmz[cur]
                    if isinstance(par, (ast.If, ast.IfExp, ast.While)) and par.test is cur:
                        return True
                    if isinstance(par, ast.stmt):
                        return False
                    cur = par
                return False
            used = [x for x in reads if not in_test(x)]
            ctx.check(bool(used), f, ds[0], f"{f.short}: the zero-support candidates `{zn}` reach the generated ballots", "",
                      f"`{zn}` is computed but only tested, never placed on a ballot: generated rankings omit the candidates without support")
    if n < 9:
        ctx.vanished("generated ballot constructions" + ": " + f"only {n} found")
    # ballot_pool_to_profile counts occurrences
    f = prog.find_func("BallotGenerator.ballot_pool_to_profile")
    from vk import accum
    accs = accum.accumulations(f.node)
    pmf = astx.parents(f.node)
    good = False
    if len(accs) == 1:
        a = accs[0]
        lp = astx.enclosing(a.node, pmf, ast.For)
        kd = astx.unique_def(f.node, astx.u(a.key)) if isinstance(a.key, ast.Name) else a.key
        good = a.inc_key == "1" and a.first == "1" and not a.conditional and lp is not None and astx.u(lp.iter) in f.params \
            and kd is not None and astx.u(kd) == f"tuple({astx.u(lp.target)})"
        # ... and the count of each key becomes the ballot's weight
        outl = [l for l in astx.walk_own(f.node) if isinstance(l, ast.For) and astx.u(l.iter) == f"{a.dict_name}.items()"]
        good = good and len(outl) == 1
    cnt = [a.node for a in accs]
    ctx.check(good, f, cnt[0] if cnt else f.node, "ballot_pool_to_profile: weight = number of occurrences of the ranking in the pool", "", "occurrence counting changed")
    pc = [c for c in astx.calls_in(f.node, "PreferenceProfile")]
    ctx.check(len(pc) == 1 and {k.arg: astx.u(k.value) for k in pc[0].keywords} == {"ballots": "tuple(ballot_list)", "candidates": f.params[1]}, f, pc[0] if pc else f.node,
              "the profile carries the declared candidates", "", "ballot_pool_to_profile profile construction changed")
    # pool length = apportioned count
    for f in _gen_functions(prog):
        pm = astx.parents(f.node)
        for st, dv in astx.defs_of(f.node, "ballot_pool"):
            if isinstance(dv, ast.BinOp) and isinstance(dv.op, ast.Mult) and isinstance(dv.left, ast.List):
                size = dv.right
                fills = [x for x in astx.walk_own(f.node) if isinstance(x, ast.Assign) and isinstance(x.targets[0], ast.Subscript) and astx.u(x.targets[0].value) == "ballot_pool"]
                good = False
                d = ""
                if len(fills) == 1:
                    lp = astx.enclosing(fills[0], pm, ast.For)
                    idx = astx.u(fills[0].targets[0].slice)
                    it = astx.u(lp.iter) if lp is not None else ""
                    sz = astx.u(size)
                    d = f"pool [Ballot()] * {sz}; filled at [{idx}] in `for ... in {it}`"
                    if it == f"range({sz})" and astx.u(lp.target) == idx:
                        good = True
                    elif it.startswith("enumerate(") and astx.u(lp.target.elts[0]) == idx:
                        src = it[len("enumerate("):-1]
                        sds = [dv for st_, dv in astx.defs_of(f.node, src) if dv is not None]
                        # types / indices sampled with size = the same count (every definition)
                        good = bool(sds) and all(any(isinstance(c_, ast.Call) and any(astx.u(v) == sz for v in list(c_.args) + [k.value for k in c_.keywords])
                                                     for c_ in ast.walk(sd)) for sd in sds)
                    szd = astx.unique_def(f.node, sz) if re.fullmatch(r"\w+", sz) else size
                    good = good and szd is not None and ("ballots_per_" in astx.u(szd) or "voters" in astx.u(szd))
                ctx.check(good, f, st, f"{f.short}: the bloc's pool has its apportioned size and every slot is filled", d, f"pool handling is `{d}`")


def g4_aggregation(ctx):
    prog = ctx.prog
    n = 0
    for f in _gen_functions(prog):
        if "by_bloc" not in f.params:
            continue
        folds = [x for x in astx.walk_own(f.node) if isinstance(x, ast.AugAssign) and isinstance(x.op, ast.Add) and isinstance(x.target, ast.Name) and x.target.id == "pp"]
        if not folds:
            # single-population models return ballot_pool_to_profile directly; a model that files one profile per bloc
            # (D[bloc] = profile) has to add them up
            per_bloc = [x for x in astx.walk_own(f.node) if isinstance(x, ast.Assign) and isinstance(x.targets[0], ast.Subscript) and astx.u(x.targets[0].slice) == "bloc"
                        and isinstance(x.targets[0].value, ast.Name) and any(astx.u(r.value).startswith(f"({x.targets[0].value.id},") for r in astx.walk_own(f.node) if isinstance(r, ast.Return) and r.value is not None)]
            if per_bloc:
                n += 1
                D = per_bloc[0].targets[0].value.id
                reads = [x for x in astx.walk_own(f.node) if isinstance(x, ast.Call) and isinstance(x.func, ast.Attribute) and x.func.attr in ("values", "items") and astx.is_name(x.func.value, D)]
                pmg = astx.parents(f.node)
                # (a loop over the profiles that does nothing with them does not combine them)
                reads = [x for x in reads if not (isinstance(pmg.get(x), ast.For) and pmg[x].iter is x and all(isinstance(b, ast.Pass) for b in pmg[x].body))]
                if reads:
                    # the per-bloc profiles are read, but not by the += loop this clause knows (sum(...), reduce(...)): cannot decide
                    ctx.undecided(f, reads[0], f"{f.short}: aggregate = fold of + over the per-bloc profiles; by_bloc returns (dict, aggregate)",
                                  f"`{astx.u(astx.stmt_of(reads[0], astx.parents(f.node)))[:70]}` combines the per-bloc profiles in a way this clause does not model")
                else:
                    ctx.violated(f, per_bloc[0], f"{f.short}: aggregate = fold of + over the per-bloc profiles; by_bloc returns (dict, aggregate)",
                                 "the per-bloc profiles are filed but never read again: the aggregate profile does not contain the generated ballots")
            continue
        n += 1
        pm = astx.parents(f.node)
        fo = folds[0]
        lp = astx.enclosing(fo, pm, ast.For)
        by = None
        good = lp is not None and astx.u(fo.value) == astx.u(lp.target) and astx.u(lp.iter).endswith(".values()")
        by = astx.u(lp.iter)[: -len(".values()")] if good else None
        init = [dv for st, dv in astx.defs_of(f.node, "pp") if dv is not None and st.lineno < fo.lineno and pm.get(st) is f.node]
        good = good and bool(init) and astx.u(init[-1]) in ("PreferenceProfile()", astx.A("PreferenceProfile(ballots=tuple())"))
        rets = [r for r in astx.walk_own(f.node) if isinstance(r, ast.Return)]
        N = Normalizer(f.node, inline=False)
        shapes = {}
        for r in rets:
            lits = literals(N.conj(astx.path_condition(f.node, r, pm)))
            shapes[astx.u(r.value)] = lits
        good = good and shapes.get(f"({by}, pp)") == {"truthy(by_bloc)"} and shapes.get("pp") == {"not truthy(by_bloc)"}
        # each bloc's profile is stored under its bloc
        stores = [x for x in astx.walk_own(f.node) if isinstance(x, ast.Assign) and isinstance(x.targets[0], ast.Subscript) and astx.u(x.targets[0].value) == by]
        good = good and len(stores) == 1 and astx.u(stores[0].targets[0].slice) == "bloc"
        ctx.check(good, f, fo, f"{f.short}: aggregate = fold of + over the per-bloc profiles; by_bloc returns (dict, aggregate)", str({k: sorted(v) for k, v in shapes.items()}),
                  f"aggregation / return shapes are {shapes}")
    if n < 7:
        ctx.vanished("bloc-aggregating generators" + ": " + f"only {n} found")
    add = prog.find_func("PreferenceProfile.__add__")
    ctx.consult(add)


def _carried_mutable_state(f, lp):
    """Locals defined outside loop `lp` that are mutated inside it (state carried from one bloc to the next)."""
    inside_defs = set()
    for n in ast.walk(ast.Module(body=lp.body, type_ignores=[])):
        if isinstance(n, ast.Name) and isinstance(n.ctx, ast.Store):
            inside_defs.add(n.id)
    out = []
    mut = {"update", "append", "extend", "add", "insert", "remove", "pop", "clear", "discard", "setdefault"}
    for n in ast.walk(ast.Module(body=lp.body, type_ignores=[])):
        recv = None
        if isinstance(n, ast.Call) and isinstance(n.func, ast.Attribute) and n.func.attr in mut and isinstance(n.func.value, ast.Name):
            recv = n.func.value.id
        elif isinstance(n, ast.AugAssign) and isinstance(n.target, ast.Name):
            recv = n.target.id
        elif isinstance(n, ast.Assign) and isinstance(n.targets[0], ast.Subscript) and isinstance(n.targets[0].value, ast.Name):
            recv = n.targets[0].value.id
            key = astx.u(n.targets[0].slice)
            if key in astx.assigned_names(lp.target):
                recv = None  # result table keyed by the bloc itself
        if recv is not None and recv not in inside_defs and recv not in ("self",):
            out.append((n, recv))
    # a pure output accumulator -- only ever appended/extended, never read inside the loop -- carries nothing between blocs
    body = ast.Module(body=lp.body, type_ignores=[])
    pmb = astx.parents(body)
    keep = []
    for n, recv in out:
        reads = [x for x in ast.walk(body) if isinstance(x, ast.Name) and x.id == recv and isinstance(x.ctx, ast.Load)]
        only_acc = all(isinstance(pmb.get(x), ast.Attribute) and pmb[x].attr in ("append", "extend") and isinstance(pmb.get(pmb[x]), ast.Call) and pmb[pmb[x]].func is pmb[x]
                       and isinstance(pmb.get(pmb[pmb[x]]), ast.Expr) for x in reads)
        if not only_acc:
            keep.append((n, recv))
    return keep


def g5_no_cross_bloc_state(ctx):
    prog = ctx.prog
    n = 0
    for f in _gen_functions(prog):
        for lp in (x for x in astx.walk_own(f.node) if isinstance(x, ast.For)):
            if not re.search(r"self\.blocs|bloc_voter_prop", astx.u(lp.iter)):
                continue
            if astx.enclosing(lp, astx.parents(f.node), ast.For) is not None:
                continue  # only the outer per-bloc loop
            n += 1
            carried = _carried_mutable_state(f, lp)
            # values re-bound inside the loop but read before being bound in the same iteration are
            # carried over from the previous bloc (e.g. a per-bloc length hoisted out as a "loop invariant")
            from vk import da as _da
            fake = ast.parse("def _it():\n    pass\n").body[0]
            fake.args.args = [ast.arg(arg=a) for a in astx.assigned_names(lp.target)]
            fake.body = lp.body
            assigned = {x.id for x in ast.walk(ast.Module(body=lp.body, type_ignores=[])) if isinstance(x, ast.Name) and isinstance(x.ctx, ast.Store)}
            for fd in _da.DA(fake).run():
                if fd.name in assigned and not any(nm == fd.name for _, nm in carried):
                    carried.append((fd.node, fd.name))
            if not carried:
                ctx.ok(f, lp, f"{f.short}: nothing mutable is carried from one bloc's iteration into the next", f"for {astx.u(lp.target)} in {astx.u(lp.iter)}")
            for node, name in carried:
                ctx.violated(f, node, f"{f.short}: `{name}` is created outside the per-bloc loop and mutated inside it",
                             f"`{astx.u(node)[:70]}`: state of earlier blocs (e.g. their zero-support candidates or pool) leaks into later blocs' ballots")
    if n < 7:
        ctx.vanished(f"per-bloc loops: only {n} found")
    # a bloc loop's variable read after the loop is the LAST bloc, whatever bloc the surrounding code is about
    nleak = 0
    for f in _gen_functions(prog) + [g for g in prog.iter_functions(BG) if not isinstance(g.node, ast.Lambda) and g.cls is not None and g.name.startswith("_")]:
        seen_f = set()
        pmf = astx.parents(f.node)
        for lp in (x for x in astx.walk_own(f.node) if isinstance(x, ast.For) and re.search(r"self\.blocs|bloc_voter_prop", astx.u(x.iter))):
            nleak += 1
            for v in astx.assigned_names(lp.target):
                later = [x for x in astx.walk_own(f.node) if isinstance(x, ast.Name) and x.id == v and isinstance(x.ctx, ast.Load) and x.lineno > getattr(lp, "end_lineno", lp.lineno)
                         and not any(y is x for y in ast.walk(lp))]
                for x in later:
                    # re-bound in between (another loop / assignment / comprehension of its own)?
                    rd = astx.reaching_defs(f.node, v, x)
                    own = astx.enclosing(x, pmf, (ast.ListComp, ast.SetComp, ast.DictComp, ast.GeneratorExp))
                    bound_by_comp = own is not None and any(v in astx.assigned_names(g.target) for g in own.generators)
                    if bound_by_comp or (rd and not any(st is lp for st, _ in rd)):
                        continue
                    if (f.qualname, v, x.lineno) in seen_f:
                        continue
                    seen_f.add((f.qualname, v, x.lineno))
                    ctx.violated(f, x, f"{f.short}: loop variable `{v}` of `for {astx.u(lp.target)} in {astx.u(lp.iter)}` is read after the loop",
                                 f"`{astx.u(astx.stmt_of(x, pmf))[:80]}`: after the loop `{v}` is the last bloc; the ballots of every bloc are then built from the last bloc's data")
    from vk import wiring
    wiring.check_swapped(ctx, ("src/votekit/ballot_generator.py", "src/votekit/pref_interval.py"), "generators")
    # zero-support candidates survive interval combination (shared with C15.R2)
    from rules import c15
    sub = type(ctx)(prog, ctx.prop, ctx.tier)
    c15.r2_combine(sub)
    for o in sub.obs:
        o.rule = "C14.G5"
        ctx.obs.append(o)


RULES = [
    ("C14.G1", g1_apportionment, 11, "8 apportionment calls agree: Huntington-Hill of number_of_ballots, keys aligned with proportions; crossover shares"),
    ("C14.G2", g2_draw_table, 8, "draw table: rankings without replacement / full size, cumulative with replacement / num_votes; short-PL lengths"),
    ("C14.G6", g6_short_pl_lengths, 2, "short PL: sample min(ballot_length, #supported) candidates, the rest of the length is one zero-support tie"),
    ("C14.G3", g3_shape, 20, "ballot shape: singleton positions, zero-support tail, unit weights / counts, pool size = apportioned count"),
    ("C14.G5", g5_no_cross_bloc_state, 10, "no mutable state is carried across blocs; zero-support candidates survive interval combination"),
    ("C14.G4", g4_aggregation, 7, "aggregate = fold of + over per-bloc profiles; by_bloc returns (dict, aggregate)"),
]

BGP = "src/votekit/ballot_generator.py"
_AC_CTX = "class AlternatingCrossover(BallotGenerator):"
_AC_INIT = "        super().__init__(cohesion_parameters=cohesion_parameters, **data)\n"
_AC_PROPS_LOOP = """        voter_props = []
        for b in self.blocs:
            share = self.bloc_voter_prop[b]
            voter_props.append(cohesion_parameters[b] * share)
            voter_props.append((1 - cohesion_parameters[b]) * share)

"""


def _ac_types_in_constructor(order):
    """AlternatingCrossover: voter types prepared once by the constructor, shares built by a loop of appends."""
    return [
        (BGP, (_AC_CTX, _AC_INIT, "\n"), _AC_INIT.rstrip("\n") + f"\n        self.voter_types = [(b, t) for b in self.blocs for t in {order!r}]"),
        (BGP, (_AC_CTX, "        voter_types = [(b, type) for b in self.blocs", "        ballots_per_type = dict("), _AC_PROPS_LOOP),
        (BGP, (_AC_CTX, "                voter_types,\n", "                apportion.compute("), "                self.voter_types,\n"),
    ]


FAULTS = [
    ("name-BT never adds the per-bloc profiles up", [(BGP, "        # combine the profiles\n        pp = PreferenceProfile()\n        for profile in pp_by_bloc.values():\n            pp += profile\n\n        if by_bloc:\n            return (pp_by_bloc, pp)\n\n        # else return the combined profiles\n        else:\n            return pp\n\n    def _BT_mcmc(", "        # combine the profiles\n        pp = PreferenceProfile()\n        for profile in pp_by_bloc.values():\n            pass\n\n        if by_bloc:\n            return (pp_by_bloc, pp)\n\n        # else return the combined profiles\n        else:\n            return pp\n\n    def _BT_mcmc(")], "C14.G4"),
    ("bloc loop variable read after its loop", [(BGP, "        # dictionary to store preference profiles by bloc\n        pp_by_bloc = {b: PreferenceProfile() for b in self.blocs}\n\n        for bloc in self.blocs:\n            # number of voters in this bloc\n            num_ballots = ballots_per_block[bloc]\n            ballot_pool = [Ballot()] * num_ballots\n            non_zero_cands",
                                                "        # dictionary to store preference profiles by bloc\n        pp_by_bloc = {b: PreferenceProfile() for b in self.blocs}\n        for b0 in self.blocs:\n            pass\n        leaked = self.bloc_voter_prop[b0]\n\n        for bloc in self.blocs:\n            # number of voters in this bloc\n            num_ballots = ballots_per_block[bloc]\n            ballot_pool = [Ballot()] * num_ballots\n            non_zero_cands")], "C14.G5"),
    ("AC voter types fixed by the constructor in the other order than the shares (seeded C16-r2-1)", _ac_types_in_constructor(["cross", "bloc"]), "C14.G1"),
    ("apportion by jefferson", [(BGP, "                apportion.compute(\"huntington\", bloc_props, number_of_ballots),\n            )\n        )\n\n        # dictionary to store preference profiles by bloc", "                apportion.compute(\"jefferson\", bloc_props, number_of_ballots),\n            )\n        )\n\n        # dictionary to store preference profiles by bloc")], "C14.G1"),
    ("apportion N-1", [(BGP, "                apportion.compute(\"huntington\", voter_props, number_of_ballots),\n            )\n        )\n\n        pp_by_bloc = {b: PreferenceProfile() for b in self.blocs}\n\n        for i, bloc in enumerate(self.blocs):\n            ballot_pool = []", "                apportion.compute(\"huntington\", voter_props, number_of_ballots - 1),\n            )\n        )\n\n        pp_by_bloc = {b: PreferenceProfile() for b in self.blocs}\n\n        for i, bloc in enumerate(self.blocs):\n            ballot_pool = []")], "C14.G1"),
    ("props sorted", [(BGP, "        bloc_props = list(self.bloc_voter_prop.values())\n        ballots_per_block = dict(\n            zip(\n                self.blocs,\n                apportion.compute(\"huntington\", bloc_props, number_of_ballots),\n            )\n        )\n\n        pref_profile_by_bloc = {}\n\n        for i, bloc in enumerate(self.blocs):\n            # number of voters in this bloc\n            num_ballots = ballots_per_block[bloc]\n            ballot_pool = [Ballot()] * num_ballots\n            pref_intervals = self.pref_intervals_by_bloc[bloc]\n            zero_cands = set(\n                it.chain(*[pi.zero_cands for pi in pref_intervals.values()])\n            )\n\n            slate_to_non_zero_candidates",
                      "        bloc_props = sorted(self.bloc_voter_prop.values())\n        ballots_per_block = dict(\n            zip(\n                self.blocs,\n                apportion.compute(\"huntington\", bloc_props, number_of_ballots),\n            )\n        )\n\n        pref_profile_by_bloc = {}\n\n        for i, bloc in enumerate(self.blocs):\n            # number of voters in this bloc\n            num_ballots = ballots_per_block[bloc]\n            ballot_pool = [Ballot()] * num_ballots\n            pref_intervals = self.pref_intervals_by_bloc[bloc]\n            zero_cands = set(\n                it.chain(*[pi.zero_cands for pi in pref_intervals.values()])\n            )\n\n            slate_to_non_zero_candidates")], "C14.G1"),
    ("crossover share uses cohesion for cross", [(BGP, "            else (1 - cohesion_parameters[b]) * self.bloc_voter_prop[b]\n            for b, t in voter_types\n        ]\n\n        ballots_per_type = dict(\n            zip(\n                voter_types,\n                apportion.compute(\"huntington\", voter_props, number_of_ballots),\n            )\n        )\n\n        pp_by_bloc = {b: PreferenceProfile() for b in self.blocs}\n\n        for i, bloc in enumerate(self.blocs):\n            ballot_pool = []",
                                                  "            else cohesion_parameters[b] * self.bloc_voter_prop[b]\n            for b, t in voter_types\n        ]\n\n        ballots_per_type = dict(\n            zip(\n                voter_types,\n                apportion.compute(\"huntington\", voter_props, number_of_ballots),\n            )\n        )\n\n        pp_by_bloc = {b: PreferenceProfile() for b in self.blocs}\n\n        for i, bloc in enumerate(self.blocs):\n            ballot_pool = []")], "C14.G1"),
    ("PL with replacement", [(BGP, "                        p=pref_interval_values,\n                        replace=False,", "                        p=pref_interval_values,\n                        replace=True,")], "C14.G2"),
    ("cumulative without replacement", [(BGP, "                        p=cand_support_vec,\n                        replace=True,", "                        p=cand_support_vec,\n                        replace=False,")], "C14.G2"),
    ("cumulative draws num_votes+1", [(BGP, "                        non_zero_cands,\n                        self.num_votes,", "                        non_zero_cands,\n                        self.num_votes + 1,")], "C14.G2"),
    ("slate PL partial ordering", [(BGP, "                    cand_ordering = np.random.choice(\n                        a=list(cands), size=len(cands), p=distribution, replace=False\n                    )\n                    cand_ordering_by_bloc[b] = list(cand_ordering)\n\n                ranking = [frozenset({-1})] * len(bt)\n                for i, b in enumerate(bt):\n                    # append the current first candidate, then remove them from the ordering\n                    ranking[i] = frozenset({cand_ordering_by_bloc[b][0]})\n                    cand_ordering_by_bloc[b].pop(0)\n\n                if len(zero_cands) > 0:\n                    ranking.append(frozenset(zero_cands))\n                ballot_pool[j] = Ballot(ranking=tuple(ranking), weight=Fraction(1, 1))\n\n            pp = PreferenceProfile(ballots=tuple(ballot_pool))\n            pp = pp.condense_ballots()\n            pref_profile_by_bloc[bloc] = pp\n\n        # combine the profiles\n        pp = PreferenceProfile()\n        for profile in pref_profile_by_bloc.values():\n            pp += profile\n\n        if by_bloc:\n            return (pref_profile_by_bloc, pp)\n\n        # else return the combined profiles\n        else:\n            return pp\n\n\nclass slate_BradleyTerry",
                                     "                    cand_ordering = np.random.choice(\n                        a=list(cands), size=len(cands) - 0, p=distribution, replace=True\n                    )\n                    cand_ordering_by_bloc[b] = list(cand_ordering)\n\n                ranking = [frozenset({-1})] * len(bt)\n                for i, b in enumerate(bt):\n                    # append the current first candidate, then remove them from the ordering\n                    ranking[i] = frozenset({cand_ordering_by_bloc[b][0]})\n                    cand_ordering_by_bloc[b].pop(0)\n\n                if len(zero_cands) > 0:\n                    ranking.append(frozenset(zero_cands))\n                ballot_pool[j] = Ballot(ranking=tuple(ranking), weight=Fraction(1, 1))\n\n            pp = PreferenceProfile(ballots=tuple(ballot_pool))\n            pp = pp.condense_ballots()\n            pref_profile_by_bloc[bloc] = pp\n\n        # combine the profiles\n        pp = PreferenceProfile()\n        for profile in pref_profile_by_bloc.values():\n            pp += profile\n\n        if by_bloc:\n            return (pref_profile_by_bloc, pp)\n\n        # else return the combined profiles\n        else:\n            return pp\n\n\nclass slate_BradleyTerry")], "C14.G2"),
    ("ballot weight 2", [(BGP, "                ballot_pool[i] = Ballot(ranking=tuple(ranking), weight=Fraction(1, 1))\n\n            # create PP for this bloc", "                ballot_pool[i] = Ballot(ranking=tuple(ranking), weight=Fraction(2, 1))\n\n            # create PP for this bloc")], "C14.G3"),
    ("zero cands as singletons first", [(BGP, "                if zero_cands:\n                    ranking.append(frozenset(zero_cands))", "                if zero_cands:\n                    ranking.insert(0, frozenset(zero_cands))")], None),
    ("pool counts off by one", [(BGP, "                ranking_counts[tuple_rank] + 1 if tuple_rank in ranking_counts else 1", "                ranking_counts[tuple_rank] + 1 if tuple_rank in ranking_counts else 2")], "C14.G3"),
    ("PL pool one short", [(BGP, "            for i in range(num_ballots):\n                # generates ranking based on probability distribution of non candidate support", "            for i in range(num_ballots - 1):\n                # generates ranking based on probability distribution of non candidate support")], "C14.G3"),
    ("aggregate misses last bloc", [(BGP, "        # combine the profiles\n        pp = PreferenceProfile(ballots=tuple())\n        for profile in pp_by_bloc.values():\n            pp += profile", "        # combine the profiles\n        pp = PreferenceProfile(ballots=tuple())\n        for profile in list(pp_by_bloc.values())[:-1]:\n            pp += profile")], "C14.G4"),
    ("by_bloc returns aggregate first", [(BGP, "        if by_bloc:\n            return (pp_by_bloc, pp)\n\n        # else return the combined profiles\n        else:\n            return pp\n\n\nclass name_PlackettLuce", "        if by_bloc:\n            return (pp, pp_by_bloc)\n\n        # else return the combined profiles\n        else:\n            return pp\n\n\nclass name_PlackettLuce")], "C14.G4"),
]
PI = "src/votekit/pref_interval.py"
FAULTS += [
    ("short PL length capped by the supported candidates", [(BGP, "        super().__init__(**data)\n        self.ballot_length = ballot_length\n", "        super().__init__(**data)\n        self.ballot_length = min(ballot_length, len(self.candidates))\n")], "C14.G6"),
    ("short PL tie length computed after the sample length was cut", [(BGP, "            if len(non_zero_cands) < number_to_sample:\n                number_tied = number_to_sample - len(non_zero_cands)\n                number_to_sample = len(non_zero_cands)\n", "            if len(non_zero_cands) < number_to_sample:\n                number_to_sample = len(non_zero_cands)\n                number_tied = number_to_sample - len(non_zero_cands)\n")], "C14.G6"),
    ("per-bloc lengths hoisted", [(BGP, "            # if there aren't enough non-zero supported candidates,\n            # include 0 support as ties\n            number_to_sample = self.ballot_length\n            number_tied = None\n", ""), (BGP, "        for bloc in self.blocs:\n            # number of voters in this bloc\n            num_ballots = ballots_per_block[bloc]\n            ballot_pool = [Ballot()] * num_ballots\n            non_zero_cands", "        number_to_sample = self.ballot_length\n        number_tied = None\n        for bloc in self.blocs:\n            # number of voters in this bloc\n            num_ballots = ballots_per_block[bloc]\n            ballot_pool = [Ballot()] * num_ballots\n            non_zero_cands")], "C14.G5"),
    ("mcmc helper arguments swapped", [(BGP, "        self, num_ballots, pref_interval, seed_ballot, zero_cands={}, verbose=False\n", "        self, num_ballots, pref_interval, seed_ballot, verbose=False, zero_cands={}\n"), (BGP, "                seed_ballot,\n                zero_cands=zero_cands,\n                verbose=verbose,\n            )", "                seed_ballot,\n                zero_cands,\n                verbose,\n            )")], "C14.G5"),
    ("zero cands accumulated across blocs", [(BGP, "        pref_profile_by_bloc = {}\n\n        for i, bloc in enumerate(self.blocs):\n            # number of voters in this bloc\n            num_ballots = ballots_per_block[bloc]\n            ballot_pool = [Ballot()] * num_ballots\n            pref_intervals = self.pref_intervals_by_bloc[bloc]\n            zero_cands = set(\n                it.chain(*[pi.zero_cands for pi in pref_intervals.values()])\n            )\n\n            slate_to_non_zero_candidates",
                                              "        pref_profile_by_bloc = {}\n        zero_cands: set = set()\n\n        for i, bloc in enumerate(self.blocs):\n            # number of voters in this bloc\n            num_ballots = ballots_per_block[bloc]\n            ballot_pool = [Ballot()] * num_ballots\n            pref_intervals = self.pref_intervals_by_bloc[bloc]\n            zero_cands.update(\n                it.chain(*[pi.zero_cands for pi in pref_intervals.values()])\n            )\n\n            slate_to_non_zero_candidates")], "C14.G5"),
    ("pool shared by blocs", [(BGP, "        for i, bloc in enumerate(self.blocs):\n            ballot_pool = []\n            num_bloc_ballots", "        ballot_pool = []\n        for i, bloc in enumerate(self.blocs):\n            num_bloc_ballots")], "C14.G5"),
    ("combine skips zero sets of zero-share slates", [(PI, "    zero_cands = frozenset.union(*[pi.zero_cands for pi in intervals])", "    zero_cands = frozenset.union(*[pi.zero_cands for pi, prop in zip(intervals, proportions) if prop > 0] or [frozenset()])")], "C14.G5"),
]
BENIGN = [
    ("short PL lengths as a two-way branch", [(BGP, "            number_to_sample = self.ballot_length\n            number_tied = None\n\n            if len(non_zero_cands) < number_to_sample:\n                number_tied = number_to_sample - len(non_zero_cands)\n                number_to_sample = len(non_zero_cands)\n", "            if len(non_zero_cands) < self.ballot_length:\n                number_to_sample = len(non_zero_cands)\n                number_tied = self.ballot_length - len(non_zero_cands)\n            else:\n                number_to_sample = self.ballot_length\n                number_tied = None\n")]),
    ("AC voter types fixed by the constructor, shares by a loop of appends, same order", _ac_types_in_constructor(["bloc", "cross"])),
]
