#!/usr/bin/env python3
"""Confirm seeded changes produced by a sub-agent and file them under /verif/seeded/.

usage: tools/confirm_seeded.py <Cxx> [<out_dir>]   (default out_dir /tmp/out_<Cxx>, worktree /tmp/wt_<Cxx>)

For every change_i.diff with a demo_i.py:
  1. bring the scratch worktree to /repo's HEAD, clean;
  2. demo on the clean worktree must exit 0;
  3. apply the diff; changed files must compile; the repository tests that exercise the touched
     modules must give the same result as without the change; demo must exit 1;
  4. undo; run every /verif quick check against /repo with the diff applied (tools/eval_patch.py);
  5. write seeded/<Cxx>-<i>/{patch.diff, demo.py, meta.json}.
"""
import glob
import json
import os
import re
import shutil
import subprocess
import sys

VERIF = os.path.dirname(os.path.dirname(os.path.abspath(__file__)))
PY = "/venv/bin/python"


def sh(cmd, timeout=1800, **kw):
    return subprocess.run(cmd, shell=True, text=True, capture_output=True, timeout=timeout, **kw)


def tests_for(files):
    out = set()
    for f in files:
        base = os.path.basename(f)[:-3]
        for t in glob.glob("/repo/tests/**/test_*.py", recursive=True):
            tb = os.path.basename(t)[5:-3]
            if tb == base or (base in ("utils", "models") and "elections" in t and "test_election_model" in t) or (base == "utils" and tb == "utils") \
                    or (base == "ballot_generator" and tb.startswith("bg_")) or (base == "pref_profile" and tb == "pref_profile") \
                    or (base == "cvr_loaders" and tb == "loaders") or (base == "transfers" and tb in ("transfers", "stv")) \
                    or (base == "pairwise_comparison_graph" and tb in ("pwc_graph", "dominating_sets", "condo_borda")) \
                    or (base == "rating" and tb in ("rating", "limited", "cumulative", "general_rating")) or (base == "approval" and tb in ("approval", "bloc_plurality")):
                out.add(os.path.relpath(t, "/repo"))
    return sorted(out)


def run_tests(wt, tests):
    if not tests:
        return "no matching test files"
    r = sh(f"cd {wt} && PYTHONPATH={wt}/src:{VERIF}/tools/otstub {PY} -m pytest -q -p no:cacheprovider -x -k 'not large_sample' {' '.join(tests)} 2>&1 | tail -1")
    return re.sub(r" in [0-9.]+s.*$", "", r.stdout.strip())


def main():
    pid = sys.argv[1]
    rnd = ""
    if "--round" in sys.argv:
        rnd = sys.argv[sys.argv.index("--round") + 1]
        del sys.argv[sys.argv.index("--round"):sys.argv.index("--round") + 2]
    sfx = rnd if rnd not in ("", "1") else ""
    out_dir = sys.argv[2] if len(sys.argv) > 2 else f"/tmp/out{sfx}_{pid}"
    wt = f"/tmp/wt{sfx}_{pid}"
    tag = f"-r{rnd}" if sfx else ""
    head = sh("git -C /repo rev-parse HEAD").stdout.strip()
    sh(f"git -C {wt} checkout -q -- . && git -C {wt} checkout -q --detach {head}")
    summary = open(os.path.join(out_dir, "SUMMARY.md")).read() if os.path.exists(os.path.join(out_dir, "SUMMARY.md")) else ""
    results = []
    for diff in sorted(glob.glob(os.path.join(out_dir, "change_*.diff"))):
        i = re.search(r"change_(\d+)\.diff", diff).group(1)
        demo = os.path.join(out_dir, f"demo_{i}.py")
        if not os.path.exists(demo):
            continue
        rec = {"id": f"{pid}{tag}-{i}", "property": pid}
        sh(f"git -C {wt} checkout -q -- .")
        r0 = sh(f"cd {out_dir} && {PY} demo_{i}.py", timeout=900)
        rec["demo_clean_rc"] = r0.returncode
        ap = sh(f"git -C {wt} apply --whitespace=nowarn {diff}")
        if ap.returncode != 0:
            ap = sh(f"git -C {wt} apply --3way --whitespace=nowarn {diff}")
        rec["applies"] = ap.returncode == 0
        if ap.returncode != 0:
            rec["error"] = ap.stderr[:300]
            results.append(rec)
            continue
        files = sh(f"git -C {wt} diff --name-only").stdout.split()
        comp = sh(f"cd {wt} && {PY} -m py_compile {' '.join(files)}")
        rec["compiles"] = comp.returncode == 0
        tests = tests_for(files)
        rec["tests_with_change"] = run_tests(wt, tests)
        r1 = sh(f"cd {out_dir} && {PY} demo_{i}.py", timeout=900)
        rec["demo_changed_rc"] = r1.returncode
        rec["demo_output"] = (r1.stdout + r1.stderr)[-400:]
        sh(f"git -C {wt} checkout -q -- .")
        rec["tests_without_change"] = run_tests(wt, tests)
        rec["tests"] = tests
        ev = sh(f"cd {VERIF} && {PY} tools/eval_patch.py {diff}")
        try:
            rec["checks"] = json.loads(ev.stdout[ev.stdout.index("{"):])
        except Exception:
            rec["checks"] = {"error": (ev.stdout + ev.stderr)[-300:]}
        confirmed = rec["demo_clean_rc"] == 0 and rec["demo_changed_rc"] == 1 and rec["compiles"] and rec["tests_with_change"] == rec["tests_without_change"]
        rec["confirmed"] = confirmed
        m = re.search(rf"\*\*change_{i}\*\*(.*?)(?=\n- \*\*change_|\Z)", summary, re.S)
        rec["agent_summary"] = (m.group(1).strip()[:1500] if m else "")
        if confirmed:
            d = os.path.join(VERIF, "seeded", rec["id"])
            os.makedirs(d, exist_ok=True)
            shutil.copy(diff, os.path.join(d, "patch.diff"))
            src = open(demo).read().replace(f'"{wt}/src"', '__import__("os").environ.get("VK_SRC", "/repo/src")').replace(
                f"'{wt}/src'", '__import__("os").environ.get("VK_SRC", "/repo/src")')
            with open(os.path.join(d, "demo.py"), "w") as fh:
                fh.write("# Demonstration for seeded change %s: exits 1 with patch.diff applied to the tree named by VK_SRC (default /repo/src), 0 without.\n" % rec["id"] + src)
            meta = {
                "id": rec["id"], "breaks_property": pid,
                "what_it_needs_to_manifest": rec["agent_summary"],
                "files_changed": files,
                "confirmation": {
                    "worktree": wt + " at /repo HEAD " + head[:7],
                    "demo_exit_code_clean_tree": rec["demo_clean_rc"], "demo_exit_code_with_change": rec["demo_changed_rc"],
                    "compiles": rec["compiles"], "repository_tests_run": tests,
                    "tests_result_with_change": rec["tests_with_change"], "tests_result_without_change": rec["tests_without_change"],
                    "note": "the pinned baseline command imports the installed wheel, so it cannot see the change; the listed test files were run against the worktree's src",
                },
                "checks_that_fire": rec["checks"].get("rules", {}), "violating_properties": rec["checks"].get("violating_properties", []),
                "detected_by_target_property_check": pid in rec["checks"].get("violating_properties", []),
            }
            with open(os.path.join(d, "meta.json"), "w") as fh:
                json.dump(meta, fh, indent=1)
        results.append(rec)
    for r in results:
        print(json.dumps({k: r[k] for k in r if k not in ("agent_summary", "demo_output")}, indent=1)[:1500])
    return 0


if __name__ == "__main__":
    sys.exit(main())
