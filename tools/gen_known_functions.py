#!/usr/bin/env python3
"""Regenerate known_functions.json: the functions (module path -> qualified names) that exist in the package the
rules were written against.  Run on the pinned tree.  vk/inline.py analyses any function NOT listed here as part of
its callers (an extracted helper), see there."""
import ast, json, os, sys
HERE = os.path.dirname(os.path.dirname(os.path.abspath(__file__)))
sys.path.insert(0, HERE)
from vk.inline import qualnames
repo = os.environ.get("VK_REPO", "/repo")
out = {}
root = os.path.join(repo, "src", "votekit")
for dp, dn, fns in os.walk(root):
    for fn in sorted(fns):
        if fn.endswith(".py"):
            full = os.path.join(dp, fn)
            rel = os.path.relpath(full, repo)
            out[rel] = sorted(qualnames(ast.parse(open(full, encoding="utf-8").read())))
json.dump(out, open(os.path.join(HERE, "known_functions.json"), "w"), indent=1, sort_keys=True)
print(sum(len(v) for v in out.values()), "functions in", len(out), "modules")
