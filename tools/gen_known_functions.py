#!/usr/bin/env python3
"""Regenerate known_functions.json: the functions (module path -> qualified name -> statement skeleton) of the
package the rules were written against.  Run on the pinned tree.
 * vk/inline.py analyses any function NOT listed here as part of its callers (an extracted helper);
 * vk/report.py reports a shape rule's VIOLATED verdict about a listed function whose skeleton has changed as UNDECIDED."""
import ast, json, os, sys
HERE = os.path.dirname(os.path.dirname(os.path.abspath(__file__)))
sys.path.insert(0, HERE)
sys.dont_write_bytecode = True
from vk.loader import Program
from vk.inline import qualnames
from vk import skeleton
prog = Program()
out = {}
for m in prog.modules.values():
    out[m.path] = {q: skeleton.skeleton(fn) for q, (fn, _cls) in sorted(qualnames(m.tree).items())}
json.dump(out, open(os.path.join(HERE, "known_functions.json"), "w"), indent=1, sort_keys=True)
print(sum(len(v) for v in out.values()), "functions in", len(out), "modules")
