#!/usr/bin/env python3
"""Confirm behaviour-preserving refactorings produced by a sub-agent and measure false alarms.

usage: tools/confirm_benign.py <Cxx> [--round 5]     (reads /tmp/out<R>_<Cxx>, uses the scratch worktree /tmp/wt<R>_<Cxx>; R = 3 by default)

For every change_i.diff with an equiv_i.py:
  1. scratch worktree at /repo's HEAD, clean; `equiv_i.py --record` (expected results from the unmodified code);
  2. apply the diff; files compile; `equiv_i.py` must exit 0 (same observable behaviour); the repository tests of the
     touched modules give the same result as without the change;
  3. run every /verif quick check against the scratch worktree (VK_REPO=<worktree>; /repo is never touched, evidence
     and replays of such runs are written outside /verif);
  4. write benign/<Cxx>-b<i>/{patch.diff, equiv.py, meta.json}.
A VIOLATION line for a confirmed refactoring is a false alarm of the named rule; exit 2 means the rule could not decide."""
import glob, json, os, re, shutil, subprocess, sys
VERIF = os.path.dirname(os.path.dirname(os.path.abspath(__file__)))
sys.path.insert(0, os.path.join(VERIF, "tools"))
from confirm_seeded import tests_for, PY  # noqa
ALL = ["C01", "C02", "C03", "C04", "C05", "C06", "C08", "C09", "C10", "C11", "C12", "C13", "C14", "C15", "C16", "C17", "C18", "C20"]


def sh(cmd, timeout=1800, **kw):
    return subprocess.run(cmd, shell=True, text=True, capture_output=True, timeout=timeout, **kw)


def run_tests(wt, tests):
    if not tests:
        return "no matching test files"
    r = sh(f"cd {wt} && PYTHONHASHSEED=0 PYTHONPATH={wt}/src:{VERIF}/tools/otstub {PY} -m pytest -q -p no:cacheprovider -x -k 'not large_sample' {' '.join(tests)} 2>&1 | tail -1")
    return re.sub(r" in [0-9.]+s.*$", "", r.stdout.strip())


def run_checks(wt):
    out = {}
    procs = {p: subprocess.Popen(f"cd {VERIF} && VK_REPO={wt} ./check {p} quick", shell=True, text=True, stdout=subprocess.PIPE, stderr=subprocess.STDOUT) for p in ALL}
    for p, pr in procs.items():
        txt = pr.communicate()[0]
        lines = [l.strip()[:400] for l in txt.splitlines() if l.startswith("  violation:") or l.startswith("ANALYSIS-ERROR") or l.startswith("VIOLATION")]
        out[p] = {"exit": pr.returncode, "lines": lines}
    return out


def main():
    pid = sys.argv[1]
    rnd = sys.argv[sys.argv.index("--round") + 1] if "--round" in sys.argv else "3"   # 3: first benign round (ids -b<i>), 5: second (ids -c<i>)
    tagc = {"3": "b", "5": "c", "6": "d", "8": "e", "0": "f", "1": "g"}.get(rnd, "x")
    out_dir, wt = f"/tmp/out{rnd}_{pid}", f"/tmp/wt{rnd}_{pid}"
    head = sh("git -C /repo rev-parse HEAD").stdout.strip()
    sh(f"git -C {wt} checkout -q -- . && git -C {wt} checkout -q --detach {head}")
    summary = open(os.path.join(out_dir, "SUMMARY.md")).read() if os.path.exists(os.path.join(out_dir, "SUMMARY.md")) else ""
    for diff in sorted(glob.glob(os.path.join(out_dir, "change_*.diff"))):
        i = re.search(r"change_(\d+)\.diff", diff).group(1)
        eq = os.path.join(out_dir, f"equiv_{i}.py")
        if not os.path.exists(eq):
            continue
        rec = {"id": f"{pid}-{tagc}{i}", "property": pid}
        sh(f"git -C {wt} checkout -q -- .")
        r0 = sh(f"cd {out_dir} && {PY} equiv_{i}.py --record", timeout=900)
        rec["record_rc"] = r0.returncode
        ap = sh(f"git -C {wt} apply --whitespace=nowarn {diff}")
        rec["applies"] = ap.returncode == 0
        if ap.returncode != 0:
            rec["error"] = ap.stderr[:300]
            print(json.dumps(rec))
            continue
        files = [f for f in sh(f"git -C {wt} diff --name-only").stdout.split() if f.endswith(".py")]
        rec["compiles"] = sh(f"cd {wt} && {PY} -m py_compile {' '.join(files)}").returncode == 0
        r1 = sh(f"cd {out_dir} && {PY} equiv_{i}.py", timeout=900)
        rec["equiv_rc"] = r1.returncode
        rec["equiv_tail"] = (r1.stdout + r1.stderr)[-300:]
        tests = tests_for(files)
        rec["tests_with_change"] = run_tests(wt, tests)
        rec["checks"] = run_checks(wt)
        sh(f"git -C {wt} checkout -q -- .")
        rec["tests_without_change"] = run_tests(wt, tests)
        rec["confirmed"] = rec["record_rc"] == 0 and rec["equiv_rc"] == 0 and rec["compiles"] and rec["tests_with_change"] == rec["tests_without_change"]
        m = re.search(rf"\*\*change_{i}\*\*(.*?)(?=\n- \*\*change_|\Z)", summary, re.S)
        rec["agent_summary"] = (m.group(1).strip()[:1200] if m else "")
        false_alarms = {p: r["lines"] for p, r in rec["checks"].items() if r["exit"] == 1}
        undecided = {p: r["lines"] for p, r in rec["checks"].items() if r["exit"] == 2}
        if rec["confirmed"]:
            d = os.path.join(VERIF, "benign", rec["id"])
            os.makedirs(d, exist_ok=True)
            shutil.copy(diff, os.path.join(d, "patch.diff"))
            src = open(eq).read().replace(f'"{wt}/src"', '__import__("os").environ.get("VK_SRC", "/repo/src")').replace(f"'{wt}/src'", '__import__("os").environ.get("VK_SRC", "/repo/src")')
            with open(os.path.join(d, "equiv.py"), "w") as fh:
                fh.write("# Differential test for behaviour-preserving refactoring %s (--record on the unmodified tree, then compare).\n" % rec["id"] + src)
            meta = {"id": rec["id"], "written_against_property": pid, "what_was_restructured": rec["agent_summary"], "files_changed": files,
                    "confirmation": {"worktree": wt + " at /repo HEAD " + head[:7], "equiv_exit_code_with_change": rec["equiv_rc"], "compiles": rec["compiles"],
                                     "repository_tests_run": tests, "tests_result_with_change": rec["tests_with_change"], "tests_result_without_change": rec["tests_without_change"]},
                    "checks_exit_codes": {p: r["exit"] for p, r in rec["checks"].items()},
                    "false_alarms": false_alarms, "undecided": undecided}
            with open(os.path.join(d, "meta.json"), "w") as fh:
                json.dump(meta, fh, indent=1)
        print(rec["id"], "confirmed" if rec["confirmed"] else f"UNCONFIRMED record={rec['record_rc']} equiv={rec['equiv_rc']} tests={rec['tests_with_change']}|{rec['tests_without_change']} {rec['equiv_tail'][-150:]!r}",
              "| false alarms:", {p: [l for l in v if l.startswith("violation:")][:3] for p, v in false_alarms.items()} or "none", "| undecided:", {p: v[:2] for p, v in undecided.items()} or "none")
    return 0


if __name__ == "__main__":
    sys.exit(main())
