#!/usr/bin/env python3
"""Regenerate MANIFEST.json from the rule sets present under rules/ (run from /verif)."""
import importlib
import json
import os
import subprocess
import sys

HERE = os.path.dirname(os.path.dirname(os.path.abspath(__file__)))
sys.path.insert(0, HERE)
sys.dont_write_bytecode = True

ALL = ["C01", "C02", "C03", "C04", "C05", "C06", "C08", "C09", "C10", "C11", "C12", "C13",
       "C14", "C15", "C16", "C17", "C18", "C20"]

TECH = {
    "C01": "static analysis: predicate-refined definite-assignment dataflow, structured path counting (must-pass-through), wiring and raise census over the AST",
    "C02": "static analysis: rational-function / comparison normal forms of quota, threshold and transfer formulas; who-may-write; orientation and wiring rules",
    "C03": "static analysis: numeric-kind abstract interpretation (exactness), order-preserving pipeline rule, weight-provenance classification of every Ballot(...) on the STV path",
    "C04": "static analysis: numeric-kind abstract interpretation, allocation formula normal form, orientation summary of score_dict_to_ranking, prefix/suffix typing of the selector",
    "C05": "static analysis: for-all loop shape, boundary polarity normal forms, Optional-vs-zero rule, constructor-chain parameter table",
    "C06": "static analysis: numeric-kind, margin formula/orientation normal forms, tier-order consumers sibling agreement, CondoBorda wiring",
    "C08": "static analysis: order-taint of candidate collections, positional-pick singleton domain, ordering-primitive census",
    "C09": "static analysis: effect analysis with object locality, guard dominance (store_states), replay-independence reads, slice/loop-bound normal forms",
    "C10": "static analysis: RNG census and call-graph reachability per concrete class, guard dominance of tiebreak calls, def-use flow into the recorded tiebreaks",
    "C11": "static analysis: decorator/validator declaration rules, who-may-call object.__setattr__, eq/hash contract rule, derived-field formulas",
    "C12": "static analysis: filter-polarity normal forms, order-preserving pipeline rule, weight provenance, numeric-kind",
    "C13": "static analysis: argument-to-parameter binding of the composite rules against a wiring table; sibling agreement of construction sites",
    "C14": "static analysis: sibling agreement of the apportionment call sites, draw table (replace/size), ballot-shape and aggregation rules",
    "C15": "static analysis: algebraic normal forms of the closed-form probability formulas",
    "C16": "static analysis: reaching-definition alignment of population and probabilities at every weighted draw; Metropolis acceptance form; sort direction",
    "C17": "static analysis: alignment at the weighted draws of the randomised rules; mixing-threshold and squares-law normal forms; permutation primitive",
    "C18": "static analysis: column-index-space typestate in load_csv; guard/exception table; split-index sibling agreement; writer field table",
    "C20": "static analysis: one path-condition obligation per documented precondition (raise type, guard normal form, for-all loop, ordering before results)",
}

NOTE = ("Decides the structural clauses named in evidence.coverage.explanation, each a necessary condition of the property; "
        "does not decide the behaviour for all inputs. Trusted: CPython's ast parser; the documented semantics of the "
        "primitives listed in the evidence file; closed-world precondition P0 (checked by C09.P0 on every run).")


def main():
    checks = []
    for p in ALL:
        if not os.path.exists(os.path.join(HERE, "rules", p.lower() + ".py")):
            continue
        mod = importlib.import_module(f"rules.{p.lower()}")
        checks.append({
            "property_id": p,
            "quick_cmd": f"./check {p} quick",
            "thorough_cmd": f"./check {p} thorough",
            "evidence_file": f"/verif/evidence/{p}.json",
            "replay_cmd_template": "./check --replay {path}",
            "engine": "vk-static",
            "level_claimed": {
                "category": "other",
                "text": "Static decision of the property's structural part: " + mod.EXPLANATION,
                "design_ref": f"DESIGN.md section 5/{p}",
            },
            "level_note": NOTE,
            "technique": TECH[p],
        })
    claimed = {c["property_id"] for c in checks}
    na = [
        {"property_id": "C07", "reason": "axiom over all profiles x coalitions x random outcomes; its only structural prerequisites are C02/C03/C12 rules; an independent oracle needs executions (DESIGN.md section 5/C07)"},
        {"property_id": "C19", "reason": "metric axioms over float norms and the value of a recursive graph construction; the only shape-level clause would be a brittle description of one function (DESIGN.md section 5/C19)"},
    ]
    for p in ALL:
        if p not in claimed:
            na.append({"property_id": p, "reason": "rule set not built yet in this tree; planned in DESIGN.md section 5/" + p})
    try:
        commits = subprocess.check_output(["git", "-C", "/repo", "log", "--format=%H %s", "3419ed4..HEAD"], text=True).strip().splitlines()
    except Exception:
        commits = []
    man = {
        "version": 1,
        "setup_cmd": "./check --selfcheck",
        "hooks": {
            "guard": "MGGG_VOTEKIT_VERIF",
            "enable": "none: static analysis reads /repo/src/votekit directly; no hook or instrumentation exists in the source",
            "baseline_off_cmd": "cd /repo && /venv/bin/python -m pytest -ra -q -p no:cacheprovider --timeout=900 --continue-on-collection-errors",
            "source_commits": [c.split()[0] for c in commits],
            "add_only": True,
        },
        "engines": [{"name": "vk-static", "path": "/verif/vk", "serves_properties": sorted(claimed),
                     "kind_free_text": "purpose-built static analyser over Python ast: program model, call graph, structured path conditions, "
                                       "definite-assignment dataflow, effect analysis, numeric-kind abstract interpretation, algebraic normal forms"}],
        "checks": checks,
        "notes": "source_commits are unguarded 'fix:' commits (genuine defects, see known_findings.json), not hooks. "
                 "Exit 2 + ANALYSIS-ERROR means the checker could not decide (anchor vanished / unknown shape); it is never a pass.",
        "not_applicable": na,
    }
    with open(os.path.join(HERE, "MANIFEST.json"), "w") as fh:
        json.dump(man, fh, indent=1)
    print(f"{len(checks)} checks, {len(na)} not applicable")


if __name__ == "__main__":
    main()
