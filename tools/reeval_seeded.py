#!/usr/bin/env python3
"""Re-run every /verif quick check against each kept seeded change (applied to /repo, undone straight afterwards)
and refresh the 'checks that fire' part of its meta.json.  usage: tools/reeval_seeded.py [<id regex>]"""
import json, os, re, subprocess, sys
VERIF = os.path.dirname(os.path.dirname(os.path.abspath(__file__)))
args = [a for a in sys.argv[1:] if not a.startswith("--")]
pat = re.compile(args[0] if args else ".")
si, sn = (int(x) for x in next((a.split("=")[1] for a in sys.argv[1:] if a.startswith("--shard=")), "0/1").split("/"))   # --shard=i/n with VK_EVAL_TREE=<own worktree>
missed = []
todo = [d for d in sorted(os.listdir(os.path.join(VERIF, "seeded"))) if pat.search(d) and os.path.exists(os.path.join(VERIF, "seeded", d, "meta.json"))]
for k, d in enumerate(todo):
    mp = os.path.join(VERIF, "seeded", d, "meta.json")
    if k % sn != si:
        continue
    ev = subprocess.run(f"cd {VERIF} && /venv/bin/python tools/eval_patch.py seeded/{d}/patch.diff", shell=True, text=True, capture_output=True)
    try:
        res = json.loads(ev.stdout[ev.stdout.index("{"):])
    except Exception:
        print(d, "eval failed", (ev.stdout + ev.stderr)[-300:])
        continue
    meta = json.load(open(mp))
    meta["checks_that_fire"] = res.get("rules", {})
    meta["violating_properties"] = res.get("violating_properties", [])
    meta["detected_by_target_property_check"] = meta["breaks_property"] in meta["violating_properties"]
    json.dump(meta, open(mp, "w"), indent=1)
    tgt = meta["breaks_property"]
    print(d, "target" if meta["detected_by_target_property_check"] else "NOT-TARGET", meta["violating_properties"], sorted(k for k in meta["checks_that_fire"] if k.startswith(tgt) or k.startswith("UNDECIDED:" + tgt)))
    if not meta["detected_by_target_property_check"]:
        missed.append(d)
print("not detected by target:", missed)
