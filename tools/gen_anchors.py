#!/usr/bin/env python3
"""Regenerate anchors.json: for every RULE, the local-variable names of the consulted functions that
the rule's own text (and the helpers it calls) mentions literally.  Run on a tree where every check
passes (the pinned tree).  At check time a VIOLATED verdict of that rule about a function in which
such a local no longer occurs is downgraded to UNDECIDED (a renamed local cannot be told from a
broken one); verdicts of rules that do not mention the name are unaffected."""
import ast, importlib, json, os, re, sys
HERE = os.path.dirname(os.path.dirname(os.path.abspath(__file__)))
sys.path.insert(0, HERE)
sys.dont_write_bytecode = True
from vk.loader import Program
from vk import report, astx, da

ALL = ["C01", "C02", "C03", "C04", "C05", "C06", "C08", "C09", "C10", "C11", "C12", "C13", "C14", "C15", "C16", "C17", "C18", "C20"]
IDENT = re.compile(r"(?<![\w.])[A-Za-z_][A-Za-z0-9_]*")
_mods = {}


def module_info(name):
    """{function name: (string tokens, local calls, [(module, function)] cross-module calls)}"""
    if name in _mods:
        return _mods[name]
    tree = ast.parse(open(os.path.join(HERE, "rules", name + ".py")).read())
    info = {}
    fnames = {n.name for n in tree.body if isinstance(n, ast.FunctionDef)}
    # module-level tables (e.g. RANKING_DRAWS) that a rule consults: their string constants name locals too
    tables = {}
    for n in tree.body:
        if isinstance(n, ast.Assign) and len(n.targets) == 1 and isinstance(n.targets[0], ast.Name) and n.targets[0].id not in ("FAULTS", "BENIGN", "RULES", "EXPLANATION", "ASSUMPTIONS", "TRUSTED"):
            tables[n.targets[0].id] = {t for c in ast.walk(n.value) if isinstance(c, ast.Constant) and isinstance(c.value, str) for t in IDENT.findall(c.value)}
    for fn in (n for n in tree.body if isinstance(n, ast.FunctionDef)):
        toks, calls, xcalls = set(), set(), set()
        # message texts (the construct / detail arguments of ctx.check, ctx.violated, ctx.ok, ctx.undecided, ctx.note,
        # ctx.vanished and the label of precondition obligations) describe, they do not look anything up
        msg = set()
        for c in ast.walk(fn):
            if isinstance(c, ast.Call) and isinstance(c.func, ast.Attribute) and isinstance(c.func.value, ast.Name) and c.func.value.id == "ctx" \
                    and c.func.attr in ("check", "violated", "ok", "undecided", "note", "vanished"):
                first = {"check": 3, "violated": 2, "ok": 2, "undecided": 2, "note": 0, "vanished": 0}[c.func.attr]
                for a in c.args[first:]:
                    msg |= {id(x) for x in ast.walk(a)}
            if isinstance(c, ast.Call) and isinstance(c.func, ast.Name) and c.func.id in ("obligation", "called_before") and len(c.args) > 2:
                msg |= {id(x) for x in ast.walk(c.args[2])}
        for n in ast.walk(fn):
            if isinstance(n, ast.Constant) and isinstance(n.value, str) and id(n) not in msg:
                toks |= set(IDENT.findall(n.value))
            if isinstance(n, ast.Name) and n.id in tables:
                toks |= tables[n.id]
            if isinstance(n, ast.Name) and n.id in fnames and n.id != fn.name:
                calls.add(n.id)
            if isinstance(n, ast.Attribute) and isinstance(n.value, ast.Name) and re.fullmatch(r"c\d\d", n.value.id):
                xcalls.add((n.value.id, n.attr))
        info[fn.name] = (toks, calls, xcalls)
    _mods[name] = info
    return info


def closure_tokens(mod, fname, seen=None):
    seen = seen if seen is not None else set()
    if (mod, fname) in seen:
        return set()
    seen.add((mod, fname))
    info = module_info(mod)
    if fname not in info:
        return set()
    toks, calls, xcalls = info[fname]
    out = set(toks)
    for c in calls:
        out |= closure_tokens(mod, c, seen)
    for m, c in xcalls:
        out |= closure_tokens(m, c, seen)
    return out


def main():
    prog = Program()
    out = {}
    for p in ALL:
        mod = importlib.import_module(f"rules.{p.lower()}")
        res = report.run_property(p, mod, prog, "quick")
        per_rule = {}
        for rule_id, fn, _floor, _desc in mod.RULES:
            toks = closure_tokens(p.lower(), fn.__name__)
            funcs = sorted({o.function for o in res.ctx.obs if o.rule == rule_id and o.function != "<package>"})
            per = {}
            for qn in funcs:
                f = prog.functions.get(qn)
                if f is None or isinstance(f.node, ast.Lambda):
                    continue
                loc = da.local_names(f.node) - set(f.params)
                for n in astx.walk_own(f.node):
                    if isinstance(n, ast.For):
                        loc -= set(astx.assigned_names(n.target))
                hit = sorted(x for x in loc & toks if len(x) > 1)
                if hit:
                    per[qn] = hit
            if per:
                per_rule[rule_id] = per
        out[p] = per_rule
    with open(os.path.join(HERE, "anchors.json"), "w") as fh:
        json.dump(out, fh, indent=1, sort_keys=True)
    print({p: sum(len(v) for r in out[p].values() for v in r.values()) for p in out})


if __name__ == "__main__":
    main()
