#!/usr/bin/env python3
"""Regenerate anchors.json: for every property, the local-variable names of the consulted functions
that the rule texts mention literally. Run on a tree where every check passes (the pinned tree).
At check time a verdict about a function whose listed local no longer occurs in it is downgraded
to UNDECIDED (a renamed local cannot be told from a broken one)."""
import ast, importlib, json, os, re, sys
HERE = os.path.dirname(os.path.dirname(os.path.abspath(__file__)))
sys.path.insert(0, HERE)
sys.dont_write_bytecode = True
from vk.loader import Program
from vk import report, astx, da

ALL = ["C01", "C02", "C03", "C04", "C05", "C06", "C08", "C09", "C10", "C11", "C12", "C13", "C14", "C15", "C16", "C17", "C18", "C20"]


def tokens_of(path, seen=None):
    seen = seen or set()
    if path in seen:
        return set()
    seen.add(path)
    src = open(path).read()
    tree = ast.parse(src)
    toks = set()
    # only the rule code, not the FAULTS / BENIGN tables (they quote source text wholesale)
    cut = min([n.lineno for n in tree.body if isinstance(n, (ast.Assign, ast.AugAssign)) and any(getattr(t, "id", "") in ("FAULTS", "BENIGN")
               for t in (n.targets if isinstance(n, ast.Assign) else [n.target]))] or [10 ** 9])
    for n in ast.walk(tree):
        if isinstance(n, ast.Constant) and isinstance(n.value, str) and getattr(n, "lineno", 0) < cut:
            # identifiers that stand on their own in the string (attribute names after a dot are not locals)
            toks |= set(re.findall(r"(?<![\w.])[A-Za-z_][A-Za-z0-9_]*", n.value))
        if isinstance(n, ast.ImportFrom) and n.module == "rules":
            for a in n.names:
                toks |= tokens_of(os.path.join(HERE, "rules", a.name + ".py"), seen)
    return toks


def main():
    prog = Program()
    out = {}
    for p in ALL:
        mod = importlib.import_module(f"rules.{p.lower()}")
        res = report.run_property(p, mod, prog, "quick")
        toks = tokens_of(os.path.join(HERE, "rules", p.lower() + ".py"))
        per = {}
        for qn in sorted(res.ctx.functions_consulted):
            f = prog.functions.get(qn)
            if f is None or isinstance(f.node, ast.Lambda):
                continue
            loc = da.local_names(f.node) - set(f.params)
            # loop / comprehension variables are derived by the rules from the code, never quoted: not anchors
            for n in astx.walk_own(f.node):
                if isinstance(n, ast.For):
                    loc -= set(astx.assigned_names(n.target))
            hit = sorted(x for x in loc & toks if len(x) > 1)
            if hit:
                per[qn] = hit
        out[p] = per
    with open(os.path.join(HERE, "anchors.json"), "w") as fh:
        json.dump(out, fh, indent=1, sort_keys=True)
    print({p: sum(len(v) for v in out[p].values()) for p in out})


if __name__ == "__main__":
    main()
