"""Stub for the POT package (not installed in this sandbox); only earth_mover_dist needs it."""
