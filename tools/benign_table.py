#!/usr/bin/env python3
"""Print the markdown table of behaviour-preserving refactorings (benign/*/meta.json) for DESIGN.md section 11."""
import glob, json, os, re
HERE = os.path.dirname(os.path.dirname(os.path.abspath(__file__)))
print("| refactoring | file(s) | what was restructured | result of the 18 checks |")
print("|---|---|---|---|")
for m in sorted(glob.glob(os.path.join(HERE, "benign", "*", "meta.json"))):
    d = json.load(open(m))
    files = ", ".join(os.path.basename(f) for f in d["files_changed"])
    what = re.sub(r"\s+", " ", d.get("what_was_restructured") or "").strip(" -*:")
    what = re.sub(r"^\(?kind \(?\d\)?[^,.:]*[,.:]\s*", "", what)[:150].replace("|", "/")
    if d["false_alarms"]:
        res = "**VIOLATION** " + ", ".join(sorted(d["false_alarms"]))
    elif d["undecided"]:
        rules = sorted({r for v in d["undecided"].values() for l in v for r in re.findall(r"rule=(C\d\d\.\w+)", l)})
        res = "all pass except exit 2 (cannot decide): " + ", ".join(rules)
    else:
        res = "all 18 pass"
    print(f"| {d['id']} | {files} | {what} | {res} |")
