#!/usr/bin/env python3
"""Behaviour-preserving whole-package rewrites for false-alarm testing.
usage: tools/benign_transform.py <kind> <dest>     kind in: flipcmp, noteq, kwargs, ifelse
  flipcmp : a < b -> b > a (all four order operators, single comparisons)
  noteq   : a == b -> not a != b ; a >= b -> not a < b   (and the duals)
  kwargs  : positional arguments of calls to package-level functions become keyword arguments
  ifelse  : `if c: A else: B` (both non-empty, no elif) -> `if not c: B else: A`
"""
import ast, os, shutil, sys
sys.path.insert(0, os.path.dirname(os.path.dirname(os.path.abspath(__file__))))
from vk.loader import Program

kind, dest = sys.argv[1], sys.argv[2]
shutil.rmtree(dest, ignore_errors=True)
shutil.copytree("/repo/src", os.path.join(dest, "src"))
prog = Program()
FLIP = {ast.Lt: ast.Gt, ast.Gt: ast.Lt, ast.LtE: ast.GtE, ast.GtE: ast.LtE}
NEG = {ast.Eq: ast.NotEq, ast.NotEq: ast.Eq, ast.Lt: ast.GtE, ast.GtE: ast.Lt, ast.Gt: ast.LtE, ast.LtE: ast.Gt}


class T(ast.NodeTransformer):
    def __init__(self, module):
        self.m = module

    def visit_Compare(self, node):
        self.generic_visit(node)
        if len(node.ops) != 1:
            return node
        op = type(node.ops[0])
        if kind == "flipcmp" and op in FLIP:
            return ast.copy_location(ast.Compare(left=node.comparators[0], ops=[FLIP[op]()], comparators=[node.left]), node)
        if kind == "noteq" and op in NEG:
            inner = ast.Compare(left=node.left, ops=[NEG[op]()], comparators=node.comparators)
            return ast.copy_location(ast.UnaryOp(op=ast.Not(), operand=inner), node)
        return node

    def visit_Call(self, node):
        self.generic_visit(node)
        if kind != "kwargs" or any(isinstance(a, ast.Starred) for a in node.args):
            return node
        q = prog.resolve_expr(self.m, node.func)
        f = prog.functions.get(q) if q else None
        if f is None or f.cls is not None or isinstance(f.node, ast.Lambda):
            return node
        a = f.node.args
        if a.posonlyargs or a.vararg:
            return node
        names = [x.arg for x in a.args]
        if len(node.args) > len(names):
            return node
        kws = [ast.keyword(arg=names[i], value=v) for i, v in enumerate(node.args)]
        return ast.copy_location(ast.Call(func=node.func, args=[], keywords=kws + node.keywords), node)

    def visit_If(self, node):
        self.generic_visit(node)
        if kind == "ifelse" and node.orelse and not (len(node.orelse) == 1 and isinstance(node.orelse[0], ast.If)):
            return ast.copy_location(ast.If(test=ast.UnaryOp(op=ast.Not(), operand=node.test), body=node.orelse, orelse=node.body), node)
        return node


n = 0
for m in prog.modules.values():
    tree = ast.parse(m.src)
    new = T(m).visit(tree)
    ast.fix_missing_locations(new)
    out = ast.unparse(new)
    compile(out, m.path, "exec")
    open(os.path.join(dest, m.path), "w").write(out)
    n += 1
print("rewrote", n, "files with", kind)
