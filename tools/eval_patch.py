#!/usr/bin/env python3
"""Apply a patch to /repo, run every quick check, report which rules fire, undo the patch.

usage: tools/eval_patch.py <patch.diff> [--keep-output]
Never leaves /repo modified (git checkout -- . afterwards); refuses to run on a dirty tree.
"""
import json
import os
import re
import subprocess
import sys

VERIF = os.path.dirname(os.path.dirname(os.path.abspath(__file__)))


def sh(cmd, **kw):
    return subprocess.run(cmd, shell=True, text=True, capture_output=True, **kw)


def main():
    patch = os.path.abspath(sys.argv[1])
    # VK_EVAL_TREE=<scratch worktree of /repo>: same procedure on that tree (the checks read it through VK_REPO and write
    # their output outside /verif), so a long re-evaluation does not occupy /repo
    tree = os.environ.get("VK_EVAL_TREE", "/repo")
    env = "" if tree == "/repo" else f"VK_REPO={tree} "
    st = sh(f"git -C {tree} status --porcelain").stdout.strip()
    if st:
        print(f"refusing: {tree} is dirty:\n" + st)
        return 2
    r = sh(f"git -C {tree} apply --whitespace=nowarn {patch}")
    if r.returncode != 0:
        r = sh(f"git -C {tree} apply --3way --whitespace=nowarn {patch}")
        if r.returncode != 0:
            print("patch does not apply:", r.stderr[:500])
            sh(f"git -C {tree} checkout -- . && git -C {tree} reset -q")
            return 2
    try:
        out = sh(f"cd {VERIF} && {env}./check all quick")
        fired = {}
        for line in out.stdout.splitlines():
            m = re.match(r"\s*violation: rule=(\S+) site=(\S+) (\S+) construct=(.*?) -- ", line)
            if m:
                fired.setdefault(m.group(1), []).append(f"{m.group(2)} {m.group(3)}: {m.group(4)[:110]}")
            m = re.match(r"ANALYSIS-ERROR property=(\S+) rule=(\S+) site=(.*?) reason=(.*)", line)
            if m:
                fired.setdefault("UNDECIDED:" + m.group(2), []).append(f"{m.group(3)}: {m.group(4)[:110]}")
        props = sorted(set(re.findall(r"VIOLATION property=(\S+)", out.stdout)))
        print(json.dumps({"patch": patch, "violating_properties": props, "rules": fired}, indent=1))
        return 0
    finally:
        sh(f"git -C {tree} checkout -- . && git -C {tree} reset -q")
        if tree == "/repo":
            sh(f"cd {VERIF} && git checkout -q -- evidence 2>/dev/null")


if __name__ == "__main__":
    sys.exit(main())
