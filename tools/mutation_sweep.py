#!/usr/bin/env python3
"""Mutation sweep: small syntactic mutations of the functions the rules consult, analysed in memory.

For every function named in evidence/*.json (`coverage.functions_consulted`) the tool derives single-token mutants of the
source text - a comparison operator weakened / strengthened / negated, `and` <-> `or`, an integer constant of a
subscript / slice / comparison moved by one, a dropped `not`, `[0]` <-> `[-1]`, a deleted call statement or augmented
assignment - hands the mutated module to the loader as an overlay (nothing is written, VoteKit is never run) and runs the
rules of all 18 properties.  Output: one line per mutant with the properties whose check reports a VIOLATION / cannot
decide, and a summary.  A surviving mutant is not necessarily a miss (many mutants are equivalent, or break something no
property mentions); the list is a work list for reading, not a verdict.  Not registered in MANIFEST.json.

usage: tools/mutation_sweep.py [--max N] [--only <regex over function qualnames>] [--jobs 16]"""
import ast, glob, importlib, json, os, random, re, sys
from multiprocessing import Pool
VERIF = os.path.dirname(os.path.dirname(os.path.abspath(__file__)))
sys.path.insert(0, VERIF)
sys.dont_write_bytecode = True
REPO = os.environ.get("VK_REPO", "/repo")
ALL = ["C01", "C02", "C03", "C04", "C05", "C06", "C08", "C09", "C10", "C11", "C12", "C13", "C14", "C15", "C16", "C17", "C18", "C20"]

CMP = {ast.Lt: "<=", ast.LtE: "<", ast.Gt: ">=", ast.GtE: ">", ast.Eq: "!=", ast.NotEq: "=="}
CMP_TXT = {ast.Lt: "<", ast.LtE: "<=", ast.Gt: ">", ast.GtE: ">=", ast.Eq: "==", ast.NotEq: "!="}


def consulted():
    out = set()
    for f in glob.glob(os.path.join(VERIF, "evidence", "*.json")):
        out |= set(json.load(open(f)).get("coverage", {}).get("functions_consulted", []))
    return out


def seg(lines, node):
    """(start offset, end offset) of a node in the joined text."""
    def off(l, c):
        return sum(len(x) for x in lines[:l - 1]) + len(lines[l - 1].encode()[:c].decode())
    return off(node.lineno, node.col_offset), off(node.end_lineno, node.end_col_offset)


def mutants_of(rel, src, wanted):
    tree = ast.parse(src)
    lines = src.splitlines(keepends=True)
    mod = rel[len("src/"):-3].replace("/", ".")
    out = []

    def visit_func(fn, qual):
        doc = fn.body[0] if fn.body and isinstance(fn.body[0], ast.Expr) and isinstance(getattr(fn.body[0], "value", None), ast.Constant) else None
        for n in ast.walk(fn):
            if n is fn or n is doc:
                continue
            if isinstance(n, ast.Compare) and len(n.ops) == 1 and type(n.ops[0]) in CMP:
                a, b = seg(lines, n.left)[1], seg(lines, n.comparators[0])[0]
                mid = src[a:b]
                tok = CMP_TXT[type(n.ops[0])]
                if mid.count(tok) == 1:
                    out.append((qual, n.lineno, f"{tok} -> {CMP[type(n.ops[0])]}", src[:a] + mid.replace(tok, CMP[type(n.ops[0])]) + src[b:]))
            elif isinstance(n, ast.BoolOp) and len(n.values) == 2:
                a, b = seg(lines, n.values[0])[1], seg(lines, n.values[1])[0]
                mid = src[a:b]
                tok, new = ("and", "or") if isinstance(n.op, ast.And) else ("or", "and")
                if len(re.findall(rf"\b{tok}\b", mid)) == 1:
                    out.append((qual, n.lineno, f"{tok} -> {new}", src[:a] + re.sub(rf"\b{tok}\b", new, mid) + src[b:]))
            elif isinstance(n, ast.UnaryOp) and isinstance(n.op, ast.Not):
                a, b = seg(lines, n)
                c = seg(lines, n.operand)[0]
                out.append((qual, n.lineno, "not dropped", src[:a] + src[c:b] + src[b:]))
            elif isinstance(n, ast.Subscript) and isinstance(n.slice, ast.Constant) and n.slice.value == 0 and isinstance(n.ctx, ast.Load):
                a, b = seg(lines, n.slice)
                out.append((qual, n.lineno, "[0] -> [-1]", src[:a] + "-1" + src[b:]))
            elif isinstance(n, ast.Subscript) and isinstance(n.slice, ast.UnaryOp) and isinstance(n.slice.op, ast.USub) and isinstance(n.slice.operand, ast.Constant) and n.slice.operand.value == 1 \
                    and isinstance(n.ctx, ast.Load):
                a, b = seg(lines, n.slice)
                out.append((qual, n.lineno, "[-1] -> [0]", src[:a] + "0" + src[b:]))
            elif isinstance(n, ast.Constant) and type(n.value) is int and 0 <= n.value <= 3:
                a, b = seg(lines, n)
                if src[a:b] == str(n.value):
                    out.append((qual, n.lineno, f"{n.value} -> {n.value + 1}", src[:a] + str(n.value + 1) + src[b:]))
            elif isinstance(n, (ast.AugAssign,)) or (isinstance(n, ast.Expr) and isinstance(n.value, ast.Call) and isinstance(n.value.func, ast.Attribute)
                                                      and n.value.func.attr in ("append", "extend", "add", "update", "sort", "reverse", "remove", "pop")):
                a, b = seg(lines, n)
                out.append((qual, n.lineno, f"`{src[a:b].splitlines()[0][:40]}` deleted", src[:a] + "pass" + src[b:]))

    for n in tree.body:
        if isinstance(n, (ast.FunctionDef, ast.AsyncFunctionDef)):
            q = f"{mod}.{n.name}"
            if q in wanted:
                visit_func(n, q)
        elif isinstance(n, ast.ClassDef):
            for m in n.body:
                if isinstance(m, (ast.FunctionDef, ast.AsyncFunctionDef)):
                    q = f"{mod}.{n.name}.{m.name}"
                    if q in wanted:
                        visit_func(m, q)
    good = []
    for q, ln, what, new in out:
        try:
            ast.parse(new)
        except SyntaxError:
            continue
        good.append((rel, q, ln, what, new))
    return good


def run(m):
    rel, q, ln, what, new = m
    from vk.loader import Program, AnalysisError
    from vk import report
    viol, und = [], []
    try:
        prog = Program(REPO, {rel: new})
    except Exception as e:  # noqa
        return (rel, q, ln, what, ["LOAD:" + type(e).__name__], [])
    for p in ALL:
        try:
            mod = importlib.import_module(f"rules.{p.lower()}")
            res = report.run_property(p, mod, prog, "quick")
            if res.violations:
                viol.append(p)
            elif res.errors:
                und.append(p)
        except Exception as e:  # noqa
            und.append(p + ":" + type(e).__name__)
    return (rel, q, ln, what, viol, und)


def main():
    a = sys.argv[1:]
    mx = int(a[a.index("--max") + 1]) if "--max" in a else 400
    only = re.compile(a[a.index("--only") + 1]) if "--only" in a else None
    jobs = int(a[a.index("--jobs") + 1]) if "--jobs" in a else 16
    wanted = {q for q in consulted() if only is None or only.search(q)}
    ms = []
    for f in sorted(glob.glob(os.path.join(REPO, "src", "votekit", "**", "*.py"), recursive=True)):
        rel = os.path.relpath(f, REPO)
        ms += mutants_of(rel, open(f, encoding="utf-8").read(), wanted)
    random.Random(int(os.environ.get("VERIF_SEED", "1"))).shuffle(ms)
    ms = ms[:mx]
    print(f"{len(wanted)} consulted functions, {len(ms)} mutants analysed")
    with Pool(jobs) as pool:
        res = pool.map(run, ms, chunksize=1)
    nv = nu = 0
    for rel, q, ln, what, viol, und in sorted(res):
        tag = "VIOLATION " + ",".join(viol) if viol else ("cannot-decide " + ",".join(und) if und else "SURVIVES")
        nv += bool(viol)
        nu += bool(und) and not viol
        print(f"{q}:{ln}: {what}: {tag}")
    print(f"reported by some check: {nv}; cannot decide only: {nu}; surviving: {len(res) - nv - nu} of {len(res)}")


if __name__ == "__main__":
    main()
