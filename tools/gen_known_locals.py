#!/usr/bin/env python3
"""Regenerate known_locals.json: for every function of the pinned tree, how each local is bound (see vk/renameback.py).
Run on the pinned tree; the snapshot is taken at the loading stage where the rename-back runs (after spelling
canonicalisation, before indexing), so that both sides of the later comparison are in the same state."""
import json, os, sys
HERE = os.path.dirname(os.path.dirname(os.path.abspath(__file__)))
sys.path.insert(0, HERE)
sys.dont_write_bytecode = True
os.environ["VK_NO_RENAMEBACK"] = "1"
os.environ["VK_SNAPSHOT_LOCALS"] = "1"
from vk.loader import Program
prog = Program()
out = prog.local_signatures
json.dump(out, open(os.path.join(HERE, "known_locals.json"), "w"), indent=1, sort_keys=True)
print(sum(len(v) for m in out.values() for v in m.values()), "locals recorded")
