#!/usr/bin/env python3
"""Regenerate known_locals.json: for every function of the pinned tree, how each local is bound (see vk/renameback.py).
Run on the pinned tree, after canonicalisation (the same trees the rules see)."""
import ast, json, os, sys
HERE = os.path.dirname(os.path.dirname(os.path.abspath(__file__)))
sys.path.insert(0, HERE)
sys.dont_write_bytecode = True
os.environ["VK_NO_RENAMEBACK"] = "1"
from vk.loader import Program
from vk.inline import qualnames
from vk import renameback
prog = Program()
out = {}
n = 0
for m in prog.modules.values():
    rec = {}
    for q, (fn, _cls) in sorted(qualnames(m.tree).items()):
        rec[q] = renameback.signature(fn)
        n += len(rec[q])
        for sub in [x for x in ast.walk(fn) if isinstance(x, (ast.FunctionDef, ast.AsyncFunctionDef)) and x is not fn]:
            rec[f"{q}.<locals>.{sub.name}"] = renameback.signature(sub)
    out[m.path] = rec
json.dump(out, open(os.path.join(HERE, "known_locals.json"), "w"), indent=1, sort_keys=True)
print(n, "locals recorded")
