#!/usr/bin/env python3
"""Write a copy of /repo/src to <dest>/src in which every function-local variable (not parameters,
not attributes, not globals/imports) is renamed by appending a suffix. Behaviour-preserving; used to
test that the checks do not raise VIOLATION on a benign refactor (exit 2 'cannot decide' is allowed)."""
import ast, os, shutil, sys, builtins

dest = sys.argv[1]
suffix = sys.argv[2] if len(sys.argv) > 2 else "_r"
shutil.rmtree(dest, ignore_errors=True)
shutil.copytree("/repo/src", os.path.join(dest, "src"))


class R(ast.NodeTransformer):
    def __init__(self):
        self.stack = []

    def _locals(self, fn):
        params = {a.arg for a in fn.args.posonlyargs + fn.args.args + fn.args.kwonlyargs}
        if fn.args.vararg: params.add(fn.args.vararg.arg)
        if fn.args.kwarg: params.add(fn.args.kwarg.arg)
        names = set()
        nonlocal_ = set()
        def walk(n, top=True):
            for ch in ast.iter_child_nodes(n):
                if isinstance(ch, (ast.FunctionDef, ast.AsyncFunctionDef, ast.ClassDef, ast.Lambda)):
                    continue
                if isinstance(ch, (ast.Global, ast.Nonlocal)):
                    nonlocal_.update(ch.names)
                if isinstance(ch, ast.Name) and isinstance(ch.ctx, ast.Store):
                    names.add(ch.id)
                walk(ch, False)
        walk(fn)
        return {n for n in names - params - nonlocal_ if not hasattr(builtins, n)}

    def visit_FunctionDef(self, node):
        loc = self._locals(node)
        self.stack.append(loc)
        node.body = [self.visit(s) for s in node.body]
        self.stack.pop()
        return node

    def visit_Lambda(self, node):
        return node  # lambda params shadow; leave bodies (they reference outer locals rarely)

    def visit_Name(self, node):
        for loc in reversed(self.stack):
            if node.id in loc:
                return ast.copy_location(ast.Name(id=node.id + suffix, ctx=node.ctx), node)
            break  # only the innermost function scope (closures reading outer locals are left alone by skipping nested defs)
        return node

    def visit_Nonlocal(self, node):
        return node


n = 0
for dp, _, fs in os.walk(os.path.join(dest, "src")):
    for f in fs:
        if f.endswith(".py"):
            p = os.path.join(dp, f)
            src = open(p).read()
            tree = ast.parse(src)
            # skip files with nested functions that read outer locals (closures): keep them unchanged
            has_closure = any(isinstance(x, (ast.FunctionDef, ast.Lambda)) and any(isinstance(y, (ast.FunctionDef,)) for y in ast.walk(x) if y is not x) for x in ast.walk(tree))
            new = R().visit(tree)
            ast.fix_missing_locations(new)
            out = ast.unparse(new)
            compile(out, p, "exec")
            open(p, "w").write(out)
            n += 1
print("rewrote", n, "files")
