#!/bin/sh
# usage: tools/run_all.sh quick|thorough   -- run all 18 checks in parallel, print exit codes and anything that is not a pass
tier=${1:-quick}
cd /verif
for p in C01 C02 C03 C04 C05 C06 C08 C09 C10 C11 C12 C13 C14 C15 C16 C17 C18 C20; do
  ( ./check $p $tier > /tmp/run_${tier}_$p.txt 2>&1; echo $? > /tmp/run_${tier}_$p.rc ) &
done
wait
for p in C01 C02 C03 C04 C05 C06 C08 C09 C10 C11 C12 C13 C14 C15 C16 C17 C18 C20; do
  echo "$p exit=$(cat /tmp/run_${tier}_$p.rc) selfval-not-ok=$(grep selfval /tmp/run_${tier}_$p.txt | grep -v 'reported \|silent' | wc -l) lines=$(wc -l < /tmp/run_${tier}_$p.txt)"
  grep '^VIOLATION\|^ANALYSIS-ERROR' /tmp/run_${tier}_$p.txt | cut -c1-300
  grep selfval /tmp/run_${tier}_$p.txt | grep -v 'reported \|silent' | cut -c1-300
done
