#!/bin/sh
# Run the repository's own tests against the WORKING TREE (the pinned command imports the old wheel).
# usage: tools/run_src_tests.sh [pytest args...]   (default: everything except the slow large-sample tests)
cd /repo && PYTHONPATH=/repo/src:/verif/tools/otstub exec /venv/bin/python -m pytest -q -p no:cacheprovider --continue-on-collection-errors "${@:-tests}" -k "not large_sample"
