#!/usr/bin/env python3
"""Print a function as the rules see it (after helper inlining and canonicalisation). usage: VK_REPO=<dir> tools/show_func.py <short name>"""
import ast, os, sys
sys.path.insert(0, os.path.dirname(os.path.dirname(os.path.abspath(__file__))))
sys.dont_write_bytecode = True
from vk.loader import Program
prog = Program(os.environ.get("VK_REPO", "/repo"))
for l in prog.inlined:
    print("#", l)
print(ast.unparse(prog.find_func(sys.argv[1]).node))
