#!/usr/bin/env python3
"""Re-run every quick check against each behaviour-preserving refactoring (benign/<id>/patch.diff, or change_*.diff of a
sub-agent's output directory not filed yet) applied to a scratch worktree (never /repo).  usage: tools/reeval_benign.py [<id regex>] [--update]"""
import glob, json, os, re, subprocess, sys
VERIF = os.path.dirname(os.path.dirname(os.path.abspath(__file__)))
ALL = ["C01", "C02", "C03", "C04", "C05", "C06", "C08", "C09", "C10", "C11", "C12", "C13", "C14", "C15", "C16", "C17", "C18", "C20"]
WT = os.environ.get("VK_WT", "/tmp/wt_scratch")   # one scratch worktree per concurrently running shard
SHARD = next((a.split("=")[1] for a in sys.argv[1:] if a.startswith("--shard=")), "0/1")   # --shard=i/n: every n-th patch
ONLY = os.environ.get("VK_ONLY")   # VK_ONLY=C05,C20: only these checks (after a change confined to their rules)
if ONLY:
    ALL = [p for p in ALL if p in ONLY.split(",")]
args = [a for a in sys.argv[1:] if not a.startswith("--")]
pat = re.compile(args[0] if args else ".")
update = "--update" in sys.argv
items = {}
for d in sorted(glob.glob(os.path.join(VERIF, "benign", "*", "patch.diff"))):
    items[os.path.basename(os.path.dirname(d))] = d
for rnd, tagc in (("3", "b"), ("5", "c"), ("6", "d"), ("8", "e"), ("0", "f")):
    for d in sorted(glob.glob(f"/tmp/out{rnd}_C*/change_*.diff")):
        pid = re.search(r"out\d_(C\d\d)", d).group(1)
        i = re.search(r"change_(\d+)", d).group(1)
        items.setdefault(f"{pid}-{tagc}{i}", d)
if not os.path.isdir(WT):
    # the scratch worktree of /repo the patches are applied to (removed again with `git -C /repo worktree remove --force`)
    subprocess.run(f"git -C /repo worktree add --detach {WT} HEAD -f", shell=True, check=True, capture_output=True)
fa_total = und_total = 0
si, sn = (int(x) for x in SHARD.split("/"))
for k, (name, diff) in enumerate(sorted((n, d) for n, d in items.items() if pat.search(n))):
    if k % sn != si:
        continue
    subprocess.run(f"git -C {WT} checkout -q -- . && git -C {WT} apply --whitespace=nowarn {diff}", shell=True, check=True)
    procs = {p: subprocess.Popen(f"cd {VERIF} && VK_REPO={WT} ./check {p} quick", shell=True, text=True, stdout=subprocess.PIPE, stderr=subprocess.STDOUT) for p in ALL}
    fa, und, codes = {}, {}, {}
    for p, pr in procs.items():
        txt = pr.communicate()[0]
        codes[p] = pr.returncode
        if pr.returncode == 1:
            fa[p] = [l.strip()[:330] for l in txt.splitlines() if l.startswith("  violation:")]
        elif pr.returncode == 2:
            und[p] = [l.strip()[:260] for l in txt.splitlines() if l.startswith("ANALYSIS-ERROR")]
    subprocess.run(f"git -C {WT} checkout -q -- .", shell=True)
    fa_total += bool(fa)
    und_total += bool(und) and not fa
    print(f"{name}: " + ("FALSE ALARM " + json.dumps(fa) if fa else "no alarm") + (" | undecided " + json.dumps(und) if und else ""))
    mp = os.path.join(VERIF, "benign", name, "meta.json")
    if update and os.path.exists(mp):
        meta = json.load(open(mp))
        meta["checks_exit_codes"], meta["false_alarms"], meta["undecided"] = codes, fa, und
        json.dump(meta, open(mp, "w"), indent=1)
print(f"patches with a false alarm: {fa_total}; undecided only: {und_total}")
