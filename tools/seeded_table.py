#!/usr/bin/env python3
"""Print the markdown table of seeded changes (seeded/*/meta.json) for DESIGN.md section 10."""
import glob, json, os
HERE = os.path.dirname(os.path.dirname(os.path.abspath(__file__)))
rows = []
for m in sorted(glob.glob(os.path.join(HERE, "seeded", "*", "meta.json"))):
    d = json.load(open(m))
    rules = sorted(d.get("checks_that_fire", {}))
    own = [r for r in rules if r.startswith(d["breaks_property"] + ".")]
    what = d["what_it_needs_to_manifest"].split(":")[0].replace("|", "/")[:120] if d["what_it_needs_to_manifest"] else ""
    files = ", ".join(os.path.basename(f) for f in d["files_changed"])
    rows.append(f"| {d['id']} | {files} | {', '.join(own) or '-'} | {', '.join(r for r in rules if r not in own) or '-'} | {'yes' if d['detected_by_target_property_check'] else '**no**'} |")
print("| seeded change | file(s) | rules of the target property that fire | other rules that fire | caught by the target check |")
print("|---|---|---|---|---|")
print("\n".join(rows))
