#!/bin/sh
# usage: tools/try_patch.sh <worktree> <patch> <Cxx>...   -- run checks against a scratch worktree with the patch applied (never touches /repo)
wt=$1; patch=$2; shift 2
git -C $wt checkout -q -- . && git -C $wt apply --whitespace=nowarn $patch || exit 3
for p in "$@"; do VK_REPO=$wt /verif/check $p quick | grep -i "violation:\|undecided\|ANALYSIS-ERROR\|^VIOLATION" | cut -c1-330; done
git -C $wt checkout -q -- .
