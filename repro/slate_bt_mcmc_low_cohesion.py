import _stub  # noqa
import numpy as np, random
from votekit.ballot_generator import slate_BradleyTerry
from votekit.pref_interval import PreferenceInterval
np.random.seed(0); random.seed(0)
c = 0.2
sl = {"A": ["a"], "B": ["b"]}
pi = {"A": {"A": PreferenceInterval({"a": 1.0}), "B": PreferenceInterval({"b": 1.0})},
      "B": {"A": PreferenceInterval({"a": 1.0}), "B": PreferenceInterval({"b": 1.0})}}
g = slate_BradleyTerry(slate_to_candidates=sl, pref_intervals_by_bloc=pi, bloc_voter_prop={"A": 1.0, "B": 0.0},
                       cohesion_parameters={"A": {"A": c, "B": 1 - c}, "B": {"A": 0.5, "B": 0.5}})
exact = g.ballot_type_pdf["A"]
types = g._sample_ballot_types_MCMC("A", 20000)
freq = sum(1 for t in types if tuple(t) == ("A", "B")) / len(types)
print("exact P(A first) =", round(float(exact[("A", "B")]), 3), " MCMC frequency =", round(freq, 3))
if abs(freq - float(exact[("A", "B")])) > 0.05:
    print("DEFECT: the MCMC chain's stationary distribution differs from the model's table for cohesion < 1/2")
    raise SystemExit(1)
print("OK")
