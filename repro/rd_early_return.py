import _stub  # noqa
from votekit.ballot import Ballot
from votekit.pref_profile import PreferenceProfile
from votekit.elections import RandomDictator
import random
random.seed(1)
# a ballot carrying ranking AND scores keeps positive weight after its ranking is exhausted
bs = (Ballot(ranking=(frozenset({"A"}),), scores={"B": 1}, weight=5), Ballot(ranking=(frozenset({"B"}),), weight=1))
p = PreferenceProfile(ballots=bs, candidates=("A", "B"))
try:
    e = RandomDictator(p, m=2)
    print("OK", e.get_elected())
except Exception as ex:
    print("DEFECT", type(ex).__name__, ex)
