import _stub  # noqa
from votekit.ballot import Ballot
from votekit.pref_profile import PreferenceProfile
from votekit.elections import PluralityVeto
import numpy as np
np.random.seed(0)
def b(r, w): return Ballot(ranking=tuple(frozenset({c}) for c in r), weight=w)
p = PreferenceProfile(ballots=(b("ABC", 3), b("BCA", 2), b("CAB", 2)), candidates=("A", "B", "C"))
e = PluralityVeto(p, m=1)
n0 = len(e.election_states); order0 = list(e.random_order)
try:
    e.get_profile(1)
    print("states before/after get_profile:", n0, len(e.election_states), "random_order changed:", order0 != list(e.random_order))
except Exception as ex:
    print("DEFECT", type(ex).__name__, ex, "| states before/after:", n0, len(e.election_states))
