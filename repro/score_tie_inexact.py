import _stub  # noqa
from fractions import Fraction
from votekit.ballot import Ballot
from votekit.pref_profile import PreferenceProfile
from votekit.utils import first_place_votes
p = PreferenceProfile(ballots=(Ballot(ranking=(frozenset({"A", "B", "C"}),), weight=1),), candidates=("A", "B", "C"))
s = first_place_votes(p)
tot = sum(s.values())
print(s, "total handed out:", tot, "" if tot == 1 else "  <-- DEFECT: a ballot of weight 1 hands out != 1 first-place vote")
