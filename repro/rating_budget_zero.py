import _stub  # noqa
from votekit.ballot import Ballot
from votekit.pref_profile import PreferenceProfile
from votekit.elections import GeneralRating, BlocPlurality
p = PreferenceProfile(ballots=(Ballot(scores={"A": 1, "B": 1}, weight=1),), candidates=("A", "B"))
try:
    e = GeneralRating(p, m=1, L=1, k=0, tiebreak="random")
    print("DEFECT: k=0 accepted; ballot with total score 2 exceeds budget 0 yet elected", e.get_elected())
except ValueError as ex:
    print("OK ValueError:", ex)
try:
    e = BlocPlurality(p, m=1, k=0, tiebreak="random")
    print("DEFECT: BlocPlurality k=0 silently became k=m", e.k)
except ValueError as ex:
    print("OK ValueError:", ex)
