"""PluralityVeto does not terminate when fewer than m candidates have a first-place vote (or, generally, when a
round eliminates past m): round 1 eliminates every candidate with score 0 at once, the number of candidates that
are not eliminated drops below m, and the finishing branch is guarded by `remaining_count == self.m`, which can
then never hold.  The constructor runs the election, so it never returns.  (C01: every accepted profile terminates
with exactly m winners.)"""
import signal
import _stub  # noqa
from votekit.ballot import Ballot
from votekit.pref_profile import PreferenceProfile
from votekit.elections import PluralityVeto


def on_alarm(signum, frame):
    raise TimeoutError


signal.signal(signal.SIGALRM, on_alarm)
# four candidates, two seats, every voter ranks A first: only A has first-place votes
p = PreferenceProfile(ballots=(Ballot(ranking=({"A"}, {"B"}, {"C"}, {"D"}), weight=3),), candidates=("A", "B", "C", "D"))
signal.alarm(10)
try:
    e = PluralityVeto(p, m=2)
    signal.alarm(0)
    print("OK", e.get_elected(), "rounds:", len(e.election_states))
except TimeoutError:
    print("DEFECT: PluralityVeto(profile, m=2) did not finish within 10 s (non-termination)")
