import _stub  # noqa
from votekit.ballot import Ballot
from votekit.pref_profile import PreferenceProfile
from votekit.elections import STV
def b(c, w): return Ballot(ranking=(frozenset({c}),), weight=w)
p = PreferenceProfile(ballots=(b("A", 10), b("B", 3), b("C", 2), b("D", 1)), candidates=("A", "B", "C", "D"))
e = STV(p, m=3)
for r in range(len(e.election_states)):
    prof = e.get_profile(r)
    rem = {c for s in e.get_remaining(r) for c in s}
    flag = "" if set(prof.candidates) == rem else "   <-- DEFECT: replayed profile disagrees with the recorded round"
    print(r, "profile cands", sorted(prof.candidates), "remaining", sorted(rem), flag)
