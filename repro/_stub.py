"""Run the working tree (not the installed wheel); POT is not installed, stub it."""
import sys, types
sys.path.insert(0, "/repo/src")
sys.modules.setdefault("ot", types.ModuleType("ot"))
