import _stub  # noqa
import numpy as np, random
from votekit.ballot_generator import AlternatingCrossover
from votekit.pref_interval import PreferenceInterval
np.random.seed(0); random.seed(0)
sl = {"A": ["a1", "a2", "a3"], "B": ["b1", "b2", "b3"]}
pi = {"A": {"A": PreferenceInterval({"a1": .98, "a2": .01, "a3": .01}), "B": PreferenceInterval({"b1": 1/3, "b2": 1/3, "b3": 1/3})},
      "B": {"A": PreferenceInterval({"a1": 1/3, "a2": 1/3, "a3": 1/3}), "B": PreferenceInterval({"b1": 1/3, "b2": 1/3, "b3": 1/3})}}
g = AlternatingCrossover(slate_to_candidates=sl, pref_intervals_by_bloc=pi, bloc_voter_prop={"A": 1.0, "B": 0.0},
                         cohesion_parameters={"A": {"A": 1.0, "B": 0.0}, "B": {"A": 0.0, "B": 1.0}})
pp = g.generate_profile(2000)
first = {}
for b in pp.ballots:
    c = next(iter(b.ranking[0])); first[c] = first.get(c, 0) + b.weight
print({k: int(v) for k, v in sorted(first.items())})
share = float(first.get("a1", 0)) / 2000
if share < 0.9:
    print(f"DEFECT: a1 has support .98 within its slate but is first on only {share:.0%} of bloc ballots")
    raise SystemExit(1)
print("OK")
