import _stub  # noqa
from votekit.ballot import Ballot
from votekit.pref_profile import PreferenceProfile
r = (frozenset({"A"}),)
unscored = Ballot(ranking=r, weight=1)
scored = Ballot(ranking=r, weight=1, scores={"A": 2})
p1 = PreferenceProfile(ballots=(unscored, scored)).condense_ballots()
p2 = PreferenceProfile(ballots=(scored, unscored)).condense_ballots()
d1 = sorted((str(b.scores), b.weight) for b in p1.ballots)
d2 = sorted((str(b.scores), b.weight) for b in p2.ballots)
print("order 1:", d1)
print("order 2:", d2)
if d1 != d2 or len(d1) != 2:
    print("DEFECT: condensing depends on ballot order / merges different contents")
    raise SystemExit(1)
print("OK")
