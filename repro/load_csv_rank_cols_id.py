import _stub  # noqa
import os, tempfile
from votekit.cvr_loaders import load_csv
d = tempfile.mkdtemp()
p = os.path.join(d, "cvr.csv")
open(p, "w").write("id,r1,r2,r3\nv1,A,B,C\nv2,A,B,C\nv3,B,A,C\n")
prof = load_csv(p, rank_cols=[1, 2, 3], id_col=0)
got = sorted((tuple(next(iter(s)) for s in b.ranking), int(b.weight), sorted(b.voter_set)) for b in prof.ballots)
want = [(("A", "B", "C"), 2, ["v1", "v2"]), (("B", "A", "C"), 1, ["v3"])]
print(got)
os.remove(p); os.rmdir(d)
if got != want:
    print("DEFECT: expected", want)
    raise SystemExit(1)
print("OK")
