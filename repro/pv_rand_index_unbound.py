import _stub  # noqa
from votekit.pref_profile import PreferenceProfile
from votekit.elections import PluralityVeto
p = PreferenceProfile(candidates=("A", "B"))
try:
    e = PluralityVeto(p, m=1)
    print("OK", e.get_elected())
except UnboundLocalError as ex:
    print("DEFECT UnboundLocalError:", ex)
