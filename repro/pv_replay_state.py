import _stub  # noqa
from votekit.ballot import Ballot
from votekit.pref_profile import PreferenceProfile
from votekit.elections import PluralityVeto
import numpy as np
np.random.seed(0)
def b(r, w): return Ballot(ranking=tuple(frozenset({c}) for c in r), weight=w)
p = PreferenceProfile(ballots=(b("ABC", 3), b("BCA", 2), b("CAB", 2)), candidates=("A", "B", "C"))
e = PluralityVeto(p, m=1)
for r in range(len(e.election_states)):
    prof = e.get_profile(r)
    rem = {c for s in e.get_remaining(r) for c in s}
    flag = "" if set(prof.candidates) == rem else "   <-- DEFECT: replayed profile disagrees with the recorded round"
    print(r, "profile cands", sorted(prof.candidates), "remaining", sorted(rem), flag)
