import _stub  # noqa
from fractions import Fraction
from votekit.ballot import Ballot
from votekit.elections.transfers import fractional_transfer
bs = (Ballot(ranking=(frozenset({"A"}), frozenset({"B"})), weight=10),)
out = fractional_transfer("A", 10, bs, 4)
w = out[0].weight
print("transferred weight:", w, "" if w == 6 else "  <-- DEFECT: expected exactly 10*(10-4)/10 = 6")
out = fractional_transfer("A", 3, (Ballot(ranking=(frozenset({"A"}), frozenset({"B"})), weight=3),), 2)
print("transferred weight:", out[0].weight, "" if out[0].weight == 1 else "  <-- DEFECT: expected exactly 3*(3-2)/3 = 1")
