import _stub  # noqa
from votekit.ballot import Ballot
from votekit.pref_profile import PreferenceProfile
from votekit.elections import BoostedRandomDictator
p = PreferenceProfile(ballots=(Ballot(ranking=(frozenset({"A"}),), weight=3),), candidates=("A",))
try:
    e = BoostedRandomDictator(p, m=1)
    print("OK elected", e.get_elected())
except UnboundLocalError as ex:
    print("DEFECT UnboundLocalError:", ex)
