"""AST helpers: parent maps, structured path conditions, call/argument binding, small matchers."""
from __future__ import annotations

import ast
import re
from typing import Callable, Dict, Iterator, List, Optional, Sequence, Tuple

FuncNode = (ast.FunctionDef, ast.AsyncFunctionDef, ast.Lambda)


def parents(root: ast.AST) -> Dict[ast.AST, ast.AST]:
    pm: Dict[ast.AST, ast.AST] = {}
    for n in ast.walk(root):
        for ch in ast.iter_child_nodes(n):
            pm[ch] = n
    return pm


def walk_own(func_node: ast.AST) -> Iterator[ast.AST]:
    """Walk a function body without descending into nested defs/lambdas/classes
    (comprehensions are descended into)."""
    body = func_node.body if not isinstance(func_node, ast.Lambda) else [func_node.body]
    stack = list(body)[::-1]
    while stack:
        n = stack.pop()
        yield n
        if isinstance(n, FuncNode + (ast.ClassDef,)):
            continue
        stack.extend(list(ast.iter_child_nodes(n))[::-1])


def walk_all(func_node: ast.AST) -> Iterator[ast.AST]:
    """Walk including nested lambdas (but not nested defs/classes)."""
    body = func_node.body if not isinstance(func_node, ast.Lambda) else [func_node.body]
    stack = list(body)[::-1]
    while stack:
        n = stack.pop()
        yield n
        if isinstance(n, (ast.FunctionDef, ast.AsyncFunctionDef, ast.ClassDef)):
            continue
        stack.extend(list(ast.iter_child_nodes(n))[::-1])


LCOMP = (ast.ListComp, ast.GeneratorExp)  # a list comprehension consumed at once is canonically a generator expression
_BINDERS = (ast.ListComp, ast.SetComp, ast.GeneratorExp, ast.DictComp, ast.Lambda)


def u(e: Optional[ast.AST]) -> str:
    """Source text of a node, in alpha-normal form: variables bound by comprehensions and lambdas are spelled
    _b0, _b1, ... so that no rule depends on how a bound variable happens to be named (write specs with A(...))."""
    if e is None:
        return "<none>"
    if isinstance(e, ast.AST) and not isinstance(e, (ast.stmt, ast.mod)) and any(isinstance(x, _BINDERS) for x in ast.walk(e)):
        return ua(e)
    if isinstance(e, ast.stmt) and not isinstance(e, (ast.FunctionDef, ast.AsyncFunctionDef, ast.ClassDef)) and any(isinstance(x, _BINDERS) for x in ast.walk(e)):
        return ua(e)
    return ast.unparse(e)


def A(spec: str) -> str:
    """Alpha-normal form of an expression written in a rule (so `A("[c for c in x]") == u(node)` whatever the code calls c)."""
    from .canon import Canon
    try:
        tree = ast.parse(spec, mode="eval")
        return ua(ast.fix_missing_locations(Canon().visit(tree)).body)
    except SyntaxError:
        tree = ast.parse(spec)
        return ua(ast.fix_missing_locations(Canon().visit(tree)).body[0])


class _Alpha(ast.NodeTransformer):
    """Rename variables bound by comprehensions and lambdas to _b0, _b1, ... in order of binding."""

    def __init__(self):
        self.env = [{}]
        self.k = 0

    def visit_Name(self, n):
        for scope in reversed(self.env):
            if n.id in scope:
                return ast.copy_location(ast.Name(id=scope[n.id], ctx=n.ctx), n)
        return n

    def _comp(self, node, elts):
        self.env.append({})
        for g in node.generators:
            g.iter = self.visit(g.iter)
            for nm in [x for x in ast.walk(g.target) if isinstance(x, ast.Name)]:
                self.env[-1][nm.id] = f"_b{self.k}"
                self.k += 1
            g.target = self.visit(g.target)
            g.ifs = [self.visit(t) for t in g.ifs]
        for fld in elts:
            setattr(node, fld, self.visit(getattr(node, fld)))
        self.env.pop()
        return node

    def visit_ListComp(self, node):
        return self._comp(node, ["elt"])

    visit_SetComp = visit_ListComp
    visit_GeneratorExp = visit_ListComp

    def visit_DictComp(self, node):
        return self._comp(node, ["key", "value"])

    def visit_Lambda(self, node):
        self.env.append({})
        for a in node.args.posonlyargs + node.args.args + node.args.kwonlyargs:
            self.env[-1][a.arg] = f"_b{self.k}"
            a.arg = f"_b{self.k}"
            self.k += 1
        node.body = self.visit(node.body)
        self.env.pop()
        return node


def ua(e: Optional[ast.AST]) -> str:
    """unparse with comprehension / lambda variables renamed canonically (alpha-normal form)."""
    if e is None:
        return "<none>"
    import copy
    return ast.unparse(_Alpha().visit(copy.deepcopy(e)))


def ueq(e: Optional[ast.AST], spec: str) -> bool:
    """Does expression `e` equal the expression written in `spec`, up to the names of comprehension / lambda variables?"""
    if e is None:
        return False
    try:
        return ua(e) == ua(ast.parse(spec, mode="eval").body)
    except SyntaxError:
        return False


def is_name(e, id_: Optional[str] = None) -> bool:
    return isinstance(e, ast.Name) and (id_ is None or e.id == id_)


def is_attr(e, attr: Optional[str] = None, base: Optional[str] = None) -> bool:
    if not isinstance(e, ast.Attribute):
        return False
    if attr is not None and e.attr != attr:
        return False
    if base is not None and not is_name(e.value, base):
        return False
    return True


def is_self_attr(e, attr: Optional[str] = None) -> bool:
    return is_attr(e, attr, "self")


def const(e):
    """Python value of a literal constant expression (numbers, strings, bools, None, -n); else raises."""
    if isinstance(e, ast.Constant):
        return e.value
    if isinstance(e, ast.UnaryOp) and isinstance(e.op, ast.USub) and isinstance(e.operand, ast.Constant):
        return -e.operand.value
    raise ValueError("not a constant")


def is_const(e, value=...) -> bool:
    try:
        v = const(e)
    except ValueError:
        return False
    if value is ...:
        return True
    return v == value and type(v) == type(value)


def call_name(call: ast.Call) -> str:
    """Last component of the callee expression ('remove_cand', 'append', 'choice')."""
    f = getattr(call, "func", None)
    if isinstance(f, ast.Name):
        return f.id
    if isinstance(f, ast.Attribute):
        return f.attr
    return ""


def calls_in(node: ast.AST, name: Optional[str] = None, own_only: bool = True) -> List[ast.Call]:
    it = walk_own(node) if (own_only and isinstance(node, FuncNode)) else ast.walk(node)
    out = []
    for n in it:
        if isinstance(n, ast.Call) and (name is None or call_name(n) == name):
            out.append(n)
    return out


def bind_args(call: ast.Call, params: Sequence[str], skip_self: bool = False) -> Dict[str, ast.AST]:
    """Bind call arguments to parameter names (positional or keyword). Raises on *args/**kwargs."""
    ps = list(params)
    if skip_self and ps and ps[0] in ("self", "cls"):
        ps = ps[1:]
    out: Dict[str, ast.AST] = {}
    for i, a in enumerate(call.args):
        if isinstance(a, ast.Starred):
            raise ValueError("starred argument")
        if i < len(ps):
            out[ps[i]] = a
        else:
            out[f"<extra{i}>"] = a
    for kw in call.keywords:
        if kw.arg is None:
            raise ValueError("**kwargs argument")
        out[kw.arg] = kw.value
    return out


# ----------------------------------------------------------------------------- control structure

def always_exits(stmts: Sequence[ast.stmt], loop_exits_count: bool = True) -> bool:
    """True iff every path through stmts ends in raise/return (or break/continue when
    loop_exits_count). Conservative (False when unsure)."""
    for s in stmts:
        if isinstance(s, (ast.Raise, ast.Return)):
            return True
        if loop_exits_count and isinstance(s, (ast.Break, ast.Continue)):
            return True
        if isinstance(s, ast.If):
            if s.orelse and always_exits(s.body, loop_exits_count) and always_exits(s.orelse, loop_exits_count):
                return True
        if isinstance(s, ast.With):
            if always_exits(s.body, loop_exits_count):
                return True
        if isinstance(s, ast.Assert) and is_const(s.test, False):
            return True
    return False


def always_raises(stmts: Sequence[ast.stmt]) -> bool:
    for s in stmts:
        if isinstance(s, ast.Raise):
            return True
        if isinstance(s, ast.If) and s.orelse and always_raises(s.body) and always_raises(s.orelse):
            return True
        if isinstance(s, ast.Assert) and is_const(s.test, False):
            return True
        if isinstance(s, (ast.Return, ast.Break, ast.Continue)):
            return False
    return False


Cond = Tuple[ast.AST, bool]  # (test expression, polarity)


def path_condition(func_node: ast.AST, target: ast.AST, pm: Optional[Dict] = None,
                   drop_stale: bool = True, carried: bool = True) -> List[Cond]:
    """Structured path condition of `target` inside func_node: enclosing if/while tests with
    polarity, plus negations of earlier sibling `if`s whose body always exits
    (raise/return; or break/continue relative to the same loop body).
    IfExp / BoolOp short-circuit / comprehension `if`s enclosing the target are included too.
    With drop_stale, a condition is dropped when a name or attribute it reads may be re-bound
    between the evaluation of the test and the target (including earlier loop iterations)."""
    pm = pm or parents(func_node)
    conds: List[Tuple[ast.AST, bool, List[ast.AST]]] = []
    node = target
    inner: List[ast.AST] = []  # statements that may run between an outer test and the target
    while node is not func_node and node in pm:
        par = pm[node]
        if isinstance(par, ast.If):
            if node in par.body:
                conds.append((par.test, True, list(inner)))
            elif node in par.orelse:
                conds.append((par.test, False, list(inner)))
        elif isinstance(par, ast.While):
            if node in par.body:
                conds.append((par.test, True, list(inner) + list(par.body)))
        elif isinstance(par, ast.IfExp):
            if node is par.body:
                conds.append((par.test, True, []))
            elif node is par.orelse:
                conds.append((par.test, False, []))
        elif isinstance(par, (ast.ListComp, ast.SetComp, ast.GeneratorExp, ast.DictComp)):
            if node is getattr(par, "elt", None) or node is getattr(par, "key", None) or node is getattr(par, "value", None):
                for g in par.generators:
                    for t in g.ifs:
                        conds.append((t, True, []))
        elif isinstance(par, ast.BoolOp) and any(v is node for v in par.values):
            idx = [i for i, v in enumerate(par.values) if v is node][0]
            for prev in par.values[:idx]:
                conds.append((prev, isinstance(par.op, ast.And), []))
        for fieldname in ("body", "orelse", "finalbody"):
            seq = getattr(par, fieldname, None)
            if isinstance(seq, list) and node in seq:
                idx = seq.index(node)
                for j, prev in enumerate(seq[:idx] if carried else []):
                    if isinstance(prev, ast.If):
                        body_exits = always_exits(prev.body, loop_exits_count=True)
                        else_exits = bool(prev.orelse) and always_exits(prev.orelse, loop_exits_count=True)
                        between = list(seq[j + 1:idx]) + list(inner)
                        if body_exits and not else_exits:
                            conds.append((prev.test, False, between + list(prev.orelse)))
                        elif else_exits and not body_exits:
                            conds.append((prev.test, True, between + list(prev.body)))
                inner = list(seq[:idx]) + inner
                if isinstance(par, (ast.For, ast.While)) and fieldname == "body":
                    inner = list(par.body)  # earlier iterations
        node = par
    out: List[Cond] = []
    for test, pol, between in conds[::-1]:
        if drop_stale and _stale(test, between):
            continue
        out.append((test, pol))
    return out


def _stale(test: ast.AST, between: Sequence[ast.AST]) -> bool:
    names = {n.id for n in ast.walk(test) if isinstance(n, ast.Name)}
    attrs = {u(n) for n in ast.walk(test) if isinstance(n, ast.Attribute)}
    for s in between:
        for n in ast.walk(s):
            if isinstance(n, ast.Name) and isinstance(n.ctx, (ast.Store, ast.Del)) and n.id in names:
                return True
            if isinstance(n, ast.Attribute) and isinstance(n.ctx, ast.Store) and u(n) in attrs:
                return True
            # mutation through a method call on a tested name: x.append(...), x.pop(...)
            if isinstance(n, ast.Call) and isinstance(n.func, ast.Attribute) and n.func.attr in (
                    "append", "pop", "extend", "remove", "clear", "update", "add", "insert", "sort") \
                    and isinstance(n.func.value, ast.Name) and n.func.value.id in names:
                return True
    return False


def enclosing(target: ast.AST, pm: Dict, kinds) -> Optional[ast.AST]:
    node = target
    while node in pm:
        node = pm[node]
        if isinstance(node, kinds):
            return node
    return None


def enclosing_loops(target: ast.AST, pm: Dict, stop: ast.AST) -> List[ast.AST]:
    out = []
    node = target
    while node in pm and node is not stop:
        par = pm[node]
        if isinstance(par, (ast.For, ast.While)) and node in par.body:
            out.append(par)
        if isinstance(par, ast.comprehension):
            out.append(par)
        node = par
    return out


def stmt_of(node: ast.AST, pm: Dict) -> ast.stmt:
    while not isinstance(node, ast.stmt):
        node = pm[node]
    return node


def raises_in(func_node: ast.AST) -> List[ast.Raise]:
    return [n for n in walk_own(func_node) if isinstance(n, ast.Raise)]


def raise_type(r: ast.Raise) -> str:
    e = r.exc
    if e is None:
        return "<reraise>"
    if isinstance(e, ast.Call):
        e = e.func
    if isinstance(e, ast.Name):
        return e.id
    if isinstance(e, ast.Attribute):
        return e.attr
    return u(e)


def assigned_names(target: ast.AST) -> List[str]:
    out = []
    for n in ast.walk(target):
        if isinstance(n, ast.Name) and isinstance(n.ctx, (ast.Store, ast.Del)):
            out.append(n.id)
    return out


MISSES: List[Tuple[int, str]] = []  # (id(function node), local name a rule asked for that does not occur in the function at all)


def _note_miss(func_node: ast.AST, name: str):
    if not isinstance(name, str) or not name.isidentifier() or re.fullmatch(r"_b\d+", name):
        return  # (_bN: the canonical names of comprehension / lambda variables, never locals of the code)
    for n in ast.walk(func_node):
        if isinstance(n, ast.Name) and n.id == name:
            return
        if isinstance(n, ast.arg) and n.arg == name:
            return
    MISSES.append((id(func_node), name))


def defs_of(func_node: ast.AST, name: str) -> List[Tuple[ast.stmt, Optional[ast.AST]]]:
    """All statements in the function that bind local `name`, with the bound value expression
    when it is a plain `name = value` / `name: T = value` (else None)."""
    out = _defs_of(func_node, name)
    if not out:
        _note_miss(func_node, name)
    return out


def _defs_of(func_node: ast.AST, name: str) -> List[Tuple[ast.stmt, Optional[ast.AST]]]:
    out = []
    for n in walk_own(func_node):
        if isinstance(n, ast.Assign):
            for t in n.targets:
                if is_name(t, name):
                    out.append((n, n.value))
                elif isinstance(t, (ast.Tuple, ast.List)) and name in assigned_names(t):
                    out.append((n, None))
        elif isinstance(n, ast.AnnAssign) and is_name(n.target, name):
            out.append((n, n.value))
        elif isinstance(n, ast.AugAssign) and is_name(n.target, name):
            out.append((n, None))
        elif isinstance(n, (ast.For,)) and name in assigned_names(n.target):
            out.append((n, None))
        elif isinstance(n, ast.comprehension) and name in assigned_names(n.target):
            pass  # comprehension scope
        elif isinstance(n, ast.With):
            for it in n.items:
                if it.optional_vars is not None and name in assigned_names(it.optional_vars):
                    out.append((n, None))
        elif isinstance(n, ast.NamedExpr) and is_name(n.target, name):
            out.append((n, n.value))
    return out


def unique_def(func_node: ast.AST, name: str) -> Optional[ast.AST]:
    """Value expression of the single plain assignment to `name` in the function, or None."""
    ds = defs_of(func_node, name)
    if len(ds) == 1 and ds[0][1] is not None:
        return ds[0][1]
    return None


def tuple_unpack_source(func_node: ast.AST, name: str) -> Optional[Tuple[ast.AST, int]]:
    """If `name` is bound exactly once by `a, b, c = <call>`, return (<call>, index)."""
    hits = []
    for n in walk_own(func_node):
        if isinstance(n, ast.Assign):
            for t in n.targets:
                if isinstance(t, (ast.Tuple, ast.List)):
                    for i, el in enumerate(t.elts):
                        if is_name(el, name):
                            hits.append((n.value, i))
    others = [d for d in defs_of(func_node, name)]
    if len(hits) == 1 and len(others) == 1:
        return hits[0]
    return None


def strip_wrappers(e: ast.AST, wrappers=("tuple", "list", "cast", "Fraction", "float")) -> ast.AST:
    while isinstance(e, ast.Call) and isinstance(e.func, ast.Name) and e.func.id in wrappers and e.args:
        e = e.args[-1] if e.func.id == "cast" else e.args[0]
    return e


def same(a: ast.AST, b: ast.AST) -> bool:
    return ast.dump(a) == ast.dump(b)


def reaching_defs(func_node: ast.AST, name: str, target: ast.AST) -> List[Tuple[ast.stmt, Optional[ast.AST]]]:
    """Definitions of local `name` that may reach `target` (structured, path-insensitive inside
    loops).  Returns [(stmt, value-or-None)]; an empty list means only the parameter / no binding."""
    pm = parents(func_node)
    tstmt = stmt_of(target, pm)
    found: List[List[Tuple[ast.stmt, Optional[ast.AST]]]] = []

    def binds(s):
        if isinstance(s, ast.Assign):
            for t in s.targets:
                if is_name(t, name):
                    return (s, s.value)
                if name in assigned_names(t):
                    return (s, None)
        if isinstance(s, ast.AnnAssign) and is_name(s.target, name) and s.value is not None:
            return (s, s.value)
        if isinstance(s, ast.AugAssign) and is_name(s.target, name):
            return (s, None)
        return None

    class Done(Exception):
        pass

    def block(stmts, cur):
        for s in stmts:
            if s is tstmt:
                found.append(list(cur))
                raise Done()
            cur = stmt(s, cur)
        return cur

    def stmt(s, cur):
        b = binds(s)
        if b is not None:
            return [b]
        if isinstance(s, ast.If):
            a = block(s.body, list(cur))
            c = block(s.orelse, list(cur))
            out = list(a)
            for x in c:
                if x not in out:
                    out.append(x)
            return out
        if isinstance(s, (ast.For, ast.While)):
            start = list(cur)
            if isinstance(s, ast.For) and name in assigned_names(s.target):
                start = [(s, None)]
            # loop-carried definitions: anything bound in the body may reach its start
            inner = [binds(x) for x in ast.walk(ast.Module(body=s.body, type_ignores=[])) if isinstance(x, ast.stmt) and binds(x) is not None]
            st2 = start + [x for x in inner if x not in start]
            after = block(s.body, st2)
            out = list(cur)
            for x in after + st2:
                if x not in out:
                    out.append(x)
            return block(s.orelse, out) if s.orelse else out
        if isinstance(s, ast.With):
            return block(s.body, cur)
        if isinstance(s, ast.Try):
            a = block(s.body, list(cur))
            out = list(a)
            for h in s.handlers:
                for x in block(h.body, list(cur) + a):
                    if x not in out:
                        out.append(x)
            return block(s.finalbody, out) if s.finalbody else out
        return cur

    try:
        block(func_node.body, [])
    except Done:
        pass
    return found[0] if found else []


# ------------------------------------------------------------------ effective value of a variable at a statement
def _assigns(stmt: ast.stmt, target: str) -> bool:
    """Does `stmt` (or anything nested in it, own scope) bind `target` (a name or dotted attribute text)?"""
    for n in ast.walk(stmt):
        if isinstance(n, (ast.Assign, ast.AnnAssign, ast.AugAssign)):
            tg = n.targets if isinstance(n, ast.Assign) else [n.target]
            for t in tg:
                for x in ast.walk(t):
                    if isinstance(x, (ast.Name, ast.Attribute)) and isinstance(getattr(x, "ctx", None), ast.Store) and ast.unparse(x) == target:
                        return True
        if isinstance(n, (ast.For, ast.comprehension)) and any(isinstance(x, ast.Name) and x.id == target for x in ast.walk(n.target)):
            return True
        if isinstance(n, (ast.With,)):
            for it in n.items:
                if it.optional_vars is not None and any(isinstance(x, ast.Name) and x.id == target for x in ast.walk(it.optional_vars)):
                    return True
    return False


def value_cases(func_node: ast.AST, target: str, at: ast.stmt, pm: Optional[Dict] = None):
    """The value `target` holds when control reaches statement `at`, as a complete case split over the `if`s between its
    bindings and `at`:  [(conditions, value expression)], conditions being [(test, polarity)].  `x = a; if c: x = b` and
    `if c: x = b / else: x = a` give the same cases.  None when a binding sits in a loop / try / with or is not a plain
    assignment (the caller then cannot decide).  The conditions of `at` itself (its enclosing ifs) are not included."""
    pm = pm or parents(func_node)
    # the chain of statement lists from the function body down to `at`
    chain = []
    cur = at
    while cur is not func_node:
        par = pm.get(cur)
        if par is None:
            return None
        for fld in ("body", "orelse", "finalbody"):
            lst = getattr(par, fld, None)
            if isinstance(lst, list) and any(s is cur for s in lst):
                chain.append((par, lst, cur))
        cur = par
    # outermost block in which a binding of target precedes `at`
    start = None
    for par, lst, child in reversed(chain):
        idx = next(i for i, s in enumerate(lst) if s is child)
        if any(_assigns(s, target) for s in lst[:idx]):
            start = (par, lst, child)
            break
    if start is None:
        return None

    def simulate(stmts, cases, stop):
        for s in stmts:
            if s is stop:
                return cases, True
            if isinstance(s, ast.Assign) and len(s.targets) == 1 and ast.unparse(s.targets[0]) == target:
                cases = [([], s.value)]
                continue
            if isinstance(s, ast.AnnAssign) and s.value is not None and ast.unparse(s.target) == target:
                cases = [([], s.value)]
                continue
            if isinstance(s, ast.If):
                holds_stop = any(x is stop for x in ast.walk(s))
                if not _assigns(s, target) and not holds_stop:
                    continue
                if holds_stop:
                    # descend into the branch that leads to `at`
                    for pol, body in ((True, s.body), (False, s.orelse)):
                        if any(x is stop for b in body for x in ast.walk(b)):
                            return simulate(body, cases, stop)
                out = []
                for pol, body in ((True, s.body), (False, s.orelse)):
                    sub, _ = simulate(body, None if cases is None else [(list(c), v) for c, v in cases], stop)
                    if sub is None:
                        if any(_assigns(b, target) for b in body):
                            return None, False
                        continue
                    for c, v in sub:
                        out.append(([(s.test, pol)] + c if not any(t is s.test for t, _ in c) else c, v))
                # a branch that does not assign keeps the incoming cases under its own polarity
                cases = out
                continue
            if _assigns(s, target):
                return None, False
            if any(x is stop for x in ast.walk(s)):
                # `at` sits inside a loop / with / try that follows the bindings: the value is the one on entry
                body = [b for fld in ("body", "orelse", "finalbody") for b in (getattr(s, fld, None) or [])]
                return simulate(body, cases, stop)
        return cases, False

    par, lst, child = start
    init = None
    args = getattr(func_node, "args", None)
    if args is not None and target in {a.arg for a in args.posonlyargs + args.args + args.kwonlyargs}:
        init = [([], ast.Name(id=target, ctx=ast.Load()))]  # a parameter holds the caller's value until it is re-bound
    cases, _ = simulate(lst, init, at)
    return cases


def cases_dict(func_node: ast.AST, target: str, at: ast.stmt, norm, pm: Optional[Dict] = None) -> Optional[Dict[str, str]]:
    """value_cases as {condition in normal form: value text}; infeasible cases dropped; None when undecidable."""
    from .algebra import bool_key, simplify
    cs = value_cases(func_node, target, at, pm)
    if cs is None:
        return None
    out = {}
    for conds, v in cs:
        g = simplify(norm.conj(conds))
        if g == ("const", False):
            continue
        out[bool_key(g)] = u(v)
    return out


def single_assignments(func_node: ast.AST, names_only: bool = False, text: bool = True) -> Dict[str, object]:
    """{target text: value} for the plain assignments of the function; a target assigned more than once maps to
    "<assigned more than once>" (text) / None (nodes), so that a rule comparing against one expected value cannot be
    satisfied by whichever assignment happens to come last."""
    out: Dict[str, object] = {}
    many = set()
    for n in walk_own(func_node):
        if isinstance(n, ast.Assign) and len(n.targets) == 1 and (not names_only or isinstance(n.targets[0], ast.Name)):
            k = u(n.targets[0])
            if k in out:
                many.add(k)
            out[k] = u(n.value) if text else n.value
    for k in many:
        out[k] = "<assigned more than once>" if text else None
    return out


def return_cases(func_node: ast.AST, norm, pm: Optional[Dict] = None) -> Optional[Dict[str, str]]:
    """What the function returns, as {condition in normal form: value text}: every `return` with its path condition; a
    returned local is replaced by its effective value (value_cases).  `if c: x = A` + `return x`, `return A if c else x`
    and `if c: return A` + `return x` all give the same table.  None when some returned local cannot be resolved."""
    from .algebra import bool_key, simplify
    pm = pm or parents(func_node)
    out: Dict[str, str] = {}
    for r in walk_own(func_node):
        if not isinstance(r, ast.Return):
            continue
        conds = path_condition(func_node, r, pm)
        alts = [([], r.value)]
        if isinstance(r.value, ast.Name):
            cs = value_cases(func_node, r.value.id, r, pm)
            if cs is not None:
                alts = cs
        for c2, v in alts:
            g = simplify(norm.conj(list(conds) + list(c2)))
            if g == ("const", False):
                continue
            out[bool_key(g)] = u(v) if v is not None else "None"
    return out


def own_stores(func_node: ast.AST):
    """[(name, line)] of every binding in the function's own scope (comprehension / lambda variables excluded)."""
    out = []
    stack = list(ast.iter_child_nodes(func_node))
    while stack:
        n = stack.pop()
        if isinstance(n, (ast.FunctionDef, ast.AsyncFunctionDef, ast.Lambda, ast.ClassDef)):
            continue
        if isinstance(n, (ast.ListComp, ast.SetComp, ast.DictComp, ast.GeneratorExp)):
            stack.append(n.generators[0].iter)
            continue
        if isinstance(n, ast.Name) and isinstance(n.ctx, (ast.Store, ast.Del)):
            out.append((n.id, getattr(n, "lineno", 0)))
        stack.extend(ast.iter_child_nodes(n))
    return out


def free_names(e: ast.AST):
    """Names an expression reads from the enclosing scope (variables bound by its own comprehensions / lambdas excluded)."""
    bound = set()
    for n in ast.walk(e):
        if isinstance(n, ast.comprehension):
            bound |= {x.id for x in ast.walk(n.target) if isinstance(x, ast.Name)}
        elif isinstance(n, ast.Lambda):
            bound |= {a.arg for a in n.args.args}
    return {n.id for n in ast.walk(e) if isinstance(n, ast.Name)} - bound
