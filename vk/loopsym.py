"""One iteration of a loop, symbolically: every path through the body with its condition and its effect, written in
the values the variables had when the iteration started.

Rules about a counting loop (`take the next group; if it overshoots, split it`) should not care whether the body
appends first and takes back on overshoot, or tests first and appends only what fits.  Both spellings have the same
paths once each test and each result is expressed in the entry values:

    elected.append(g); n += len(g); if n > m: ...        test:  n0 + len(g) > m
    if n + len(g) > m: ...                               test:  n0 + len(g) > m

`run` walks the statements of the body, keeping for every assigned name an expression over entry values and for every
list a sequence of segments (the entry list, single elements, whole sequences added at the end).  An `if` forks; `raise`,
`return`, `break`, `continue` and the end of the body close a path.  Nothing is executed and no solver is involved: the
conditions are handed to the algebraic normaliser like any other guard.  A statement outside the handled forms raises
Unsupported (the caller reports the site as undecided)."""
from __future__ import annotations

import ast
import copy
from dataclasses import dataclass, field
from typing import Dict, List, Optional, Set, Tuple

from . import astx


class Unsupported(Exception):
    pass


@dataclass
class ListVal:
    segs: List[tuple]   # ("base", name) | ("elem", expr) | ("seq", expr)

    def copy(self):
        return ListVal([tuple(s) for s in self.segs])

    def text(self) -> str:
        out = []
        for s in self.segs:
            out.append(s[1] if s[0] == "base" else (f"[{astx.u(s[1])}]" if s[0] == "elem" else f"*{astx.u(s[1])}"))
        return " ++ ".join(out) if out else "[]"


@dataclass
class Outcome:
    kind: str                       # next | break | return | raise
    conds: List[Tuple[ast.AST, bool]]
    state: Dict[str, object]
    value: Optional[ast.AST]        # substituted return value / raised expression
    node: Optional[ast.AST]
    raw: Optional[ast.AST] = None   # the statement's own expression, before substitution


LIST_METHODS = {"append", "pop", "extend", "insert", "remove", "sort", "reverse", "clear"}


def list_vars(fnode: ast.AST) -> Set[str]:
    """Local names used as lists: built from a display / list() and grown by append / extend / +=."""
    out = set()
    for n in astx.walk_own(fnode):
        if isinstance(n, ast.Call) and isinstance(n.func, ast.Attribute) and n.func.attr in ("append", "extend", "pop") and isinstance(n.func.value, ast.Name):
            out.add(n.func.value.id)
        if isinstance(n, ast.Assign) and len(n.targets) == 1 and isinstance(n.targets[0], ast.Name):
            v = n.value
            if isinstance(v, ast.List) or (isinstance(v, ast.Call) and astx.u(v.func) == "list"):
                out.add(n.targets[0].id)
    return out


class _Sub(ast.NodeTransformer):
    def __init__(self, ex: "IterationExec", state):
        self.ex, self.state = ex, state

    def visit_Name(self, n):
        if isinstance(n.ctx, ast.Load) and n.id in self.state:
            v = self.state[n.id]
            if isinstance(v, ListVal):
                return self.ex.render(v)
            return copy.deepcopy(v)
        return n

    def _scoped(self, n, bound):
        saved = self.state
        self.state = {k: v for k, v in saved.items() if k not in bound}
        try:
            return self.generic_visit(n)
        finally:
            self.state = saved

    def visit_Lambda(self, n):
        return self._scoped(n, {a.arg for a in n.args.args})

    def _comp(self, n):
        bound = {x.id for g in n.generators for x in ast.walk(g.target) if isinstance(x, ast.Name)}
        return self._scoped(n, bound)

    visit_ListComp = visit_SetComp = visit_GeneratorExp = visit_DictComp = _comp


class IterationExec:
    def __init__(self, fnode: ast.AST, body: List[ast.stmt], lists: Optional[Set[str]] = None, max_paths: int = 256):
        self.fnode = fnode
        self.body = body
        self.lists = set(lists) if lists is not None else list_vars(fnode)
        self.max_paths = max_paths
        self.outcomes: List[Outcome] = []

    # ---------------------------------------------------------------- values
    def render(self, v: ListVal) -> ast.AST:
        parts = []
        for s in v.segs:
            if s[0] == "base":
                parts.append(ast.Name(id=s[1], ctx=ast.Load()))
            elif s[0] == "elem":
                parts.append(ast.List(elts=[copy.deepcopy(s[1])], ctx=ast.Load()))
            else:
                parts.append(ast.Call(func=ast.Name(id="list", ctx=ast.Load()), args=[copy.deepcopy(s[1])], keywords=[]))
        if not parts:
            return ast.List(elts=[], ctx=ast.Load())
        e = parts[0]
        for p in parts[1:]:
            e = ast.BinOp(left=e, op=ast.Add(), right=p)
        return ast.fix_missing_locations(e)

    def sub(self, e: ast.AST, state) -> ast.AST:
        return ast.fix_missing_locations(_Sub(self, state).visit(copy.deepcopy(e)))

    def get_list(self, name: str, state) -> ListVal:
        v = state.get(name)
        if isinstance(v, ListVal):
            return v.copy()
        if v is None:
            return ListVal([("base", name)])
        raise Unsupported(f"`{name}` is used as a list but holds {astx.u(v)[:40]}")

    def as_list(self, e: ast.AST, state) -> ListVal:
        """The sequence an expression denotes, as segments (tuple()/list() wrappers are transparent)."""
        e = astx.strip_wrappers(e, ("tuple", "list"))
        if isinstance(e, ast.Name) and (e.id in self.lists or isinstance(state.get(e.id), ListVal)):
            return self.get_list(e.id, state)
        if isinstance(e, ast.Name) and isinstance(state.get(e.id), ast.AST):
            # a sequence held in a plain local (a tuple grown with +): its value is already in entry values
            return self.as_list(state[e.id], {})
        if isinstance(e, ast.List):
            return ListVal([("elem", self.sub(x, state)) for x in e.elts])
        if isinstance(e, ast.BinOp) and isinstance(e.op, ast.Add):
            return ListVal(self.as_list(e.left, state).segs + self.as_list(e.right, state).segs)
        return ListVal([("seq", self.sub(e, state))])

    # ---------------------------------------------------------------- execution
    def run(self) -> List[Outcome]:
        self.outcomes = []
        self._block(list(self.body), {}, [], top=True)
        return self.outcomes

    def _close(self, kind, conds, state, value=None, node=None, raw=None):
        if len(self.outcomes) >= self.max_paths:
            raise Unsupported("too many paths through the loop body")
        self.outcomes.append(Outcome(kind, list(conds), dict(state), value, node, raw))

    def _block(self, stmts: List[ast.stmt], state, conds, top=False, cont=None):
        """cont: statements that follow this block in the enclosing block(s) (run when the block falls through)."""
        cont = cont or []
        for i, s in enumerate(stmts):
            rest = stmts[i + 1:]
            if isinstance(s, ast.If):
                t = self.sub(s.test, state)
                self._block(list(s.body), dict(state), conds + [(t, True)], cont=rest + cont)
                self._block(list(s.orelse), dict(state), conds + [(t, False)], cont=rest + cont)
                return
            if isinstance(s, ast.Raise):
                self._close("raise", conds, state, self.sub(s.exc, state) if s.exc is not None else None, s, s.exc)
                return
            if isinstance(s, ast.Return):
                self._close("return", conds, state, self.sub(s.value, state) if s.value is not None else None, s, s.value)
                return
            if isinstance(s, ast.Continue):
                self._close("next", conds, state, None, s)
                return
            if isinstance(s, ast.Break):
                self._close("break", conds, state, None, s)
                return
            state = self._simple(s, state)
        if cont:
            self._block(list(cont), state, conds)
        else:
            self._close("next", conds, state, None, None)

    def _simple(self, s: ast.stmt, state):
        state = dict(state)
        if isinstance(s, ast.Pass):
            return state
        if isinstance(s, ast.Expr):
            c = s.value
            if isinstance(c, ast.Constant):
                return state
            if isinstance(c, ast.Call) and isinstance(c.func, ast.Attribute) and isinstance(c.func.value, ast.Name) and c.func.attr in LIST_METHODS \
                    and (c.func.value.id in self.lists or isinstance(state.get(c.func.value.id), ListVal)):
                name = c.func.value.id
                lv = self.get_list(name, state)
                if c.func.attr == "append" and len(c.args) == 1:
                    lv.segs.append(("elem", self.sub(c.args[0], state)))
                elif c.func.attr == "extend" and len(c.args) == 1:
                    lv.segs.extend(self.as_list(c.args[0], state).segs)
                elif c.func.attr == "pop" and not c.args:
                    if not lv.segs or lv.segs[-1][0] != "elem":
                        raise Unsupported(f"{name}.pop() when the last element of {name} is not known")
                    lv.segs.pop()
                else:
                    raise Unsupported(f"list operation `{astx.u(c)[:50]}`")
                state[name] = lv
                return state
            if isinstance(c, ast.Call) and astx.u(c.func) == "print":
                return state
            raise Unsupported(f"statement `{astx.u(s)[:60]}`")
        if isinstance(s, ast.AugAssign) and isinstance(s.target, ast.Name):
            name = s.target.id
            if name in self.lists or isinstance(state.get(name), ListVal):
                if not isinstance(s.op, ast.Add):
                    raise Unsupported(f"`{astx.u(s)[:50]}` on a list")
                lv = self.get_list(name, state)
                lv.segs.extend(self.as_list(s.value, state).segs)
                state[name] = lv
                return state
            cur = state.get(name, ast.Name(id=name, ctx=ast.Load()))
            state[name] = ast.fix_missing_locations(ast.BinOp(left=copy.deepcopy(cur), op=s.op, right=self.sub(s.value, state)))
            return state
        if isinstance(s, (ast.Assign, ast.AnnAssign)):
            tgts = s.targets if isinstance(s, ast.Assign) else [s.target]
            if s.value is None:
                return state
            if len(tgts) == 1 and isinstance(tgts[0], ast.Name):
                name = tgts[0].id
                v = s.value
                if isinstance(v, ast.List) or (isinstance(v, ast.Call) and astx.u(v.func) == "list" and len(v.args) <= 1) or name in self.lists:
                    if isinstance(v, ast.Call) and astx.u(v.func) == "list" and not v.args:
                        state[name] = ListVal([])
                    else:
                        state[name] = self.as_list(v, state)
                    self.lists.add(name)
                else:
                    state[name] = self.sub(v, state)
                return state
            # a, b = x, y  (no later element reads an earlier target): one assignment per element
            if len(tgts) == 1 and isinstance(tgts[0], ast.Tuple) and isinstance(s.value, ast.Tuple) and len(tgts[0].elts) == len(s.value.elts) \
                    and all(isinstance(t, ast.Name) for t in tgts[0].elts):
                names = [t.id for t in tgts[0].elts]
                vals = [self.sub(v, state) for v in s.value.elts]   # all evaluated before any target is bound
                for nm, v0, v in zip(names, s.value.elts, vals):
                    if isinstance(v0, ast.List) or (isinstance(v0, ast.Call) and astx.u(v0.func) == "list") or nm in self.lists:
                        state[nm] = self.as_list(v0, {k: w for k, w in state.items() if k not in names})
                        self.lists.add(nm)
                    else:
                        state[nm] = v
                return state
            raise Unsupported(f"assignment `{astx.u(s)[:60]}`")
        raise Unsupported(f"statement `{astx.u(s)[:60]}`")
