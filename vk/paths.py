"""Structured path summaries: how many *events* occur on each path to each exit of a function,
under a (partial) valuation of guard atoms.  Used for must-pass-through / exactly-n rules."""
from __future__ import annotations

import ast
from typing import Callable, Dict, List, Optional, Sequence, Tuple

from . import astx
from .algebra import Normalizer, simplify

INF = 10 ** 6


class Exit:
    def __init__(self, kind: str, node: Optional[ast.AST], lo: int, hi: int, conds: List[Tuple[ast.AST, bool]]):
        self.kind, self.node, self.lo, self.hi, self.conds = kind, node, lo, hi, conds

    def __repr__(self):
        return f"{self.kind}@{getattr(self.node, 'lineno', '?')}[{self.lo},{self.hi}]"


def explicit_skips(stmts):
    """A block whose last statement is `if T: REST` (no else) as `if not T: continue` followed by REST, recursively: the
    path that skips REST becomes an exit of its own, with its condition (fall-off exits carry none)."""
    import copy
    stmts = list(stmts)
    if stmts and isinstance(stmts[-1], ast.If) and not stmts[-1].orelse:
        last = stmts[-1]
        skip = ast.copy_location(ast.If(test=ast.copy_location(ast.UnaryOp(op=ast.Not(), operand=copy.deepcopy(last.test)), last.test),
                                        body=[ast.copy_location(ast.Continue(), last)], orelse=[]), last)
        return stmts[:-1] + [skip] + explicit_skips(last.body)
    return stmts


class PathCounter:
    """is_event(node) is consulted on every statement and on every expression node in it."""

    def __init__(self, fn: ast.AST, is_event: Callable[[ast.AST], bool],
                 fact: Optional[Callable[[str], Optional[bool]]] = None):
        self.fn = fn
        self.is_event = is_event
        self.fact = fact or (lambda a: None)
        self.norm = Normalizer(fn, inline=False)
        self.exits: List[Exit] = []
        self.stack: List[Tuple[ast.AST, bool]] = []
        self.loop_depth = 0  # break / continue outside any loop of `fn` (fn is a loop body) are exits too

    def run(self) -> List[Exit]:
        out = self._block(self.fn.body, [(0, 0)])
        for lo, hi in out[0]:
            self.exits.append(Exit("fall-off", None, lo, hi, list(self.stack)))
        return self.exits

    def _events(self, s: ast.AST) -> int:
        n = 0
        for x in ast.walk(s):
            if isinstance(x, astx.FuncNode):
                continue
            if self.is_event(x):
                n += 1
        return n

    def _events_shallow(self, s: ast.stmt) -> int:
        """events in the statement's own expressions (not nested statement bodies)."""
        n = 1 if self.is_event(s) else 0
        for field, val in ast.iter_fields(s):
            vals = val if isinstance(val, list) else [val]
            for v in vals:
                if isinstance(v, ast.expr):
                    for x in ast.walk(v):
                        if self.is_event(x):
                            n += 1
                elif isinstance(v, ast.withitem):
                    for x in ast.walk(v):
                        if isinstance(x, ast.expr) and self.is_event(x):
                            n += 1
        return n

    def _eval(self, test: ast.AST) -> Optional[bool]:
        g = simplify(self.norm.guard(test))
        return _eval3(g, self.fact)

    @staticmethod
    def _add(states, k):
        return [(lo + k, min(INF, hi + k)) for lo, hi in states]

    @staticmethod
    def _merge(a, b):
        out = list(a)
        for x in b:
            if x not in out:
                out.append(x)
        return out

    def _block(self, stmts: Sequence[ast.stmt], states):
        """returns (normal states, break states, continue states)"""
        brk, cont = [], []
        for s in stmts:
            if not states:
                break
            states, b, c = self._stmt(s, states)
            brk = self._merge(brk, b)
            cont = self._merge(cont, c)
        return states, brk, cont

    def _stmt(self, s: ast.stmt, states):
        k = self._events_shallow(s)
        states = self._add(states, k)
        if isinstance(s, ast.Return):
            for lo, hi in states:
                self.exits.append(Exit("return", s, lo, hi, list(self.stack)))
            return [], [], []
        if isinstance(s, ast.Raise):
            for lo, hi in states:
                self.exits.append(Exit("raise", s, lo, hi, list(self.stack)))
            return [], [], []
        if isinstance(s, ast.Break):
            if self.loop_depth == 0:
                for lo, hi in states:
                    self.exits.append(Exit("break", s, lo, hi, list(self.stack)))
            return [], states, []
        if isinstance(s, ast.Continue):
            if self.loop_depth == 0:
                for lo, hi in states:
                    self.exits.append(Exit("continue", s, lo, hi, list(self.stack)))
            return [], [], states
        if isinstance(s, ast.If):
            r = self._eval(s.test)
            out, brk, cont = [], [], []
            for pol, body in ((True, s.body), (False, s.orelse)):
                if r is not None and r != pol:
                    continue
                self.stack.append((s.test, pol))
                o, b, c = self._block(body, states)
                self.stack.pop()
                out = self._merge(out, o)
                brk = self._merge(brk, b)
                cont = self._merge(cont, c)
            return out, brk, cont
        if isinstance(s, (ast.For, ast.While)):
            r = self._eval(s.test) if isinstance(s, ast.While) else None
            self.loop_depth += 1
            try:
                o, b, c = self._block(s.body, states) if r is not False else ([], [], [])
            finally:
                self.loop_depth -= 1
            once = self._merge(o, c)
            # zero iterations keep `states`; more iterations: if the body can add events the
            # upper bound is unbounded, the lower bound is that of zero iterations
            res = [] if r is True else list(states)
            for lo0, hi0 in states:
                for lo1, hi1 in once:
                    if hi1 > hi0:
                        res = self._merge(res, [(lo0, INF)] if r is not True else [(lo1, INF)])
                    else:
                        res = self._merge(res, [(lo1, hi1)])
            if s.orelse and res:
                res, b2, c2 = self._block(s.orelse, res)
            else:
                b2, c2 = [], []
            res = self._merge(res, b)
            return res, b2, c2
        if isinstance(s, ast.With):
            return self._block(s.body, states)
        if isinstance(s, ast.Try):
            o, b, c = self._block(s.body, states)
            if s.orelse and o:
                o, b1, c1 = self._block(s.orelse, o)
                b, c = self._merge(b, b1), self._merge(c, c1)
            for h in s.handlers:
                ho, hb, hc = self._block(h.body, states)
                o, b, c = self._merge(o, ho), self._merge(b, hb), self._merge(c, hc)
            if s.finalbody and o:
                o, fb, fc = self._block(s.finalbody, o)
                b, c = self._merge(b, fb), self._merge(c, fc)
            return o, b, c
        return states, [], []


def _eval3(g, fact) -> Optional[bool]:
    if g[0] == "const":
        return g[1]
    if g[0] == "atom":
        return fact(g[1])
    if g[0] == "not":
        r = _eval3(g[1], fact)
        return None if r is None else not r
    vals = [_eval3(x, fact) for x in g[1]]
    if g[0] == "and":
        if any(v is False for v in vals):
            return False
        return True if all(v is True for v in vals) else None
    if any(v is True for v in vals):
        return True
    return False if all(v is False for v in vals) else None
