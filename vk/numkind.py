"""Numeric-kind abstract interpretation (DESIGN §3.5): where can an inexact float *created inside
the library* reach an exact-rational sink?

Kinds: INT, FRAC, FIN (float that came from outside: parameter, literal, numpy), FLIB (float
created by the library itself: true division of two possibly-int operands, float(), math.*),
BOOL, OTHER.  Containers carry the join of their element kinds.  Flow-insensitive per function
(all bindings of a local are joined), iterated to a fixpoint.
"""
from __future__ import annotations

import ast
from typing import Dict, FrozenSet, List, Optional, Tuple

from . import astx
from .loader import Program, Func

INT, FRAC, FIN, FLIB, BOOL, OTHER = "Int", "Frac", "FloatIn", "FloatLib", "Bool", "Other"
# the integer literal 0 (the start value of an accumulator) and the float it yields when divided by an int:
# 0 / n is 0.0, which converts to an exact rational - unlike any other int / int
ZERO, ZEROF = "Zero", "ZeroFloat"
NUMERIC = frozenset({INT, FRAC, FIN, FLIB, ZERO, ZEROF})


class K:
    __slots__ = ("kinds", "elem")

    def __init__(self, kinds=(), elem: Optional[FrozenSet[str]] = None):
        self.kinds: FrozenSet[str] = frozenset(kinds)
        self.elem: Optional[FrozenSet[str]] = frozenset(elem) if elem is not None else None

    def join(self, o: "K") -> "K":
        e = None
        if self.elem is not None or o.elem is not None:
            e = (self.elem or frozenset()) | (o.elem or frozenset())
        return K(self.kinds | o.kinds, e)

    def __eq__(self, o):
        return isinstance(o, K) and self.kinds == o.kinds and self.elem == o.elem

    def __repr__(self):
        s = "|".join(sorted(self.kinds)) or "?"
        if self.elem is not None:
            s += "[" + ("|".join(sorted(self.elem)) or "?") + "]"
        return s

    def may(self, k: str) -> bool:
        return k in self.kinds

    def elems(self) -> "K":
        return K(self.elem or ())


UNKNOWN = K()

FRAC_ATTRS = {"weight": K({FRAC}), "total_ballot_wt": K({FRAC}), "num_ballots": K({INT}),
              "scores": K({OTHER}, {FRAC}), "m": K({INT}), "threshold": K({INT}), "round_number": K({INT})}


def kinds_of_annotation(a: Optional[ast.AST]) -> K:
    if a is None:
        return UNKNOWN
    s = astx.u(a)
    base = set()
    elem = None
    import re
    # container annotations
    m = re.match(r"(?:typing\.)?(?:Sequence|list|List|tuple|Tuple|Iterable|dict|Dict)\[(.*)\]$", s)
    if m:
        inner = m.group(1)
        if s.startswith(("dict", "Dict")) and "," in inner:
            inner = inner.split(",", 1)[1]
        ik = _scalar_kinds(inner)
        return K({OTHER}, ik)
    if s.startswith("Optional["):
        return kinds_of_annotation(ast.parse(s[len("Optional["):-1], mode="eval").body)
    return K(_scalar_kinds(s))


def _scalar_kinds(s: str) -> FrozenSet[str]:
    out = set()
    if "Fraction" in s:
        out.add(FRAC)
    if "float" in s:
        # int is acceptable wherever float is annotated (PEP 484 numeric tower; the repository's own tests pass ints)
        out.update({FIN, INT})
    import re
    if re.search(r"\bint\b", s):
        out.add(INT)
    if "bool" in s:
        out.add(BOOL)
    if not out:
        out.add(OTHER)
    return frozenset(out)


def arith(op: ast.operator, l: K, r: K) -> K:
    lk, rk = l.kinds & NUMERIC | ({INT} if BOOL in l.kinds else set()), r.kinds & NUMERIC | ({INT} if BOOL in r.kinds else set())
    if not lk or not rk:
        # sequence arithmetic: list + list, list * int
        if l.elem is not None or r.elem is not None:
            return K({OTHER}, (l.elem or frozenset()) | (r.elem or frozenset()))
        return UNKNOWN
    out = set()
    for a in lk:
        for b in rk:
            out.add(_arith1(op, a, b))
    return K(out)


def _arith1(op, a: str, b: str) -> str:
    if isinstance(op, (ast.Add, ast.Sub)):
        if a == ZERO:
            return b if b != ZEROF else ZEROF
        if b == ZERO:
            return a
    if isinstance(op, ast.Div) and a == ZERO and b in (INT, ZERO):
        return ZEROF
    if isinstance(op, ast.Mult) and ZERO in (a, b) and INT in (a, b):
        return ZERO
    a = INT if a == ZERO else (FLIB if a == ZEROF else a)
    b = INT if b == ZERO else (FLIB if b == ZEROF else b)
    if FLIB in (a, b):
        return FLIB
    if isinstance(op, ast.Div):
        if a == INT and b == INT:
            return FLIB
        if FIN in (a, b):
            return FIN
        return FRAC
    if isinstance(op, (ast.FloorDiv, ast.Mod)):
        if a == INT and b == INT:
            return INT
        if FIN in (a, b):
            return FIN
        return FRAC if isinstance(op, ast.Mod) else INT
    if isinstance(op, ast.Pow):
        if a == INT and b == INT:
            return INT
        if FIN in (a, b):
            return FIN
        if b == FRAC:
            return FLIB  # fractional power of a rational is a float
        return FRAC
    # + - *
    if FIN in (a, b):
        return FIN
    if FRAC in (a, b):
        return FRAC
    return INT


class Event:
    def __init__(self, kind: str, node: ast.AST, detail: str):
        self.kind, self.node, self.detail = kind, node, detail


class NumKind:
    """Analyse one function. `returns(qualname)` supplies summaries of package callees."""

    def __init__(self, prog: Program, f: Func, param_kinds: Optional[Dict[str, K]] = None):
        self.prog, self.f = prog, f
        self.env: Dict[str, K] = {}
        self.events: List[Event] = []
        self._seen_events = set()
        a = f.node.args
        for p in a.posonlyargs + a.args + a.kwonlyargs:
            self.env[p.arg] = (param_kinds or {}).get(p.arg) or kinds_of_annotation(p.annotation)
        self.frac_containers = set()

    # ------------------------------------------------------------------ driver
    def run(self) -> "NumKind":
        # names whose every binding is a top-level statement of the function get strong (flow-
        # sensitive) updates: `x = Fraction(x)` at the top of a function really replaces x
        top = set()
        nested = set()
        for n in astx.walk_own(self.f.node):
            if isinstance(n, (ast.Assign, ast.AnnAssign, ast.AugAssign, ast.For, ast.comprehension, ast.With)):
                tg = n.targets if isinstance(n, ast.Assign) else [getattr(n, "target", None)]
                names = [x for t in tg if t is not None for x in astx.assigned_names(t)]
                is_top = isinstance(n, (ast.Assign, ast.AnnAssign)) and n in self.f.node.body
                for x in names:
                    (top if is_top else nested).add(x)
        self.strong = top - nested
        initial = dict(self.env)
        for _ in range(4):
            before = dict(self.env)
            for x in self.strong:
                if x in initial:
                    self.env[x] = initial[x]
                else:
                    self.env.pop(x, None)
            self.events = []
            self._seen_events = set()
            self._walk_body()
            if before == self.env:
                break
        return self

    def _bind(self, target: ast.AST, k: K):
        if isinstance(target, ast.Name):
            if target.id in getattr(self, "strong", ()):
                self.env[target.id] = k
                return
            self.env[target.id] = self.env.get(target.id, UNKNOWN).join(k)
        elif isinstance(target, (ast.Tuple, ast.List)):
            for el in target.elts:
                self._bind(el, k.elems() if k.elem is not None else UNKNOWN)
        elif isinstance(target, ast.Subscript) and isinstance(target.value, ast.Name):
            nm = target.value.id
            cur = self.env.get(nm, UNKNOWN)
            self.env[nm] = cur.join(K({OTHER}, k.kinds))

    def _bind_loop(self, target: ast.AST, it: ast.AST):
        """for target in it"""
        if isinstance(it, ast.Call):
            fn = astx.u(it.func)
            if fn == "enumerate" and it.args and isinstance(target, (ast.Tuple, ast.List)) and len(target.elts) == 2:
                self._bind(target.elts[0], K({INT}))
                self._bind_loop(target.elts[1], it.args[0])
                return
            if fn.endswith(".items") and isinstance(target, (ast.Tuple, ast.List)) and len(target.elts) == 2:
                base = self.eval(it.func.value)
                self._bind(target.elts[0], K({OTHER}))
                self._bind(target.elts[1], base.elems())
                return
            if fn == "zip" and isinstance(target, (ast.Tuple, ast.List)) and len(target.elts) == len(it.args):
                for t, a in zip(target.elts, it.args):
                    self._bind(t, self.eval(a).elems())
                return
            if fn == "range":
                self._bind(target, K({INT}))
                return
        k = self.eval(it)
        self._bind(target, k.elems() if k.elem is not None else UNKNOWN)

    def _walk_body(self):
        for n in astx.walk_own(self.f.node):
            if isinstance(n, ast.Assign):
                k = self.eval(n.value)
                for t in n.targets:
                    self._bind(t, k)
                    self._sink_store(t, n.value, k)
            elif isinstance(n, ast.AnnAssign) and n.value is not None:
                k = self.eval(n.value)
                self._bind(n.target, k)
            elif isinstance(n, ast.AugAssign):
                cur = self.eval(n.target)
                k = arith(n.op, cur, self.eval(n.value)) if not isinstance(n.op, ast.Add) or cur.kinds & NUMERIC else cur.join(self.eval(n.value))
                self._bind(n.target, k)
                self._sink_store(n.target, n.value, self.eval(n.value))
            elif isinstance(n, ast.For):
                self._bind_loop(n.target, n.iter)
            elif isinstance(n, ast.comprehension):
                self._bind_loop(n.target, n.iter)
            elif isinstance(n, ast.Call):
                self._sink_call(n)
            elif isinstance(n, ast.Return) and n.value is not None:
                self.ret = getattr(self, "ret", UNKNOWN).join(self.eval(n.value))

    # ------------------------------------------------------------------ sinks
    def _event(self, kind, node, detail):
        key = (kind, getattr(node, "lineno", 0), getattr(node, "col_offset", 0))
        if key not in self._seen_events:
            self._seen_events.add(key)
            self.events.append(Event(kind, node, detail))

    def _sink_call(self, c: ast.Call):
        fn = astx.u(c.func)
        if fn == "Fraction" and len(c.args) >= 1:
            for a in c.args:
                k = self.eval(a)
                if k.may(FLIB):
                    self._event("launder", c, f"Fraction({astx.u(a)[:60]}) where the argument may be a float created by the library ({k}); "
                                f"origin: {self._origin(a)}")
        if astx.call_name(c) == "Ballot":
            for kw in c.keywords:
                if kw.arg in ("weight", "scores"):
                    k = self.eval(kw.value)
                    kk = k.elems() if kw.arg == "scores" and k.elem is not None else k
                    if kk.may(FLIB):
                        self._event("sink", c, f"Ballot({kw.arg}={astx.u(kw.value)[:60]}) receives a library-created float ({kk}); origin: {self._origin(kw.value)}")

    def _sink_store(self, target: ast.AST, value: ast.AST, k: K):
        # accumulators of exact values: X[...] (+)= e where X otherwise holds Fractions
        if isinstance(target, ast.Subscript) and isinstance(target.value, ast.Name):
            cur = self.env.get(target.value.id, UNKNOWN)
            if cur.elem is not None and FRAC in cur.elem and k.may(FLIB):
                self._event("sink", target, f"{astx.u(target)[:40]} accumulates exact rationals but receives a library-created float ({k}); origin: {self._origin(value)}")

    def _origin(self, e: ast.AST) -> str:
        """The division / conversion that creates the float (follows one level of locals)."""
        for n in ast.walk(e):
            if isinstance(n, ast.BinOp) and isinstance(n.op, ast.Div):
                l, r = self.eval(n.left), self.eval(n.right)
                if arith(n.op, l, r).may(FLIB):
                    return f"`{astx.u(n)[:70]}` ({l} / {r}) at line {n.lineno}"
            if isinstance(n, ast.Call) and astx.u(n.func) == "float":
                return f"`{astx.u(n)[:60]}` at line {n.lineno}"
            if isinstance(n, ast.Name) and n.id in self.env and self.env[n.id].may(FLIB):
                for st, dv in astx.defs_of(self.f.node, n.id):
                    if dv is not None and dv is not e:
                        o = self._origin(dv)
                        if o:
                            return o
        return ""

    # ------------------------------------------------------------------ expressions
    def eval(self, e: ast.AST) -> K:
        if isinstance(e, ast.Constant):
            v = e.value
            if isinstance(v, bool):
                return K({BOOL})
            if isinstance(v, int):
                return K({ZERO}) if v == 0 else K({INT})
            if isinstance(v, float):
                return K({FIN})
            return K({OTHER})
        if isinstance(e, ast.Name):
            return self.env.get(e.id, UNKNOWN)
        if isinstance(e, ast.Attribute):
            if e.attr in FRAC_ATTRS:
                return FRAC_ATTRS[e.attr]
            return UNKNOWN
        if isinstance(e, ast.UnaryOp):
            if isinstance(e.op, ast.Not):
                return K({BOOL})
            return self.eval(e.operand)
        if isinstance(e, ast.BinOp):
            return arith(e.op, self.eval(e.left), self.eval(e.right))
        if isinstance(e, (ast.Compare, ast.BoolOp)):
            return K({BOOL})
        if isinstance(e, ast.IfExp):
            return self.eval(e.body).join(self.eval(e.orelse))
        if isinstance(e, (ast.List, ast.Tuple, ast.Set)):
            el = frozenset()
            for x in e.elts:
                k = self.eval(x.value if isinstance(x, ast.Starred) else x)
                el |= k.kinds if not isinstance(x, ast.Starred) else (k.elem or frozenset())
            return K({OTHER}, el)
        if isinstance(e, ast.Dict):
            el = frozenset()
            for v in e.values:
                el |= self.eval(v).kinds
            return K({OTHER}, el)
        if isinstance(e, (ast.ListComp, ast.SetComp, ast.GeneratorExp)):
            for g in e.generators:
                self._bind_loop(g.target, g.iter)
            return K({OTHER}, self.eval(e.elt).kinds)
        if isinstance(e, ast.DictComp):
            for g in e.generators:
                self._bind_loop(g.target, g.iter)
            return K({OTHER}, self.eval(e.value).kinds)
        if isinstance(e, ast.Subscript):
            base = self.eval(e.value)
            if isinstance(e.slice, ast.Slice):
                return base
            return base.elems() if base.elem is not None else UNKNOWN
        if isinstance(e, ast.Call):
            return self._call(e)
        if isinstance(e, ast.Starred):
            return self.eval(e.value)
        return UNKNOWN

    def _call(self, c: ast.Call) -> K:
        fn = astx.u(c.func)
        args = c.args
        if fn in ("len", "int", "math.factorial", "factorial", "round") and fn != "round":
            return K({INT})
        if fn == "round":
            return K({INT}) if len(args) == 1 else self.eval(args[0])
        if fn in ("math.floor", "math.ceil", "floor", "ceil"):
            return K({INT})
        if fn == "range":
            return K({OTHER}, {INT})
        if fn == "Fraction":
            return K({FRAC})
        if fn == "float":
            return K({FLIB}) if args and (self.eval(args[0]).kinds - {FIN}) else K({FIN})
        if fn.startswith(("math.", "np.", "numpy.")):
            return K({FLIB}) if fn.startswith("math.") else K({FIN}, {FIN})
        if fn in ("abs", "min", "max"):
            k = UNKNOWN
            for a in args:
                ak = self.eval(a)
                k = k.join(ak.elems() if (ak.elem is not None and len(args) == 1) else ak)
            return K(k.kinds)
        if fn == "sum" and args:
            ak = self.eval(args[0])
            k = ak.elems() if ak.elem is not None else UNKNOWN
            if len(args) > 1:
                k = k.join(self.eval(args[1]))
            return K(k.kinds)
        if fn in ("list", "tuple", "set", "frozenset", "sorted", "reversed") and args:
            ak = self.eval(args[0])
            return K({OTHER}, ak.elem if ak.elem is not None else frozenset())
        if fn == "cast" and len(args) == 2:
            return self.eval(args[1])
        if fn.endswith(".values") and isinstance(c.func, ast.Attribute):
            b = self.eval(c.func.value)
            return K({OTHER}, b.elem if b.elem is not None else frozenset())
        if fn.endswith(".limit_denominator"):
            return K({FRAC})
        if fn.endswith(".copy") and isinstance(c.func, ast.Attribute):
            return self.eval(c.func.value)
        # package callee: return annotation
        q = self.prog.resolve_expr(self.f.module, c.func)
        if q and q in self.prog.functions:
            return kinds_of_annotation(getattr(self.prog.functions[q].node, "returns", None))
        return UNKNOWN


def exactness_events(prog: Program, f: Func, param_kinds: Optional[Dict[str, K]] = None) -> List[Event]:
    return NumKind(prog, f, param_kinds).run().events


def inexact_divisions(prog: Program, f: Func) -> List[Tuple[ast.BinOp, K, K]]:
    """True divisions in f that may create a float from two exact/int operands."""
    nk = NumKind(prog, f).run()
    out = []
    for n in astx.walk_own(f.node):
        if isinstance(n, ast.BinOp) and isinstance(n.op, ast.Div):
            l, r = nk.eval(n.left), nk.eval(n.right)
            if arith(n.op, l, r).may(FLIB) and not (l.may(FLIB) or r.may(FLIB)):
                out.append((n, l, r))
    return out
