"""How a list (or a running sum) is built, independent of spelling.

    map        [E(x) for x in XS]                    L = []; for x in XS: L.append(E(x))
                                                    L = [Z] * n; for i, x in enumerate(XS): L[i] = E(x)
    flat-map   [y for x in XS for y in F(x)]         L = []; for x in XS: L += F(x)      (or L.extend(F(x)))
    sum        sum(E(x) for x in XS)                 t = 0; for x in XS: t += E(x)

`build_of` / `sum_of` report (kind, XS, the loop variable, E or F, whether some iteration is skipped), or None when the
construction is none of these (the caller then cannot decide)."""
from __future__ import annotations

import ast
from dataclasses import dataclass
from typing import Optional

from . import astx


@dataclass
class Build:
    kind: str            # "map" | "flatmap" | "sum"
    iter: ast.AST        # XS
    var: str             # x (text of the loop target)
    elt: ast.AST         # E(x) / F(x)
    conditional: bool    # an `if` filter / a conditional append: not every x contributes
    node: ast.AST
    loop: Optional[ast.AST] = None   # the For statement when built by a loop

    def filter_literals(self, fnode: ast.AST, norm) -> set:
        """The conditions under which an x contributes, as literals in normal form (empty set: every x)."""
        from .algebra import literals
        if isinstance(self.node, (ast.ListComp, ast.GeneratorExp, ast.SetComp)):
            conds = [(t, True) for g in self.node.generators for t in g.ifs]
            return literals(norm.conj(conds)) if conds else set()
        pm = astx.parents(fnode)
        conds = [c for c in astx.path_condition(fnode, self.node, pm) if self.loop is not None and any(x is c[0] for x in ast.walk(self.loop))]
        return literals(norm.conj(conds)) if conds else set()


def _strip(e: ast.AST) -> ast.AST:
    while isinstance(e, ast.Call) and isinstance(e.func, ast.Name) and e.func.id in ("tuple", "list") and len(e.args) == 1 and not e.keywords:
        e = e.args[0]
    return e


def _enumerate_target(lp: ast.For):
    """(index name or None, element target text, iterable)"""
    if isinstance(lp.iter, ast.Call) and astx.u(lp.iter.func) == "enumerate" and len(lp.iter.args) == 1 and isinstance(lp.target, ast.Tuple) and len(lp.target.elts) == 2 \
            and isinstance(lp.target.elts[0], ast.Name):
        return lp.target.elts[0].id, astx.u(lp.target.elts[1]), lp.iter.args[0]
    return None, astx.u(lp.target), lp.iter


def build_of(fnode: ast.AST, e: ast.AST, depth: int = 0) -> Optional[Build]:
    """How the list denoted by expression `e` (a comprehension, or a local name) is built."""
    e = _strip(e)
    if depth > 4 or e is None:
        return None
    if isinstance(e, (ast.ListComp, ast.GeneratorExp, ast.SetComp)):
        gs = e.generators
        if len(gs) == 1:
            return Build("map", gs[0].iter, astx.u(gs[0].target), e.elt, bool(gs[0].ifs), e)
        if len(gs) == 2 and isinstance(gs[1].target, ast.Name) and astx.is_name(e.elt, gs[1].target.id):
            return Build("flatmap", gs[0].iter, astx.u(gs[0].target), gs[1].iter, bool(gs[0].ifs or gs[1].ifs), e)
        return None
    if not isinstance(e, ast.Name):
        return None
    name = e.id
    pm = astx.parents(fnode)
    defs = [(st, dv) for st, dv in astx.defs_of(fnode, name) if not isinstance(st, ast.AugAssign)]
    augs = [st for st, _ in astx.defs_of(fnode, name) if isinstance(st, ast.AugAssign)]
    if len(defs) != 1 or defs[0][1] is None:
        return None
    init = _strip(defs[0][1])
    apps = [c for c in astx.walk_own(fnode) if isinstance(c, ast.Call) and isinstance(c.func, ast.Attribute) and astx.is_name(c.func.value, name) and c.func.attr in ("append", "extend", "add", "update")]
    fills = [s for s in astx.walk_own(fnode) if isinstance(s, ast.Assign) and len(s.targets) == 1 and isinstance(s.targets[0], ast.Subscript) and astx.is_name(s.targets[0].value, name)]
    others = [n for n in astx.walk_own(fnode) if isinstance(n, ast.Attribute) and astx.is_name(n.value, name) and n.attr in ("insert", "pop", "remove", "sort", "reverse", "clear")]
    if others:
        return None
    if isinstance(init, (ast.ListComp, ast.GeneratorExp, ast.SetComp)) and not apps and not fills and not augs:
        return build_of(fnode, init, depth + 1)
    if isinstance(init, ast.Name) and init.id != name and not apps and not fills and not augs:
        return build_of(fnode, init, depth + 1)   # another name for a list built elsewhere in the function
    empty_set = isinstance(init, ast.Call) and astx.u(init.func) == "set" and not init.args
    if (isinstance(init, ast.List) and not init.elts) or empty_set:
        sites = [(astx.stmt_of(c, pm), c) for c in apps] + [(s, s) for s in augs]
        if len(sites) != 1 or fills:
            return None
        st, site = sites[0]
        lp = astx.enclosing(st, pm, ast.For)
        if lp is None:
            return None
        # the list must be (re)created in the same block that holds the loop (one fresh list per outer iteration)
        if astx.enclosing(lp, pm, (ast.For, ast.While)) is not astx.enclosing(defs[0][0], pm, (ast.For, ast.While)):
            return None
        _, var, it = _enumerate_target(lp)
        cond = pm.get(st) is not lp or any(isinstance(x, (ast.Continue, ast.Break)) for x in ast.walk(lp))
        if isinstance(site, ast.Call) and site.func.attr in ("append", "add"):
            return Build("map", it, var, site.args[0], cond, site, lp)
        val = site.args[0] if isinstance(site, ast.Call) else site.value
        if isinstance(site, ast.AugAssign) and not isinstance(site.op, ast.Add):
            return None
        return Build("flatmap", it, var, val, cond, site, lp)
    # pre-sized list filled by index:  L = [Z] * n ; for i, x in enumerate(XS): L[i] = E
    if isinstance(init, ast.BinOp) and isinstance(init.op, ast.Mult) and isinstance(init.left, ast.List) and len(fills) == 1 and not apps and not augs:
        st = fills[0]
        lp = astx.enclosing(st, pm, ast.For)
        if lp is None:
            return None
        idx, var, it = _enumerate_target(lp)
        if idx is None or not astx.is_name(st.targets[0].slice, idx):
            return None
        cond = pm.get(st) is not lp or any(isinstance(x, (ast.Continue, ast.Break)) for x in ast.walk(lp))
        return Build("map", it, var, st.value, cond, st, lp)
    return None


def sum_of(fnode: ast.AST, e: ast.AST) -> Optional[Build]:
    """How the number denoted by `e` is accumulated: sum(E(x) for x in XS) or `t = 0; for x in XS: t += E(x)`."""
    if isinstance(e, ast.Call) and astx.u(e.func) == "Fraction" and len(e.args) == 1:
        e = e.args[0]
    if isinstance(e, ast.Call) and astx.u(e.func) == "sum" and e.args and isinstance(e.args[0], (ast.GeneratorExp, ast.ListComp)) and len(e.args[0].generators) == 1:
        g = e.args[0].generators[0]
        if len(e.args) == 2 and astx.u(e.args[1]) not in ("0", "Fraction(0)"):
            return None
        return Build("sum", g.iter, astx.u(g.target), e.args[0].elt, bool(g.ifs), e)
    if isinstance(e, ast.Name):
        pm = astx.parents(fnode)
        ds = astx.defs_of(fnode, e.id)
        plain = [(st, dv) for st, dv in ds if not isinstance(st, ast.AugAssign)]
        augs = [st for st, _ in ds if isinstance(st, ast.AugAssign)]
        if len(plain) == 1 and plain[0][1] is not None and not augs:
            return sum_of(fnode, plain[0][1])
        if len(plain) == 1 and plain[0][1] is not None and astx.u(plain[0][1]) in ("0", "Fraction(0)") and len(augs) == 1 and isinstance(augs[0].op, ast.Add):
            lp = astx.enclosing(augs[0], pm, ast.For)
            # the total is re-started in the block that holds the loop (a fresh total per outer iteration)
            if lp is None or astx.enclosing(lp, pm, (ast.For, ast.While)) is not astx.enclosing(plain[0][0], pm, (ast.For, ast.While)):
                return None
            cond = pm.get(augs[0]) is not lp or any(isinstance(x, (ast.Continue, ast.Break)) for x in ast.walk(lp))
            return Build("sum", lp.iter, astx.u(lp.target), augs[0].value, cond, augs[0])
    return None


@dataclass
class DictBuild:
    loops: list          # [(target text, iterable node)] outermost first
    key: ast.AST
    value: ast.AST
    conditional: bool
    node: ast.AST


def dict_build_of(fnode: ast.AST, e: ast.AST) -> Optional[DictBuild]:
    """{K: V for a in A for b in B}   or   D = {}; for a in A: for b in B: D[K] = V"""
    if isinstance(e, ast.DictComp):
        return DictBuild([(astx.u(g.target), g.iter) for g in e.generators], e.key, e.value, any(g.ifs for g in e.generators), e)
    if isinstance(e, ast.Name):
        pm = astx.parents(fnode)
        defs = astx.defs_of(fnode, e.id)
        if len(defs) != 1 or defs[0][1] is None:
            return None
        init = defs[0][1]
        if isinstance(init, ast.DictComp):
            return dict_build_of(fnode, init)
        if not (isinstance(init, ast.Dict) and not init.keys):
            return None
        stores = [s for s in astx.walk_own(fnode) if isinstance(s, (ast.Assign, ast.AugAssign)) and isinstance((s.targets[0] if isinstance(s, ast.Assign) else s.target), ast.Subscript)
                  and astx.is_name((s.targets[0] if isinstance(s, ast.Assign) else s.target).value, e.id)]
        muts = [n for n in astx.walk_own(fnode) if isinstance(n, ast.Attribute) and astx.is_name(n.value, e.id) and n.attr in ("update", "pop", "setdefault", "clear", "popitem")]
        if len(stores) != 1 or not isinstance(stores[0], ast.Assign) or muts:
            return None
        st = stores[0]
        loops = [l for l in astx.enclosing_loops(st, pm, fnode) if isinstance(l, ast.For)]
        if not loops:
            return None
        loops = loops[::-1]  # outermost first
        if astx.enclosing(loops[0], pm, (ast.For, ast.While)) is not astx.enclosing(defs[0][0], pm, (ast.For, ast.While)):
            return None
        cond = pm.get(st) is not loops[-1] or any(isinstance(x, (ast.Continue, ast.Break)) for l in loops for x in ast.walk(l))
        return DictBuild([(astx.u(l.target), l.iter) for l in loops], st.targets[0].slice, st.value, cond, st)
    return None
