"""Guarded stores of a loop over unordered pairs, compared over the sign regions of the quantities they test.

A literal `ge(Q, 0)` / `le(Q, 0)` / `eq(Q, 0)` (and their negations) only depends on the sign of Q, so a
conjunction of such literals is exactly a subset of {neg, zero, pos}.  Reducing every guard to that subset
makes `if d > 0 / elif d < 0 / else` and `if d != 0 ... abs(d)` comparable without running anything."""
from __future__ import annotations

import ast
import copy
import re
from typing import Dict, FrozenSet, List, Optional, Tuple

from . import astx
from .algebra import Normalizer, NotClosedForm, literals

REGIONS = ("neg", "zero", "pos")
_LIT = re.compile(r"(not )?(ge|le|eq)\((.*), (-?\d+)\)$", re.S)
_HOLDS = {"ge": {"zero", "pos"}, "le": {"neg", "zero"}, "eq": {"zero"}}


_EQ = re.compile(r"(not )?eq\((.*)\)$", re.S)


def _split_top(t: str):
    depth = 0
    for i, ch in enumerate(t):
        if ch in "([{":
            depth += 1
        elif ch in ")]}":
            depth -= 1
        elif ch == "," and depth == 0:
            return t[:i], t[i + 1:].strip()
    return None


def _as_difference(l: str) -> str:
    """`eq(A, B)` between two call / arithmetic terms is `eq(A - B, 0)` in the normal form used for `A - B == 0`."""
    m = _EQ.match(l)
    if not m or _LIT.match(l):
        return l
    ab = _split_top(m.group(2))
    if ab is None or not all("(" in x for x in ab):
        return l   # plain names / constants: equality of arbitrary values, not a sign test
    try:
        e = ast.parse(f"({ab[0]}) - ({ab[1]}) == 0", mode="eval").body
        g = Normalizer(None, inline=False).guard(e)
    except (SyntaxError, NotClosedForm):
        return l
    ls = literals(g)
    if len(ls) != 1:
        return l
    k = next(iter(ls))
    if m.group(1):
        k = k[4:] if k.startswith("not ") else "not " + k
    return k


def sign_regions(lits) -> Tuple[Dict[str, FrozenSet[str]], FrozenSet[str]]:
    """({Q: regions of sign(Q) in which all literals about Q hold}, remaining literals)."""
    per: Dict[str, set] = {}
    rest = set()
    for l in lits:
        l = _as_difference(l)
        m = _LIT.match(l)
        if not m or m.group(4) != "0":
            rest.add(l)
            continue
        holds = set(_HOLDS[m.group(2)])
        if m.group(1):
            holds = set(REGIONS) - holds
        q = m.group(3)
        per[q] = per.get(q, set(REGIONS)) & holds
    return {q: frozenset(r) for q, r in per.items()}, frozenset(rest)


class SwapNames(ast.NodeTransformer):
    def __init__(self, a: str, b: str):
        self.m = {a: b, b: a}

    def visit_Name(self, n):
        if n.id in self.m:
            return ast.copy_location(ast.Name(id=self.m[n.id], ctx=n.ctx), n)
        return n


class SortDicts(ast.NodeTransformer):
    """Dict displays compared as sets of entries."""

    def visit_Dict(self, n):
        self.generic_visit(n)
        pairs = sorted(zip(n.keys, n.values), key=lambda kv: astx.u(kv[0]) if kv[0] is not None else "")
        n.keys = [k for k, _ in pairs]
        n.values = [v for _, v in pairs]
        return n


def pair_loops(fnode) -> List[Tuple[ast.For, str, str]]:
    """[(loop, a, b)] for loops over combinations(<X>, 2) whose two members are bound to names a, b."""
    out = []
    for lp in astx.walk_own(fnode):
        if not isinstance(lp, ast.For):
            continue
        it = lp.iter
        if isinstance(it, ast.Name):
            it = astx.unique_def(fnode, it.id)
        it = astx.strip_wrappers(it) if it is not None else None
        if not (isinstance(it, ast.Call) and astx.call_name(it) == "combinations" and len(it.args) == 2 and astx.u(it.args[1]) == "2"):
            continue
        if isinstance(lp.target, ast.Tuple) and len(lp.target.elts) == 2 and all(isinstance(e, ast.Name) for e in lp.target.elts):
            out.append((lp, lp.target.elts[0].id, lp.target.elts[1].id))
        elif isinstance(lp.target, ast.Name):
            p = lp.target.id
            for st in lp.body:
                if isinstance(st, ast.Assign) and isinstance(st.targets[0], ast.Tuple) and isinstance(st.value, ast.Tuple) \
                        and [astx.u(v) for v in st.value.elts] == [f"{p}[0]", f"{p}[1]"] and all(isinstance(e, ast.Name) for e in st.targets[0].elts):
                    out.append((lp, st.targets[0].elts[0].id, st.targets[0].elts[1].id))
                elif isinstance(st, ast.Assign) and isinstance(st.targets[0], ast.Tuple) and astx.is_name(st.value, p) \
                        and len(st.targets[0].elts) == 2 and all(isinstance(e, ast.Name) for e in st.targets[0].elts):
                    out.append((lp, st.targets[0].elts[0].id, st.targets[0].elts[1].id))
    return out


def nf(N: Normalizer, e: ast.AST) -> str:
    try:
        return N.rat(e).key()
    except (NotClosedForm, ZeroDivisionError):
        return N.key(e)


def guarded_stores(fnode, loop_index: int, a: str, b: str, swap: bool = False):
    """[(container, key node, value node, {Q: regions}, other literals, Normalizer)] for every subscript store in
    the loop, on a private copy of the function (members of the pair exchanged when `swap`)."""
    g = copy.deepcopy(fnode)
    loops = [n for n in astx.walk_own(g) if isinstance(n, ast.For)]
    lp = loops[loop_index]
    if swap:
        sw = SwapNames(a, b)
        for i, st in enumerate(lp.body):
            if isinstance(st, ast.Assign) and isinstance(st.targets[0], ast.Tuple) and {a, b} == {astx.u(e) for e in st.targets[0].elts}:
                continue  # the statement that names the two members of the pair
            lp.body[i] = sw.visit(st)
    SortDicts().visit(g)
    ast.fix_missing_locations(g)
    pm = astx.parents(g)
    N = Normalizer(g, inline=True)
    out = []
    for s in astx.walk_own(lp):
        if isinstance(s, ast.Assign) and isinstance(s.targets[0], ast.Subscript):
            tgt, val, tag = s.targets[0], s.value, ""
        elif isinstance(s, ast.AugAssign) and isinstance(s.target, ast.Subscript):
            tgt, val, tag = s.target, s.value, type(s.op).__name__ + " "
        else:
            continue
        pc = astx.path_condition(g, s, pm)
        # a key chosen by a case split just before (`k = (a, b) if x > y else (b, a)`; `pairs[k] = ...`) is one store per case
        cases = None
        if isinstance(tgt.slice, ast.Name):
            cs = astx.value_cases(g, tgt.slice.id, s, pm)
            if cs and len(cs) > 1:
                cases = cs
        if cases is None:
            regs, rest = sign_regions(literals(N.conj(pc)))
            out.append((astx.u(tgt.value), tgt.slice, val, regs, rest, N, tag, s))
        else:
            for conds, kv in cases:
                regs, rest = sign_regions(literals(N.conj(list(pc) + list(conds))))
                out.append((astx.u(tgt.value), kv, val, regs, rest, N, tag, s))
    return out


def store_signature(fnode, loop_index: int, a: str, b: str, swap: bool):
    sig = set()
    for cont, key, val, regs, rest, N, tag, _s in guarded_stores(fnode, loop_index, a, b, swap):
        sig.add((cont, N.key(key), tag + nf(N, val), frozenset(regs.items()), rest))
    return sig
