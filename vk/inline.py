"""Analyse code that was moved into a *new* helper as part of its caller.

The rules are written against the functions that exist in the package (known_functions.json lists them by module
and qualified name).  "Extract helper" - the most common clean-up edit - moves a block into a new private function
and leaves a call behind; nothing observable changes, but a rule looking at the caller no longer sees the block.
Before indexing, every function that is NOT in that list, lives in the same module as all of its call sites, and
has a body whose `return`s are all in tail position is substituted for its calls (parameters replaced by the
argument expressions, colliding locals renamed, tail returns turned into the assignment / return / expression the
call stood in) and its definition is dropped.  Anything that does not fit (generators, *args, early returns from
loops, calls nested inside larger expressions, helpers used from other modules) is left exactly as it is.

This is a semantics-preserving program transformation of the parsed trees only; it decides nothing by itself."""
from __future__ import annotations

import ast
import copy
import json
import os
from typing import Dict, List, Optional, Set, Tuple

HERE = os.path.dirname(os.path.dirname(os.path.abspath(__file__)))
FuncDef = (ast.FunctionDef, ast.AsyncFunctionDef)


def load_known() -> Optional[Dict[str, Set[str]]]:
    p = os.path.join(HERE, "known_functions.json")
    if not os.path.exists(p):
        return None
    with open(p) as fh:
        return {k: set(v) for k, v in json.load(fh).items()}  # values: list of names, or {name: skeleton digest}


def qualnames(tree: ast.Module) -> Dict[str, Tuple[ast.AST, Optional[ast.ClassDef]]]:
    out = {}
    for n in tree.body:
        if isinstance(n, FuncDef):
            out[n.name] = (n, None)
        elif isinstance(n, ast.ClassDef):
            for m in n.body:
                if isinstance(m, FuncDef):
                    out[f"{n.name}.{m.name}"] = (m, n)
    return out


def _own_nodes(fn):
    """Nodes of fn's own scope (nested defs / lambdas / classes are opaque)."""
    stack = list(ast.iter_child_nodes(fn))
    while stack:
        n = stack.pop()
        yield n
        if isinstance(n, FuncDef + (ast.Lambda, ast.ClassDef)):
            continue
        stack.extend(ast.iter_child_nodes(n))


def _tail_returns_only(stmts: List[ast.stmt]) -> bool:
    """Every `return` of the block is the last thing its path executes."""
    if not stmts:
        return True
    for s in stmts[:-1]:
        if any(isinstance(x, ast.Return) for x in _walk_stmt(s)):
            return False
    last = stmts[-1]
    if isinstance(last, ast.Return):
        return True
    if isinstance(last, ast.If):
        return _tail_returns_only(last.body) and _tail_returns_only(last.orelse)
    return not any(isinstance(x, ast.Return) for x in _walk_stmt(last))


def _always_exits(block: List[ast.stmt]) -> bool:
    if not block:
        return False
    last = block[-1]
    if isinstance(last, (ast.Return, ast.Raise)):
        return True
    if isinstance(last, ast.If):
        return _always_exits(last.body) and _always_exits(last.orelse)
    return False


def _to_tail(stmts: List[ast.stmt]) -> List[ast.stmt]:
    """`if c: return A` followed by REST  ==  `if c: return A / else: REST` (guard clauses into tail form)."""
    out = []
    for i, s in enumerate(stmts):
        if isinstance(s, ast.If):
            s.body = _to_tail(s.body)
            s.orelse = _to_tail(s.orelse)
            rest = stmts[i + 1:]
            if rest and any(isinstance(x, ast.Return) for x in _walk_stmt(s)):
                if _always_exits(s.body):
                    s.orelse = _to_tail(s.orelse + rest)
                    return out + [s]
                if s.orelse and _always_exits(s.orelse):
                    s.body = _to_tail(s.body + rest)
                    return out + [s]
        out.append(s)
    return out


def _walk_stmt(s):
    yield s
    if isinstance(s, FuncDef + (ast.ClassDef,)):
        return   # a nested definition: its own returns are not the helper's
    for n in _own_nodes(s):
        yield n


def _eligible(fn: ast.AST) -> bool:
    a = fn.args
    if isinstance(fn, ast.AsyncFunctionDef) or a.vararg or a.kwarg or a.posonlyargs:
        return False
    if fn.name.startswith("__") and fn.name.endswith("__"):
        return False
    for d in fn.decorator_list:
        if not (isinstance(d, ast.Name) and d.id in ("staticmethod", "classmethod")):
            return False
    for n in _own_nodes(fn):
        if isinstance(n, (ast.Yield, ast.YieldFrom, ast.Await, ast.Global, ast.Nonlocal)):
            return False
        if isinstance(n, ast.ClassDef):
            return False
        if isinstance(n, FuncDef):
            # a nested function may move with the body when it is no closure over the helper's own variables
            own = _stored_names(fn) | {x.arg for x in a.args + a.kwonlyargs}
            inner_bound = {x.arg for x in n.args.args + n.args.kwonlyargs} | {x.id for x in ast.walk(n) if isinstance(x, ast.Name) and isinstance(x.ctx, ast.Store)}
            reads = {x.id for x in ast.walk(n) if isinstance(x, ast.Name) and isinstance(x.ctx, ast.Load)} - inner_bound
            if (reads & (own - {n.name})) or any(isinstance(x, (ast.Nonlocal, ast.Global)) for x in ast.walk(n)):
                return False  # closures over the helper's locals: leave alone
    body = [copy.deepcopy(s) for s in fn.body if not (isinstance(s, ast.Expr) and isinstance(s.value, ast.Constant) and isinstance(s.value.value, str))]
    return _tail_returns_only(_to_tail(body))


def _kind(fn) -> str:
    for d in fn.decorator_list:
        if isinstance(d, ast.Name) and d.id in ("staticmethod", "classmethod"):
            return d.id
    return "plain"


class _Sub(ast.NodeTransformer):
    def __init__(self, params: Dict[str, ast.AST], renames: Dict[str, str]):
        self.params, self.renames = params, renames

    def visit_Name(self, n):
        if n.id in self.renames:
            return ast.copy_location(ast.Name(id=self.renames[n.id], ctx=n.ctx), n)
        if n.id in self.params and isinstance(n.ctx, ast.Load):
            return ast.copy_location(copy.deepcopy(self.params[n.id]), n)
        return n

    def visit_Lambda(self, n):
        shadow = {a.arg for a in n.args.args}
        sub = _Sub({k: v for k, v in self.params.items() if k not in shadow}, {k: v for k, v in self.renames.items() if k not in shadow})
        n.body = sub.visit(n.body)
        return n


def _simple(e: ast.AST) -> bool:
    if isinstance(e, (ast.Name, ast.Constant)):
        return True
    if isinstance(e, ast.Attribute):
        return _simple(e.value)
    if isinstance(e, ast.Subscript):
        return _simple(e.value) and _simple(e.slice)
    return False


def _stored_names(fn) -> Set[str]:
    """Names bound in fn's own scope (comprehension variables live in their own scope and are not included)."""
    out = set()
    stack = list(ast.iter_child_nodes(fn))
    while stack:
        n = stack.pop()
        if isinstance(n, FuncDef + (ast.Lambda, ast.ClassDef)):
            continue
        if isinstance(n, (ast.ListComp, ast.SetComp, ast.DictComp, ast.GeneratorExp)):
            # only the first iterable is evaluated in the enclosing scope; walrus targets are ignored (not used in the package)
            stack.append(n.generators[0].iter)
            continue
        if isinstance(n, ast.Name) and isinstance(n.ctx, (ast.Store, ast.Del)):
            out.add(n.id)
        stack.extend(ast.iter_child_nodes(n))
    return out


def _comp_bound(fn) -> Set[str]:
    out = set()
    for n in _own_nodes(fn):
        if isinstance(n, ast.comprehension):
            out |= {x.id for x in ast.walk(n.target) if isinstance(x, ast.Name)}
    return out


def _rewrite_tail(stmts: List[ast.stmt], make) -> List[ast.stmt]:
    """Replace tail `return E` by make(E); a path that falls off the end gets make(None-constant) appended."""
    if not stmts:
        r = make(None)
        return r if r else [ast.Pass()]
    last = stmts[-1]
    if isinstance(last, ast.Return):
        r = make(last.value)
        return stmts[:-1] + [ast.copy_location(x, last) for x in r]
    if isinstance(last, ast.If) and (any(isinstance(x, ast.Return) for x in _walk_stmt(last))):
        last.body = _rewrite_tail(last.body, make)
        last.orelse = _rewrite_tail(last.orelse, make) if last.orelse else (make(None) or [])
        return stmts
    if isinstance(last, ast.Raise):
        return stmts
    return stmts + [ast.copy_location(x, last) for x in make(None)]


def _bind(call: ast.Call, helper, hkind: str) -> Optional[Dict[str, ast.AST]]:
    """{parameter: argument expression} of a call of the helper (defaults filled in), or None when it cannot be told."""
    a = helper.args
    params = [x.arg for x in a.args]
    recv = None
    if isinstance(call.func, ast.Attribute):
        recv = call.func.value
    bind: Dict[str, ast.AST] = {}
    pos = list(call.args)
    if any(isinstance(x, ast.Starred) for x in pos) or any(k.arg is None for k in call.keywords):
        return None
    names = list(params)
    if hkind in ("plain", "classmethod") and recv is not None:
        if not names:
            return None
        bind[names[0]] = recv
        names = names[1:]
    if len(pos) > len(names):
        return None
    for n, v in zip(names, pos):
        bind[n] = v
    for k in call.keywords:
        if k.arg in bind or k.arg not in names + [x.arg for x in a.kwonlyargs]:
            return None
        bind[k.arg] = k.value
    defaults = dict(zip(params[len(params) - len(a.defaults):], a.defaults))
    defaults.update({x.arg: d for x, d in zip(a.kwonlyargs, a.kw_defaults) if d is not None})
    for n in names + [x.arg for x in a.kwonlyargs]:
        if n not in bind:
            if n not in defaults:
                return None
            bind[n] = defaults[n]
    return bind


def _expand(call: ast.Call, ctx_stmt: ast.stmt, helper, hkind: str, caller) -> Optional[List[ast.stmt]]:
    bind = _bind(call, helper, hkind)
    if bind is None:
        return None
    stored = _stored_names(helper)
    caller_names = _stored_names(caller) | {x.arg for x in caller.args.args + caller.args.kwonlyargs}
    pre: List[ast.stmt] = []
    subst: Dict[str, ast.AST] = {}
    renames: Dict[str, str] = {}
    for p, v in bind.items():
        if p in stored or not _simple(v):
            # the helper re-binds its parameter, or the argument is a computation: keep it a local
            name = p
            if name in caller_names and not (isinstance(v, ast.Name) and v.id == p):
                name = f"{p}__{helper.name.strip('_')}"
                renames[p] = name
            if not (isinstance(v, ast.Name) and v.id == name):
                pre.append(ast.copy_location(ast.Assign(targets=[ast.Name(id=name, ctx=ast.Store())], value=copy.deepcopy(v)), ctx_stmt))
        else:
            subst[p] = v
    assigned_here = {t.id for t in getattr(ctx_stmt, "targets", []) if isinstance(t, ast.Name)} if isinstance(ctx_stmt, ast.Assign) else set()
    if isinstance(ctx_stmt, ast.Assign) and len(ctx_stmt.targets) == 1 and isinstance(ctx_stmt.targets[0], ast.Tuple):
        # a, b = helper(...): the helper's own locals a, b are overwritten by the call's result anyway
        assigned_here |= {t.id for t in ctx_stmt.targets[0].elts if isinstance(t, ast.Name)}
    arg_reads = {x.id for v in bind.values() for x in ast.walk(v) if isinstance(x, ast.Name)}
    # `return helper(...)`: nothing of the caller runs afterwards, so a helper local that is bound (by a plain top-level
    # assignment) before the helper reads it may share its name with a caller local that is dead by then
    fresh: Set[str] = set()
    if isinstance(ctx_stmt, ast.Return) and not any(isinstance(n, ast.Try) for n in ast.walk(caller)):
        seen: Set[str] = set()
        for st in helper.body:
            reads = {n.id for n in ast.walk(st) if isinstance(n, ast.Name) and isinstance(n.ctx, ast.Load)}
            if isinstance(st, ast.Assign) and len(st.targets) == 1 and isinstance(st.targets[0], ast.Name) and st.targets[0].id not in seen | reads:
                fresh.add(st.targets[0].id)
            seen |= {n.id for n in ast.walk(st) if isinstance(n, ast.Name)}
    for loc in stored - set(bind):
        if loc in caller_names and not (loc in assigned_here and loc not in arg_reads) and not (loc in fresh and loc not in arg_reads):
            renames[loc] = f"{loc}__{helper.name.strip('_')}"
    body = [copy.deepcopy(s) for s in helper.body if not (isinstance(s, ast.Expr) and isinstance(s.value, ast.Constant) and isinstance(s.value.value, str))]
    sub = _Sub(subst, renames)
    body = _to_tail([sub.visit(s) for s in body])

    none = ast.Constant(value=None)
    if isinstance(ctx_stmt, ast.Assign):
        def make(e):
            tg = ctx_stmt.targets[0]
            # a, b = X, Y   ->   a = X ; b = Y   (when no later element reads an earlier target)
            if isinstance(tg, ast.Tuple) and isinstance(e, ast.Tuple) and len(tg.elts) == len(e.elts) and all(isinstance(t, ast.Name) for t in tg.elts) \
                    and not any(isinstance(x, ast.Starred) for x in e.elts):
                names = [t.id for t in tg.elts]
                safe = all(not ({x.id for x in ast.walk(v) if isinstance(x, ast.Name)} & set(names[:i])) for i, v in enumerate(e.elts))
                if safe:
                    return [ast.Assign(targets=[copy.deepcopy(t)], value=v) for t, v in zip(tg.elts, e.elts) if not (isinstance(v, ast.Name) and v.id == t.id)] \
                        or [ast.Pass()]
            if isinstance(tg, ast.Name) and isinstance(e, ast.Name) and e.id == tg.id and len(ctx_stmt.targets) == 1:
                return [ast.Pass()]   # `x = x`: the helper returned its own local under the caller's name
            return [ast.Assign(targets=copy.deepcopy(ctx_stmt.targets), value=e if e is not None else none)]
    elif isinstance(ctx_stmt, ast.AnnAssign):
        def make(e):
            return [ast.AnnAssign(target=copy.deepcopy(ctx_stmt.target), annotation=ctx_stmt.annotation, value=e if e is not None else none, simple=ctx_stmt.simple)]
    elif isinstance(ctx_stmt, ast.AugAssign):
        def make(e):
            return [ast.AugAssign(target=copy.deepcopy(ctx_stmt.target), op=ctx_stmt.op, value=e if e is not None else none)]
    elif isinstance(ctx_stmt, ast.Return):
        def make(e):
            return [ast.Return(value=e)]
    elif isinstance(ctx_stmt, ast.Expr):
        def make(e):
            return [ast.Expr(value=e)] if e is not None and not isinstance(e, (ast.Name, ast.Constant)) else []
    else:
        return None
    body = _rewrite_tail(body, make)
    out = pre + body
    # program order: the expanded block sits at the call's line; inside it, the helper's own line order is kept as a
    # fraction (rules compare positions with `<`); the true source line is remembered for reports
    base = getattr(ctx_stmt, "lineno", 0)
    h0 = getattr(helper, "lineno", 0)
    for s in out:
        ast.fix_missing_locations(s)
        for n in ast.walk(s):
            if hasattr(n, "lineno"):
                src = getattr(n, "_src_lineno", n.lineno)
                if src == base or not (h0 <= src <= getattr(helper, "end_lineno", h0)):
                    continue  # argument expressions / targets copied from the call site keep its line
                n._src_lineno = src
                n.lineno = base + max(0, src - h0 + 1) / 10000.0
                if hasattr(n, "end_lineno") and n.end_lineno is not None:
                    n.end_lineno = n.lineno
    return out or [ast.copy_location(ast.Pass(), ctx_stmt)]


def _call_of(stmt: ast.stmt) -> Optional[ast.Call]:
    v = getattr(stmt, "value", None)
    if isinstance(stmt, (ast.Assign, ast.AnnAssign, ast.AugAssign, ast.Return, ast.Expr)) and isinstance(v, ast.Call):
        if isinstance(stmt, ast.Assign) and len(stmt.targets) != 1:
            return None
        return v
    return None


def _nested_call(stmt: ast.stmt, hname: str, cls) -> Optional[ast.Call]:
    """The helper call when it sits inside the value expression of a simple statement and nothing with a side effect
    is evaluated before it (every other call in the expression encloses it, e.g. len(helper(x)))."""
    v = getattr(stmt, "value", None)
    if not isinstance(stmt, (ast.Assign, ast.AnnAssign, ast.AugAssign, ast.Return, ast.Expr)) or v is None:
        return None
    hits = [n for n in ast.walk(v) if isinstance(n, ast.Call) and _matches(n, hname, cls)]
    if len(hits) != 1 or hits[0] is v:
        return None
    h = hits[0]
    # the call must be evaluated exactly once, unconditionally: none of its ancestors inside the expression may be a
    # comprehension, a lambda, or the conditionally evaluated part of a conditional / boolean expression
    for n in ast.walk(v):
        if isinstance(n, (ast.NamedExpr, ast.Await, ast.Yield)):
            return None
        if n is not h and any(x is h for x in ast.walk(n)):
            if isinstance(n, (ast.ListComp, ast.SetComp, ast.DictComp, ast.GeneratorExp, ast.Lambda)):
                return None
            if isinstance(n, ast.IfExp) and not any(x is h for x in ast.walk(n.test)):
                return None
            if isinstance(n, ast.BoolOp) and not any(x is h for x in ast.walk(n.values[0])):
                return None
        if isinstance(n, ast.Call) and n is not h and not any(x is h for x in ast.walk(n)) and ast.unparse(n.func) not in PURE_CALLS:
            return None
    return h


PURE_CALLS = {"Fraction", "int", "float", "len", "tuple", "list", "frozenset", "set", "str", "sorted", "sum", "min", "max", "abs", "bool", "dict", "range", "enumerate", "zip"}


def _result_name(helper, taken: Set[str]) -> str:
    body = _to_tail([copy.deepcopy(s) for s in helper.body])
    names = set()

    def tails(stmts):
        if not stmts:
            names.add(None)
            return
        last = stmts[-1]
        if isinstance(last, ast.Return):
            names.add(last.value.id if isinstance(last.value, ast.Name) else None)
        elif isinstance(last, ast.If):
            tails(last.body)
            tails(last.orelse)
        elif not isinstance(last, ast.Raise):
            names.add(None)
    tails(body)
    if len(names) == 1 and None not in names:
        n = next(iter(names))
        if n not in taken:
            return n
    return f"{helper.name.strip('_')}_result"


def _matches(call: ast.Call, hname: str, cls: Optional[ast.ClassDef]) -> bool:
    f = call.func
    if cls is None:
        return isinstance(f, ast.Name) and f.id == hname
    return isinstance(f, ast.Attribute) and f.attr == hname and isinstance(f.value, ast.Name) and f.value.id in ("self", "cls", cls.name)


def inline_new_helpers(trees: Dict[str, Tuple[str, ast.Module]], known: Optional[Dict[str, Set[str]]]) -> List[str]:
    """trees: {module name: (relative path, tree)}.  Returns a log of what was inlined."""
    log: List[str] = []
    if known is None:
        return log
    _ALL_TREES[:] = [t for _rel, t in trees.values()]
    log.extend(_unroll_helper_comprehensions(trees, known))
    for _round in range(3):
        changed = False
        for mname, (rel, tree) in trees.items():
            kn = known.get(rel)
            if kn is None:
                continue  # a new module: nothing the rules know lives here
            qn = qualnames(tree)
            for q, (fn, cls) in list(qn.items()):
                if q in kn or not _eligible(fn):
                    continue
                # referenced from another module?  a private module-level helper may be shared with sibling modules
                # through `from .mod import helper`; any other outside reference leaves it alone
                outside = [(om, ot) for om, (orel, ot) in trees.items() if om != mname
                           and any(isinstance(n, (ast.Name, ast.Attribute)) and getattr(n, "id", getattr(n, "attr", None)) == fn.name for n in ast.walk(ot))]
                importers = []
                subclass_trees = []
                if outside and cls is not None:
                    # a method helper of a base class, called as self.<helper>() from subclasses in sibling modules
                    if not _unique_name(tree, fn.name):
                        continue
                    good = True
                    for om, ot in outside:
                        if any(isinstance(n, ast.Name) and n.id == fn.name for n in ast.walk(ot)):
                            good = False
                        for n in ast.walk(ot):
                            if isinstance(n, ast.Attribute) and n.attr == fn.name and not (isinstance(n.value, ast.Name) and n.value.id == "self"):
                                good = False
                        subclass_trees.append(ot)
                    if not good:
                        continue
                elif outside:
                    for om, ot in outside:
                        imp = [n for n in ast.walk(ot) if isinstance(n, ast.ImportFrom) and (n.module or "").split(".")[-1] == mname.split(".")[-1]
                               and any(al.name == fn.name and al.asname is None for al in n.names)]
                        if len(imp) != 1 or any(isinstance(n, ast.Attribute) and n.attr == fn.name for n in ast.walk(ot)):
                            importers = None
                            break
                        importers.append((ot, imp[0]))
                    if importers is None:
                        continue
                scopes = [tree] + [ot for ot, _ in importers] + subclass_trees
                if _expression_helper(fn) is not None and _inline_expression_helper(fn, cls, scopes, tree):
                    holder = cls.body if cls is not None else tree.body
                    holder[:] = [x for x in holder if x is not fn]
                    _drop_imports(importers, fn.name)
                    log.append(f"{rel}: new expression helper {q} substituted at its call sites")
                    changed = True
                    continue
                # all references inside this module must be calls in statement position inside some function
                refs = [n for t in scopes for n in ast.walk(t) if (isinstance(n, ast.Name) and n.id == fn.name and cls is None) or (isinstance(n, ast.Attribute) and n.attr == fn.name and cls is not None)]
                sites = []
                ok = True
                all_callers = list(qn.items()) + [it for ot in scopes[1:] for it in qualnames(ot).items()]
                for caller_q, (caller, ccls) in all_callers:
                    if caller is fn:
                        if any(isinstance(n, ast.Call) and _matches(n, fn.name, cls) for n in ast.walk(fn)):
                            ok = False  # recursive
                        continue
                    for st in [n for n in _own_nodes(caller) if isinstance(n, ast.stmt)]:
                        c = _call_of(st)
                        same = cls is None or ccls is cls or (ccls is not None and _inherits(tree, ccls, cls) and _unique_name(tree, fn.name))
                        if c is not None and _matches(c, fn.name, cls) and same:
                            sites.append((caller, st, c))
                            continue
                        c = _nested_call(st, fn.name, cls) if same else None
                        if c is not None:
                            sites.append((caller, st, c))
                            continue
                        # the helper's result looped over:  for x in helper(...):
                        if same and isinstance(st, (ast.For,)) and isinstance(st.iter, ast.Call) and _matches(st.iter, fn.name, cls):
                            sites.append((caller, st, st.iter))
                if not ok or not sites or len(sites) != len(refs):
                    continue
                done = 0
                for caller, st, c in sites:
                    if _call_of(st) is c:
                        new = _expand(c, st, fn, _kind(fn), caller)
                    elif isinstance(st, ast.For) and st.iter is c:
                        taken = _stored_names(caller) | {x.arg for x in caller.args.args + caller.args.kwonlyargs}
                        rn = _result_name(fn, taken)
                        tmp = ast.copy_location(ast.Assign(targets=[ast.Name(id=rn, ctx=ast.Store())], value=c), st)
                        new = _expand(c, tmp, fn, _kind(fn), caller)
                        if new is not None:
                            st.iter = ast.copy_location(ast.Name(id=rn, ctx=ast.Load()), c)
                            new = new + [st]
                    else:
                        # hoist: <result> = helper(...) just before the statement, the call replaced by <result>
                        taken = _stored_names(caller) | {x.arg for x in caller.args.args + caller.args.kwonlyargs}
                        rn = _result_name(fn, taken)
                        tmp = ast.copy_location(ast.Assign(targets=[ast.Name(id=rn, ctx=ast.Store())], value=c), st)
                        new = _expand(c, tmp, fn, _kind(fn), caller)
                        if new is not None:
                            # `x = x` left by a helper that returns its own local under the same name
                            new = [n for n in new if not (isinstance(n, ast.Assign) and isinstance(n.value, ast.Name) and isinstance(n.targets[0], ast.Name) and n.value.id == n.targets[0].id)]
                            _replace_expr(st, c, ast.copy_location(ast.Name(id=rn, ctx=ast.Load()), c))
                            new = new + [st]
                    if new is None:
                        continue
                    if _replace_stmt(caller, st, new):
                        done += 1
                if done == len(sites):
                    holder = cls.body if cls is not None else tree.body
                    holder[:] = [x for x in holder if x is not fn]
                    _drop_imports(importers, fn.name)
                    log.append(f"{rel}: new helper {q} analysed as part of its {done} caller(s)")
                    changed = True
                elif done:
                    log.append(f"{rel}: new helper {q}: {done}/{len(sites)} call sites expanded (definition kept)")
                    changed = True
        if not changed:
            break
    return log


def _unroll_helper_comprehensions(trees, known) -> List[str]:
    """`T = [h(...) for x in XS]` with h a multi-statement helper the rules do not know is the loop
    `T = []` / `for x in XS: T.append(h(...))` (the statement form the expansion of h needs)."""
    log = []
    for mname, (rel, tree) in trees.items():
        kn = known.get(rel)
        if kn is None:
            continue
        new_helpers = {}
        for q, (fn, cls) in qualnames(tree).items():
            if q not in kn and _eligible(fn) and _expression_helper(fn) is None:
                new_helpers[fn.name] = (fn, cls)
        if not new_helpers:
            continue
        for holder in ast.walk(tree):
            for fld in ("body", "orelse", "finalbody"):
                lst = getattr(holder, fld, None)
                if not (isinstance(lst, list) and lst and isinstance(lst[0], ast.stmt)):
                    continue
                i = 0
                while i < len(lst):
                    st = lst[i]
                    i += 1
                    if not (isinstance(st, ast.Assign) and len(st.targets) == 1 and isinstance(st.targets[0], ast.Name)):
                        continue
                    v, wrap = st.value, None
                    if isinstance(v, ast.Call) and isinstance(v.func, ast.Name) and v.func.id in ("tuple", "list") and len(v.args) == 1 and not v.keywords:
                        wrap, v = v.func.id, v.args[0]
                    if not (isinstance(v, (ast.ListComp, ast.GeneratorExp)) and (wrap or isinstance(v, ast.ListComp)) and len(v.generators) == 1 and not v.generators[0].is_async):
                        continue
                    c = v.elt
                    if not (isinstance(c, ast.Call) and ((isinstance(c.func, ast.Name) and c.func.id in new_helpers and new_helpers[c.func.id][1] is None)
                                                         or (isinstance(c.func, ast.Attribute) and c.func.attr in new_helpers and new_helpers[c.func.attr][1] is not None
                                                             and isinstance(c.func.value, ast.Name) and c.func.value.id in ("self", "cls")))):
                        continue
                    g = v.generators[0]
                    tname = st.targets[0].id
                    if any(isinstance(n, ast.Name) and n.id == tname for n in ast.walk(v)):
                        continue
                    app = ast.Expr(value=ast.Call(func=ast.Attribute(value=ast.Name(id=tname, ctx=ast.Load()), attr="append", ctx=ast.Load()), args=[c], keywords=[]))
                    body = [app]
                    for t in reversed(g.ifs):
                        body = [ast.If(test=t, body=body, orelse=[])]
                    loop = ast.For(target=g.target, iter=g.iter, body=body, orelse=[])
                    init = ast.Assign(targets=[ast.Name(id=tname, ctx=ast.Store())], value=ast.List(elts=[], ctx=ast.Load()))
                    new = [init, loop]
                    if wrap == "tuple":
                        new.append(ast.Assign(targets=[ast.Name(id=tname, ctx=ast.Store())],
                                              value=ast.Call(func=ast.Name(id="tuple", ctx=ast.Load()), args=[ast.Name(id=tname, ctx=ast.Load())], keywords=[])))
                    for n_ in new:
                        ast.copy_location(n_, st)
                        ast.fix_missing_locations(n_)
                    lst[i - 1:i] = new
                    i += len(new) - 1
                    log.append(f"{rel}: comprehension over new helper {c.func.id if isinstance(c.func, ast.Name) else c.func.attr} unrolled into a loop")
    return log


def _drop_imports(importers, name: str):
    for ot, imp in importers or []:
        imp.names = [al for al in imp.names if al.name != name]
        if not imp.names:
            for holder in ast.walk(ot):
                for fld in ("body", "orelse", "finalbody"):
                    lst = getattr(holder, fld, None)
                    if isinstance(lst, list) and imp in lst:
                        lst[:] = [x for x in lst if x is not imp] or [ast.Pass()]


def _expression_helper(fn) -> Optional[ast.AST]:
    """The expression a helper returns when its whole body is `return <expression>` (after the docstring)."""
    body = [s for s in fn.body if not (isinstance(s, ast.Expr) and isinstance(s.value, ast.Constant) and isinstance(s.value.value, str))]
    if len(body) == 1 and isinstance(body[0], ast.Return) and body[0].value is not None:
        if any(isinstance(n, (ast.NamedExpr, ast.Lambda)) for n in ast.walk(body[0].value)):
            return None
        return body[0].value
    # `if c: return A` followed by `return B` (or an else branch returning B): the conditional expression A if c else B
    if len(body) in (1, 2) and isinstance(body[0], ast.If) and len(body[0].body) == 1 and isinstance(body[0].body[0], ast.Return) and body[0].body[0].value is not None:
        other = None
        if len(body) == 2 and not body[0].orelse and isinstance(body[1], ast.Return) and body[1].value is not None:
            other = body[1].value
        elif len(body) == 1 and len(body[0].orelse) == 1 and isinstance(body[0].orelse[0], ast.Return) and body[0].orelse[0].value is not None:
            other = body[0].orelse[0].value
        if other is not None:
            e = ast.IfExp(test=copy.deepcopy(body[0].test), body=copy.deepcopy(body[0].body[0].value), orelse=copy.deepcopy(other))
            if any(isinstance(n, (ast.NamedExpr, ast.Lambda, ast.Yield, ast.Await)) for n in ast.walk(e)):
                return None
            return ast.fix_missing_locations(ast.copy_location(e, body[0]))
    # straight-line temporaries followed by `return <expression>`: the temporaries read through (each bound once by a plain
    # assignment, only read afterwards, its value free of calls that could draw random numbers or mutate)
    if len(body) >= 2 and isinstance(body[-1], ast.Return) and body[-1].value is not None and all(
            isinstance(x, ast.Assign) and len(x.targets) == 1 and isinstance(x.targets[0], ast.Name) for x in body[:-1]):
        names = [x.targets[0].id for x in body[:-1]]
        params = {a.arg for a in fn.args.args + fn.args.kwonlyargs}
        if len(set(names)) != len(names) or set(names) & params:
            return None
        expr = copy.deepcopy(body[-1].value)
        for x in reversed(body[:-1]):
            nm, val = x.targets[0].id, x.value
            if any(isinstance(n, (ast.NamedExpr, ast.Lambda, ast.Yield, ast.Await)) for n in ast.walk(val)):
                return None
            if any(isinstance(n, ast.Call) and any(h in ast.unparse(n.func) for h in ("random", "shuffle", "choice", "sample", "append", "extend", "pop", "update", "add")) for n in ast.walk(val)):
                return None
            # a call (other than a pure builtin) is never duplicated: the temporary must then be read exactly once
            n_reads = sum(1 for n in ast.walk(expr) if isinstance(n, ast.Name) and n.id == nm and isinstance(n.ctx, ast.Load))
            if n_reads > 1 and any(isinstance(n, ast.Call) and ast.unparse(n.func) not in PURE_CALLS for n in ast.walk(val)):
                return None
            # capture: a comprehension of the remaining expression must not bind a name the value reads
            # (names the value binds in comprehensions of its own are not free in it)
            vfree = _free_in(val)
            if _bound_in(expr) & vfree:
                return None
            expr = _Sub({nm: val}, {}).visit(expr)
        if any(isinstance(n, ast.Name) and n.id in names for n in ast.walk(expr)):
            return None   # a temporary defined in terms of a later one, or read inside a comprehension that shadows it
        # (earlier temporaries may be read by later ones: substituting from the last to the first resolves the chain)
        if any(isinstance(n, (ast.NamedExpr, ast.Lambda)) for n in ast.walk(expr)):
            return None
        return ast.fix_missing_locations(expr)
    return None


def _free_in(e: ast.AST) -> Set[str]:
    """Names read in e outside every comprehension of e that binds them."""
    COMP = (ast.ListComp, ast.SetComp, ast.GeneratorExp, ast.DictComp)
    out: Set[str] = set()

    def go(n, bound):
        if isinstance(n, COMP):
            bound = bound | {x.id for g in n.generators for x in ast.walk(g.target) if isinstance(x, ast.Name)}
        if isinstance(n, ast.Name) and n.id not in bound:
            out.add(n.id)
        for c in ast.iter_child_nodes(n):
            go(c, bound)
    go(e, frozenset())
    return out


def _bound_in(e: ast.AST) -> Set[str]:
    return {x.id for n in ast.walk(e) if isinstance(n, ast.comprehension) for x in ast.walk(n.target) if isinstance(x, ast.Name)}


def _inline_expression_helper(fn, cls, scopes, home) -> bool:
    """Replace every call of a one-expression helper by that expression (parameters substituted).  All or nothing."""
    expr = _expression_helper(fn)
    hkind = _kind(fn)
    refs, calls = [], []
    for t in scopes:
        for n in ast.walk(t):
            if n is fn:
                continue
            if (isinstance(n, ast.Name) and n.id == fn.name and cls is None) or (isinstance(n, ast.Attribute) and n.attr == fn.name and cls is not None):
                refs.append(n)
            if isinstance(n, ast.Call) and _matches(n, fn.name, cls):
                calls.append(n)
    inside = {id(n) for n in ast.walk(fn)}
    refs = [r for r in refs if id(r) not in inside]
    calls = [c for c in calls if id(c) not in inside]
    if any(isinstance(n, ast.Call) and _matches(n, fn.name, cls) for n in ast.walk(fn)):
        return False   # recursive
    if not calls or len(calls) != len(refs):
        return False
    if cls is not None:
        # method helpers: only calls from the class itself or module-local subclasses (resolved by name)
        owners = {}
        for t in scopes:
            for c in [n for n in t.body if isinstance(n, ast.ClassDef)]:
                for n in ast.walk(c):
                    owners[id(n)] = c
        for c in calls:
            oc = owners.get(id(c))
            if oc is None or not (oc is cls or (_inherits(home, oc, cls) and _unique_name(home, fn.name))):
                return False
    plans = []
    for c in calls:
        bind = _bind(c, fn, hkind)
        if bind is None:
            return False
        e = copy.deepcopy(expr)
        # comprehension variables of the helper must not capture names of the arguments
        clash = _bound_in(e) & {x.id for v in bind.values() for x in ast.walk(v) if isinstance(x, ast.Name)}
        if clash:
            ren = {b: f"{b}__{fn.name.strip('_')}" for b in clash}
            for n in ast.walk(e):
                if isinstance(n, ast.Name) and n.id in ren:
                    n.id = ren[n.id]
        # a parameter shadowed by a comprehension variable of the helper: leave the helper alone
        if _bound_in(e) & set(bind):
            return False
        e = _Sub(bind, {}).visit(e)
        for n in ast.walk(e):
            ast.copy_location(n, c) if hasattr(n, "lineno") or isinstance(n, (ast.expr, ast.stmt)) else None
        plans.append((c, e))
    done = 0
    for t in scopes:
        for c, e in plans:
            for parent in ast.walk(t):
                for fld, val in ast.iter_fields(parent):
                    if val is c:
                        setattr(parent, fld, e)
                        done += 1
                    elif isinstance(val, list):
                        for i, x in enumerate(val):
                            if x is c:
                                val[i] = e
                                done += 1
    return done == len(plans)


_ALL_TREES: List[ast.Module] = []


def _inherits(tree: ast.Module, sub: ast.ClassDef, base: ast.ClassDef) -> bool:
    """Is `base` among the ancestors of `sub`?  Bases are resolved by name, in the module first, then in the package."""
    classes = {}
    for t in _ALL_TREES:
        for n in t.body:
            if isinstance(n, ast.ClassDef):
                classes.setdefault(n.name, n)
    classes.update({n.name: n for n in tree.body if isinstance(n, ast.ClassDef)})
    seen, todo = set(), [sub]
    while todo:
        c = todo.pop()
        if c is base:
            return True
        if c.name in seen:
            continue
        seen.add(c.name)
        for b in c.bases:
            nm = b.id if isinstance(b, ast.Name) else (b.attr if isinstance(b, ast.Attribute) else None)
            if nm in classes:
                todo.append(classes[nm])
    return False


def _unique_name(tree: ast.Module, name: str) -> bool:
    """Only one function of that name in the package (so self.<name> can only mean it)."""
    trees = _ALL_TREES if any(t is tree for t in _ALL_TREES) else [tree]
    return sum(1 for t in trees for n in ast.walk(t) if isinstance(n, FuncDef) and n.name == name) == 1


def _replace_stmt(root: ast.AST, old: ast.stmt, new: List[ast.stmt]) -> bool:
    for n in ast.walk(root):
        for fld in ("body", "orelse", "finalbody"):
            lst = getattr(n, fld, None)
            if isinstance(lst, list):
                for i, s in enumerate(lst):
                    if s is old:
                        lst[i:i + 1] = new
                        return True
        if isinstance(n, ast.Try):
            for h in n.handlers:
                for i, s in enumerate(h.body):
                    if s is old:
                        h.body[i:i + 1] = new
                        return True
    return False


def _replace_expr(root: ast.AST, old: ast.AST, new: ast.AST) -> bool:
    for n in ast.walk(root):
        for fld, val in ast.iter_fields(n):
            if val is old:
                setattr(n, fld, new)
                return True
            if isinstance(val, list):
                for i, x in enumerate(val):
                    if x is old:
                        val[i] = new
                        return True
    return False
