"""Program model for the VoteKit static checks.

Parses every ``*.py`` under ``<repo>/src/votekit`` (or an in-memory overlay of it), resolves
package-internal imports through re-export chains, and builds the class / function tables.
Nothing from VoteKit is imported or executed.
"""
from __future__ import annotations

import ast
import hashlib
import os
from dataclasses import dataclass, field
from typing import Dict, Iterator, List, Optional, Tuple

PKG = "votekit"
REPO = os.environ.get("VK_REPO", "/repo")


class AnalysisError(Exception):
    """The checker cannot decide (anchor vanished / unknown shape). Maps to exit 2."""


@dataclass
class Module:
    name: str  # dotted, e.g. votekit.elections.transfers
    path: str  # path relative to repo root
    src: str
    tree: ast.Module
    is_pkg: bool
    imports: Dict[str, str] = field(default_factory=dict)  # local name -> qualified target
    defs: Dict[str, ast.AST] = field(default_factory=dict)  # top-level def/class/assign names


@dataclass
class Func:
    qualname: str  # votekit.utils.remove_cand or votekit....stv.STV._run_step
    name: str
    node: ast.AST  # FunctionDef / Lambda
    module: Module
    cls: Optional["Class"] = None
    parent: Optional["Func"] = None  # enclosing function for nested defs

    @property
    def short(self) -> str:
        return (self.cls.name + "." if self.cls else "") + self.name

    @property
    def params(self) -> List[str]:
        a = self.node.args
        return [x.arg for x in a.posonlyargs + a.args + a.kwonlyargs]

    def param_default(self, name: str) -> Optional[ast.AST]:
        a = self.node.args
        pos = a.posonlyargs + a.args
        defaults = [None] * (len(pos) - len(a.defaults)) + list(a.defaults)
        for p, d in zip(pos, defaults):
            if p.arg == name:
                return d
        for p, d in zip(a.kwonlyargs, a.kw_defaults):
            if p.arg == name:
                return d
        return None

    def param_annotation(self, name: str) -> Optional[ast.AST]:
        a = self.node.args
        for p in a.posonlyargs + a.args + a.kwonlyargs:
            if p.arg == name:
                return p.annotation
        return None

    def loc(self, node: Optional[ast.AST] = None) -> str:
        n = node if node is not None else self.node
        return f"{self.module.path}:{getattr(n, '_src_lineno', getattr(n, 'lineno', 0))} {self.short}"


@dataclass
class Class:
    qualname: str
    name: str
    node: ast.ClassDef
    module: Module
    base_names: List[str] = field(default_factory=list)  # resolved qualified names (or raw)
    methods: Dict[str, Func] = field(default_factory=dict)
    _prog: Optional["Program"] = None

    def mro(self) -> List["Class"]:
        # single inheritance inside the package (plus ABC / external bases); linearise depth-first
        out: List[Class] = []
        seen = set()

        def walk(c: "Class"):
            if c.qualname in seen:
                return
            seen.add(c.qualname)
            out.append(c)
            for b in c.base_names:
                bc = c._prog.classes.get(b)
                if bc is not None:
                    walk(bc)

        walk(self)
        return out

    def lookup(self, name: str) -> Optional[Func]:
        for c in self.mro():
            if name in c.methods:
                return c.methods[name]
        return None

    def is_subclass_of(self, other_short: str) -> bool:
        return any(c.name == other_short for c in self.mro())

    def decorators(self) -> List[ast.AST]:
        return list(self.node.decorator_list)


class Program:
    def __init__(self, repo: str = REPO, overlay: Optional[Dict[str, str]] = None):
        """overlay: {relative path -> source text} replaces files on disk (used by the
        self-validation matrix; nothing is written)."""
        self.repo = repo
        self.modules: Dict[str, Module] = {}
        self.functions: Dict[str, Func] = {}
        self.classes: Dict[str, Class] = {}
        self.file_digests: Dict[str, str] = {}
        self._load(overlay or {})
        from .inline import inline_new_helpers, load_known
        self.inlined = inline_new_helpers({name: (m.path, m.tree) for name, m in self.modules.items()}, load_known())
        self._drop_default_args()
        self._canonicalise_tests()
        self.renamed_back = []
        self.temps_inlined = []
        self.local_signatures = None
        if os.environ.get("VK_SNAPSHOT_LOCALS"):
            from . import renameback as _rb
            self.local_signatures = _rb.snapshot({name: (m.path, m.tree) for name, m in self.modules.items()})
        if not os.environ.get("VK_NO_RENAMEBACK"):
            from . import renameback
            recorded = renameback.load_recorded()
            trees = {name: (m.path, m.tree) for name, m in self.modules.items()}
            self.renamed_back = renameback.apply(trees, recorded)
            if not os.environ.get("VK_NO_TEMP_INLINING"):
                from . import inlinetemps
                # alternate: temporaries that mention no other unknown local are read through, which may complete the binding
                # of a renamed local (then renamed back), which may turn another temporary into such a leaf ...
                for _ in range(25):
                    ti = inlinetemps.apply(trees, recorded, leaf_only=True)
                    if ti:
                        self._canonicalise_tests(only={l.split(":")[0] for l in ti})
                    rb = renameback.apply(trees, recorded)
                    self.temps_inlined += ti
                    self.renamed_back += rb
                    if not ti and not rb:
                        break
                ti = inlinetemps.apply(trees, recorded)
                self.temps_inlined += ti
                if ti:
                    # the substituted expressions may complete a spelling the canonicaliser knows
                    self._canonicalise_tests(only={l.split(":")[0] for l in ti})
        self._index()
        self._canonicalise_calls()

    # ------------------------------------------------------------------ loading
    def _load(self, overlay: Dict[str, str]):
        root = os.path.join(self.repo, "src", PKG)
        if not os.path.isdir(root):
            raise AnalysisError(f"anchor-missing: package directory {root}")
        for dirpath, dirnames, filenames in os.walk(root):
            dirnames.sort()
            for fn in sorted(filenames):
                if not fn.endswith(".py"):
                    continue
                full = os.path.join(dirpath, fn)
                rel = os.path.relpath(full, self.repo)
                if rel in overlay:
                    src = overlay[rel]
                else:
                    with open(full, "r", encoding="utf-8") as f:
                        src = f.read()
                self._add_module(rel, src)

    def _add_module(self, rel: str, src: str):
        try:
            tree = ast.parse(src, filename=rel)
        except SyntaxError as e:
            raise AnalysisError(f"cannot parse {rel}: {e}")
        parts = rel[len("src/"):-3].split(os.sep)
        is_pkg = parts[-1] == "__init__"
        if is_pkg:
            parts = parts[:-1]
        name = ".".join(parts)
        self.modules[name] = Module(name, rel, src, tree, is_pkg)
        self.file_digests[rel] = hashlib.sha256(src.encode()).hexdigest()

    def tree_digest(self) -> str:
        h = hashlib.sha256()
        for k in sorted(self.file_digests):
            h.update(k.encode())
            h.update(self.file_digests[k].encode())
        return "sha256:" + h.hexdigest()

    # ------------------------------------------------------------------ indexing
    def _index(self):
        for m in self.modules.values():
            self._index_imports(m)
            for node in m.tree.body:
                if isinstance(node, (ast.FunctionDef, ast.AsyncFunctionDef)):
                    m.defs[node.name] = node
                    self._add_func(node, m, None, None, f"{m.name}.{node.name}")
                elif isinstance(node, ast.ClassDef):
                    m.defs[node.name] = node
                    self._add_class(node, m)
                elif isinstance(node, (ast.Assign, ast.AnnAssign)):
                    targets = node.targets if isinstance(node, ast.Assign) else [node.target]
                    for t in targets:
                        if isinstance(t, ast.Name):
                            m.defs[t.id] = node
        for c in self.classes.values():
            c.base_names = [self._resolve_base(c, b) for b in c.node.bases]
            c._prog = self

    def _add_func(self, node, m: Module, cls: Optional[Class], parent: Optional[Func], qn: str):
        f = Func(qn, node.name if hasattr(node, "name") else "<lambda>", node, m, cls, parent)
        self.functions[qn] = f
        if cls is not None and parent is None:
            cls.methods[f.name] = f
        # nested defs
        for sub in ast.walk(node):
            if sub is node:
                continue
            if isinstance(sub, (ast.FunctionDef, ast.AsyncFunctionDef)) and self._direct_parent_func(node, sub):
                self._add_func(sub, m, cls, f, f"{qn}.<locals>.{sub.name}")
        return f

    @staticmethod
    def _direct_parent_func(outer, inner) -> bool:
        # True iff `inner` is nested in `outer` with no other def in between
        def find(n, depth):
            for ch in ast.iter_child_nodes(n):
                if ch is inner:
                    return depth
                if isinstance(ch, (ast.FunctionDef, ast.AsyncFunctionDef, ast.ClassDef)):
                    r = find(ch, depth + 1)
                else:
                    r = find(ch, depth)
                if r is not None:
                    return r
            return None
        return find(outer, 0) == 0

    def _add_class(self, node: ast.ClassDef, m: Module):
        qn = f"{m.name}.{node.name}"
        c = Class(qn, node.name, node, m)
        self.classes[qn] = c
        for sub in node.body:
            if isinstance(sub, (ast.FunctionDef, ast.AsyncFunctionDef)):
                self._add_func(sub, m, c, None, f"{qn}.{sub.name}")

    def _index_imports(self, m: Module):
        for node in ast.walk(m.tree):
            if isinstance(node, ast.Import):
                for a in node.names:
                    local = a.asname or a.name.split(".")[0]
                    target = a.name if a.asname else a.name.split(".")[0]
                    m.imports[local] = target
            elif isinstance(node, ast.ImportFrom):
                base = self._abs_module(m, node.module, node.level)
                for a in node.names:
                    local = a.asname or a.name
                    m.imports[local] = f"{base}.{a.name}" if base else a.name

    def _abs_module(self, m: Module, module: Optional[str], level: int) -> str:
        if level == 0:
            return module or ""
        parts = m.name.split(".")
        if not m.is_pkg:
            parts = parts[:-1]
        if level > 1:
            parts = parts[: len(parts) - (level - 1)]
        if module:
            parts = parts + module.split(".")
        return ".".join(parts)

    # ------------------------------------------------------------------ canonical call form
    def _canonicalise_calls(self):
        """Calls to module-level package functions are rewritten (in the parsed trees only) so that
        every argument that can be positional is positional, in parameter order: f(a, y=c, x=b) and
        f(a, b, c) become the same tree.  Rules therefore never depend on how a call site happened
        to spell its arguments."""
        for m in self.modules.values():
            for node in ast.walk(m.tree):
                if not isinstance(node, ast.Call) or any(isinstance(a, ast.Starred) for a in node.args) or any(k.arg is None for k in node.keywords):
                    continue
                q = self.resolve_expr(m, node.func)
                f = self.functions.get(q) if q else None
                if f is None or f.cls is not None or f.parent is not None or not isinstance(f.node, (ast.FunctionDef, ast.AsyncFunctionDef)):
                    continue
                a = f.node.args
                if a.posonlyargs or a.vararg or a.kwarg:
                    continue
                names = [x.arg for x in a.args]
                if len(node.args) > len(names):
                    continue
                kw = {k.arg: k for k in node.keywords}
                if not set(kw) <= set(names) | {x.arg for x in a.kwonlyargs}:
                    continue
                new_args = list(node.args)
                i = len(new_args)
                while i < len(names) and names[i] in kw:
                    new_args.append(kw.pop(names[i]).value)
                    i += 1
                node.args = new_args
                node.keywords = [k for k in node.keywords if k.arg in kw]

    def _drop_default_args(self):
        """self.meth(a, -1) is self.meth(a) when every method of that name in the package declares the same positional
        parameters and the trailing argument is the constant default of its parameter (a helper with a defaulted
        parameter, once inlined, leaves the default spelled out at the call it forwards to)."""
        methods: Dict[str, list] = {}
        for m in self.modules.values():
            for c in ast.walk(m.tree):
                if isinstance(c, ast.ClassDef):
                    for d in c.body:
                        if isinstance(d, (ast.FunctionDef, ast.AsyncFunctionDef)):
                            methods.setdefault(d.name, []).append(d)

        def sig(d):
            a = d.args
            if a.posonlyargs or a.vararg or a.kwarg or any(isinstance(x, ast.Name) and x.id in ("staticmethod", "classmethod") for x in d.decorator_list):
                return None
            names = [x.arg for x in a.args][1:]
            defaults = [None] * (len(names) - len(a.defaults)) + [ast.dump(x) if isinstance(x, (ast.Constant, ast.UnaryOp)) else None for x in a.defaults] if len(a.defaults) <= len(names) else None
            return (tuple(names), tuple(defaults)) if defaults is not None else None
        for m in self.modules.values():
            for node in ast.walk(m.tree):
                if not (isinstance(node, ast.Call) and isinstance(node.func, ast.Attribute) and isinstance(node.func.value, ast.Name) and node.func.value.id == "self"):
                    continue
                defs = methods.get(node.func.attr)
                if not defs or node.keywords and any(k.arg is None for k in node.keywords) or any(isinstance(a, ast.Starred) for a in node.args):
                    continue
                sigs = {sig(d) for d in defs}
                if len(sigs) != 1 or None in sigs:
                    continue
                names, defaults = next(iter(sigs))
                if node.keywords or len(node.args) > len(names):
                    continue
                while node.args and defaults[len(node.args) - 1] is not None and ast.dump(node.args[-1]) == defaults[len(node.args) - 1]:
                    node.args.pop()

    def _canonicalise_tests(self, only=None):
        """See vk/canon.py: comparison / branch / call spelling is normalised in the parsed trees."""
        from .canon import Canon
        for m in self.modules.values():
            if only is not None and m.path not in only:
                continue
            m.tree = Canon().visit(m.tree)
            ast.fix_missing_locations(m.tree)

    # ------------------------------------------------------------------ resolution
    def resolve_qualified(self, qn: str, _seen=None) -> str:
        """Follow re-export chains: votekit.PreferenceProfile -> votekit.pref_profile.PreferenceProfile."""
        _seen = _seen or set()
        if qn in _seen:
            return qn
        _seen.add(qn)
        if qn in self.functions or qn in self.classes or qn in self.modules:
            return qn
        if "." not in qn:
            return qn
        mod, _, name = qn.rpartition(".")
        m = self.modules.get(mod)
        if m is None:
            # maybe mod itself needs resolving (e.g. alias of a module)
            rmod = self.resolve_qualified(mod, _seen)
            if rmod != mod and rmod in self.modules:
                return self.resolve_qualified(f"{rmod}.{name}", _seen)
            return qn
        if name in m.defs:
            return qn
        if name in m.imports:
            return self.resolve_qualified(m.imports[name], _seen)
        return qn

    def resolve_name(self, m: Module, name: str) -> Optional[str]:
        """Resolve a bare name used in module m to a qualified name (internal def or external)."""
        if name in m.defs:
            return f"{m.name}.{name}"
        if name in m.imports:
            return self.resolve_qualified(m.imports[name])
        return None

    def resolve_expr(self, m: Module, e: ast.AST) -> Optional[str]:
        """Qualified name of a Name / dotted Attribute expression, if its root is an import or def."""
        parts = []
        cur = e
        while isinstance(cur, ast.Attribute):
            parts.append(cur.attr)
            cur = cur.value
        if not isinstance(cur, ast.Name):
            return None
        root = self.resolve_name(m, cur.id)
        if root is None:
            return None
        qn = ".".join([root] + parts[::-1])
        return self.resolve_qualified(qn)

    def _resolve_base(self, c: Class, b: ast.AST) -> str:
        r = self.resolve_expr(c.module, b)
        return r if r else ast.unparse(b)

    # ------------------------------------------------------------------ lookup helpers
    def find_class(self, short: str) -> Class:
        hits = [c for c in self.classes.values() if c.name == short]
        if len(hits) != 1:
            raise AnalysisError(f"anchor-missing: class {short} ({len(hits)} definitions)")
        return hits[0]

    def has_class(self, short: str) -> bool:
        return sum(1 for c in self.classes.values() if c.name == short) == 1

    def find_func(self, short: str) -> Func:
        """'remove_cand' (module-level, unique in the package) or 'STV._run_step' (own method)."""
        if "." in short:
            cn, _, mn = short.partition(".")
            c = self.find_class(cn)
            if mn not in c.methods:
                raise AnalysisError(f"anchor-missing: method {short}")
            return c.methods[mn]
        hits = [f for f in self.functions.values() if f.name == short and f.cls is None and f.parent is None]
        if len(hits) != 1:
            raise AnalysisError(f"anchor-missing: function {short} ({len(hits)} definitions)")
        return hits[0]

    def find_method(self, cls_short: str, name: str) -> Func:
        """Method as seen by class (own or inherited)."""
        c = self.find_class(cls_short)
        f = c.lookup(name)
        if f is None:
            raise AnalysisError(f"anchor-missing: method {cls_short}.{name}")
        return f

    def subclasses(self, short: str, strict: bool = False) -> List[Class]:
        out = [c for c in self.classes.values() if c.is_subclass_of(short) and not (strict and c.name == short)]
        return sorted(out, key=lambda c: c.qualname)

    def nested_func(self, outer: Func, name: str) -> Func:
        qn = f"{outer.qualname}.<locals>.{name}"
        if qn not in self.functions:
            raise AnalysisError(f"anchor-missing: nested function {outer.short}.{name}")
        return self.functions[qn]

    def iter_functions(self, path_prefixes: Optional[Tuple[str, ...]] = None) -> Iterator[Func]:
        for f in sorted(self.functions.values(), key=lambda f: f.qualname):
            if path_prefixes is None or f.module.path.startswith(path_prefixes):
                yield f

    def is_abstract(self, f: Func) -> bool:
        for d in getattr(f.node, "decorator_list", []):
            if (isinstance(d, ast.Name) and d.id == "abstractmethod") or (
                isinstance(d, ast.Attribute) and d.attr == "abstractmethod"
            ):
                return True
        return False
