"""Anchors of the election family: step functions, state constructions, appends, flattening."""
from __future__ import annotations

import ast
from typing import Dict, List, Optional, Tuple

from . import astx
from .loader import Program, Class, Func, AnalysisError
from . import facts

SCOPE_ELECTION = ("src/votekit/models.py", "src/votekit/elections/", "src/votekit/utils.py",
                  "src/votekit/pref_profile.py", "src/votekit/ballot.py",
                  "src/votekit/graphs/pairwise_comparison_graph.py")

QUERIES = ["get_profile", "get_step", "get_elected", "get_eliminated", "get_remaining", "get_ranking",
           "get_status_df", "__len__", "__str__"]


def step_functions(prog: Program) -> List[Func]:
    """All concrete (non-abstract) `_run_step` definitions of Election subclasses."""
    out = []
    for c in prog.subclasses("Election"):
        f = c.methods.get("_run_step")
        if f is not None and not prog.is_abstract(f):
            out.append(f)
    return sorted(out, key=lambda f: f.qualname)


def is_states_append(n: ast.AST) -> bool:
    """self.election_states.append(x) / .extend(x) / self.election_states += x"""
    if isinstance(n, ast.Call) and isinstance(n.func, ast.Attribute) and n.func.attr in ("append", "extend", "insert"):
        return astx.is_self_attr(n.func.value, "election_states")
    if isinstance(n, ast.AugAssign) and astx.is_self_attr(n.target, "election_states"):
        return True
    # for s in <sub>.election_states[...]: ...; self.election_states.append(s)   is   self.election_states += <that slice>
    if isinstance(n, ast.For) and isinstance(n.target, ast.Name) and ".election_states" in astx.u(n.iter) and not any(isinstance(x, (ast.Break, ast.Continue, ast.Return)) for x in ast.walk(n)):
        return any(isinstance(x, ast.Call) and isinstance(x.func, ast.Attribute) and x.func.attr == "append" and astx.is_self_attr(x.func.value, "election_states")
                   and x.args and astx.is_name(x.args[0], n.target.id) for st in n.body for x in ast.walk(st) if not isinstance(st, (ast.If, ast.For, ast.While, ast.Try)))
    return False


def state_ctor_calls(prog: Program, f: Func) -> List[ast.Call]:
    out = []
    for c in astx.calls_in(f.node):
        q = prog.resolve_expr(f.module, c.func)
        if q and q.endswith(".ElectionState"):
            out.append(c)
    return out


def state_fields(prog: Program) -> List[str]:
    c = prog.find_class("ElectionState")
    return [n.target.id for n in c.node.body if isinstance(n, ast.AnnAssign) and isinstance(n.target, ast.Name)]


def state_kwargs(prog: Program, call: ast.Call) -> Dict[str, ast.AST]:
    return astx.bind_args(call, state_fields(prog))


def _is_flatten(e: ast.AST) -> bool:
    if isinstance(e, (ast.ListComp, ast.GeneratorExp, ast.SetComp)) and len(e.generators) == 2:
        g0, g1 = e.generators
        return (isinstance(g0.target, ast.Name) and isinstance(g1.target, ast.Name) and astx.is_name(g1.iter, g0.target.id)
                and astx.is_name(e.elt, g1.target.id) and not g0.ifs and not g1.ifs)
    return isinstance(e, ast.Call) and isinstance(e.func, ast.Name) and e.func.id in ("list", "set", "frozenset", "tuple") and len(e.args) == 1 and not e.keywords \
        and (_is_flatten(e.args[0]) or isinstance(e.args[0], ast.Name))


def counted_base(e: ast.AST, fnode: Optional[ast.AST] = None) -> Optional[ast.AST]:
    """B when `e` counts the candidates of a list-of-sets B:  len([c for s in B for c in s])  or  sum(len(s) for s in B)."""
    if isinstance(e, ast.Call) and astx.u(e.func) == "len" and len(e.args) == 1:
        b = flatten_base(e.args[0], fnode)
        return b if b is not e.args[0] else None
    if isinstance(e, ast.Call) and astx.u(e.func) == "sum" and len(e.args) == 1 and isinstance(e.args[0], (ast.GeneratorExp, ast.ListComp)) and len(e.args[0].generators) == 1:
        g = e.args[0].generators[0]
        el = e.args[0].elt
        if isinstance(g.target, ast.Name) and not g.ifs and isinstance(el, ast.Call) and astx.u(el.func) == "len" and len(el.args) == 1 and astx.is_name(el.args[0], g.target.id):
            return g.iter
    return None


def flatten_base(e: ast.AST, fnode: Optional[ast.AST] = None) -> ast.AST:
    """The collection whose candidates `e` enumerates:
    [c for s in B for c in s] -> B ;  list(B)/set(B)/frozenset(B)/tuple(B) -> B ;
    (frozenset(B),) -> B ; (frozenset({x}),) / (frozenset([x]),) / frozenset({x}) -> x ; [x] -> x.
    With `fnode`, a local that is assigned exactly once, to such a flattening of B, stands for B as well."""
    changed = True
    while changed:
        changed = False
        if fnode is not None and isinstance(e, ast.Name):
            dv = astx.unique_def(fnode, e.id)
            if dv is not None and _is_flatten(dv):
                e, changed = dv, True
                continue
            # the same flattening as a loop:  L = []; for s in B: L.extend(s)   (or L += s)
            from . import listform
            b = listform.build_of(fnode, e)
            if b is not None and b.kind == "flatmap" and not b.conditional and astx.u(b.elt) == b.var and b.loop is not None:
                e, changed = b.iter, True
                continue
        if isinstance(e, (ast.ListComp, ast.GeneratorExp, ast.SetComp)) and len(e.generators) == 2:
            g0, g1 = e.generators
            if (isinstance(g0.target, ast.Name) and isinstance(g1.target, ast.Name) and astx.is_name(g1.iter, g0.target.id)
                    and astx.is_name(e.elt, g1.target.id) and not g0.ifs and not g1.ifs):
                e, changed = g0.iter, True
                continue
        if isinstance(e, ast.Call) and isinstance(e.func, ast.Name) and e.func.id in ("list", "set", "frozenset", "tuple") \
                and len(e.args) == 1 and not e.keywords:
            e, changed = e.args[0], True
            continue
        if isinstance(e, (ast.Tuple, ast.List, ast.Set)) and len(e.elts) == 1 and not isinstance(e.elts[0], ast.Starred):
            e, changed = e.elts[0], True
            continue
    return e


def run_election(prog: Program) -> Func:
    return prog.find_func("Election._run_election")
