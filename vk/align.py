"""Population / probability alignment at weighted draws (DESIGN §5/C16.D1).

sig(expr) is the *ordered source* an expression derives from, following the reaching definitions
at the draw site:  ('keys', K) / ('values', K) of one mapping K; ('map', sig(Y)) for a
comprehension `[D[c] for c in Y]` (or any elementwise map over Y); ('len', sig(Y)) for a vector
whose only relation to Y is its length (e.g. a Dirichlet draw of length len(Y)); ('atom', key).
A name with several reaching definitions yields several signatures (loop-carried re-binding).
"""
from __future__ import annotations

import ast
from typing import List, Optional, Set, Tuple

from . import astx
from .algebra import Normalizer
from .loader import Program, Func

DRAW_FUNCS = {"numpy.random.choice": ("a", "p"), "random.choices": ("population", "weights")}


class Draw:
    def __init__(self, f: Func, call: ast.Call, kind: str, pop: Optional[ast.AST], probs: Optional[ast.AST], kw):
        self.f, self.call, self.kind, self.pop, self.probs, self.kw = f, call, kind, pop, probs, kw


def draws_in(prog: Program, f: Func) -> List[Draw]:
    out = []
    for c in astx.calls_in(f.node, own_only=False) if not isinstance(f.node, ast.Lambda) else []:
        q = prog.resolve_expr(f.module, c.func)
        if q not in DRAW_FUNCS:
            continue
        pname, wname = DRAW_FUNCS[q]
        kw = {k.arg: k.value for k in c.keywords}
        pop = kw.get(pname, c.args[0] if c.args else None)
        if q == "numpy.random.choice":
            probs = kw.get("p", c.args[3] if len(c.args) > 3 else None)
            if "size" not in kw and len(c.args) > 1:
                kw["size"] = c.args[1]
            if "replace" not in kw and len(c.args) > 2:
                kw["replace"] = c.args[2]
        else:
            probs = kw.get("weights", c.args[1] if len(c.args) > 1 else None)
        out.append(Draw(f, c, q, pop, probs, kw))
    return out


def _used_as_mapping(f: Func, e: ast.AST) -> bool:
    """the function reads `e` through .keys() / .values() / .items() somewhere: e is a mapping"""
    t = astx.u(e)
    return any(isinstance(n, ast.Attribute) and n.attr in ("keys", "values", "items") and astx.u(n.value) == t for n in astx.walk_all(f.node))


def sigs(f: Func, e: ast.AST, at: ast.AST, depth: int = 0) -> Set[tuple]:
    N = Normalizer(f.node, inline=False)
    if depth > 14 or e is None:
        return {("atom", astx.u(e) if e is not None else "None")}
    if isinstance(e, ast.Call):
        fn = astx.u(e.func)
        if fn in ("list", "tuple", "np.array", "numpy.array", "np.power", "numpy.power", "np.square", "np.abs", "np.asarray") and e.args:
            if fn in ("list", "tuple") and isinstance(e.args[0], (ast.Name, ast.Attribute, ast.Subscript)) and _used_as_mapping(f, e.args[0]):
                return {("keys", N.key(e.args[0]))}   # iterating a mapping yields its keys
            return sigs(f, e.args[0], at, depth + 1)
        if isinstance(e.func, ast.Attribute) and e.func.attr in ("astype", "copy", "tolist"):
            return sigs(f, e.func.value, at, depth + 1)
        if fn == "len" and e.args and isinstance(e.args[0], (ast.Name, ast.Attribute, ast.Subscript)) and _used_as_mapping(f, e.args[0]):
            return {("keys", N.key(e.args[0]))}
        if fn == "len" and e.args:
            # population given by its size: the population is the thing measured
            return sigs(f, e.args[0], at, depth + 1)
        if fn.endswith(".keys") and not e.args:
            return {("keys", N.key(e.func.value))}
        if fn.endswith(".values") and not e.args:
            return {("values", N.key(e.func.value))}
        q = fn
        if q.endswith(".dirichlet") or q.endswith("dirichlet"):
            # length-only relation
            for a in list(e.args) + [k.value for k in e.keywords]:
                for n in ast.walk(a):
                    if isinstance(n, ast.Call) and astx.u(n.func) == "len" and n.args:
                        return {("len", s) for s in sigs(f, n.args[0], at, depth + 1)}
        if fn in ("np.random.choice", "random.choices", "random.sample", "numpy.random.choice"):
            return {("drawn", astx.u(e)[:60])}
        return {("atom", N.key(e))}
    if isinstance(e, (ast.ListComp, ast.GeneratorExp)) and len(e.generators) == 1 and not e.generators[0].ifs:
        g = e.generators[0]
        inner = sigs(f, g.iter, at, depth + 1)
        # identity map: [x for x in Y]
        if astx.is_name(e.elt, getattr(g.target, "id", None)):
            return inner
        # elementwise map that mentions the loop variable
        names = {n.id for n in ast.walk(e.elt) if isinstance(n, ast.Name)}
        if set(astx.assigned_names(g.target)) & names:
            return {("map", s) for s in inner}
        return {("atom", N.key(e))}
    if isinstance(e, ast.Name):
        defs = astx.reaching_defs(f.node, e.id, at)
        if not defs:
            # comprehension / loop variable or parameter
            return {("atom", e.id)}
        out: Set[tuple] = set()
        for st, dv in defs:
            if dv is None and isinstance(st, ast.AugAssign) and astx.is_name(st.target, e.id):
                # p /= scalar, p *= scalar: elementwise, keeps the order of p as it was before
                out |= sigs(f, ast.Name(id=e.id, ctx=ast.Load()), st, depth + 1)
                continue
            if dv is None:
                # tuple unpack from zip(*D.items())
                if isinstance(st, ast.Assign) and isinstance(st.targets[0], ast.Tuple) and isinstance(st.value, ast.Call) and astx.u(st.value.func) == "zip" \
                        and len(st.value.args) == 1 and isinstance(st.value.args[0], ast.Starred):
                    inner = st.value.args[0].value
                    names = [astx.u(x) for x in st.targets[0].elts]
                    if isinstance(inner, ast.Call) and astx.u(inner.func).endswith(".items") and e.id in names and len(names) == 2:
                        out.add(("keys" if names.index(e.id) == 0 else "values", N.key(inner.func.value)))
                        continue
                if isinstance(st, ast.Assign) and isinstance(st.targets[0], ast.Tuple) and isinstance(st.value, astx.LCOMP):
                    # blocs_og, values_og = [list(x) for x in zip(*D.items())]
                    lc = st.value
                    it = lc.generators[0].iter
                    names = [astx.u(x) for x in st.targets[0].elts]
                    if isinstance(it, ast.Call) and astx.u(it.func) == "zip" and it.args and isinstance(it.args[0], ast.Starred):
                        inner = it.args[0].value
                        if isinstance(inner, ast.Call) and astx.u(inner.func).endswith(".items") and e.id in names and len(names) == 2:
                            out.add(("keys" if names.index(e.id) == 0 else "values", N.key(inner.func.value)))
                            continue
                out.add(("unknown", astx.u(st)[:60]))
                continue
            out |= sigs(f, dv, st, depth + 1)
        return out
    if isinstance(e, ast.Attribute):
        return {("atom", N.key(e))}
    return {("atom", N.key(e))}


def aligned(pop_sigs: Set[tuple], prob_sigs: Set[tuple]) -> Tuple[bool, str]:
    """Every (population signature, probability signature) combination must be a matching pair."""
    if not pop_sigs or not prob_sigs:
        return False, "no signature"
    for ps in pop_sigs:
        for ws in prob_sigs:
            # (iterating a mapping D yields its keys: a population `list(D)` is aligned with D.values())
            ok = (ps[0] in ("keys", "atom") and ws == ("values", ps[1])) or ws == ("map", ps) or ws == ("len", ps) \
                or (ws[0] == "map" and ws[1] == ("map", ps))  # normalised map of a map over the population
            if not ok:
                return False, f"population derives from {ps} but probabilities from {ws}"
    return True, f"population {sorted(pop_sigs)} / probabilities {sorted(prob_sigs)}"
