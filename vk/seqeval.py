"""Symbolic evaluation of 'per-bloc' list constructions.

Several generators build two parallel lists -- voter types [(bloc, kind), ...] and their shares -- and hand
them to the apportionment as dict(zip(types, compute(..., shares, n))).  Whether the two lists are parallel is
visible in how they are built, whatever the spelling: a two-level comprehension, a comprehension over the other
list, a loop of appends, or an attribute prepared by the constructor.  `evaluate` reduces each of these to

    concat over v in <source> of [elem_1(v), ..., elem_k(v)]

with the elements as expressions in the loop variable, or returns None when the construction is none of these.
"""
from __future__ import annotations

import ast
import copy
from dataclasses import dataclass
from typing import Dict, List, Optional

from . import astx
from .loader import Func, Program


@dataclass
class PerBloc:
    source: str          # text of the iterable the outer loop ranges over
    var: str             # the outer loop variable, as the elements spell it
    elems: List[ast.AST]
    func: Func           # function whose locals the elements may mention


class _Subst(ast.NodeTransformer):
    def __init__(self, m: Dict[str, ast.AST]):
        self.m = m

    def visit_Name(self, n):
        if n.id in self.m and isinstance(n.ctx, ast.Load):
            return copy.deepcopy(self.m[n.id])
        return n

    def visit_IfExp(self, n):
        self.generic_visit(n)
        t = n.test
        if isinstance(t, ast.Compare) and len(t.ops) == 1 and isinstance(t.left, ast.Constant) and isinstance(t.comparators[0], ast.Constant):
            a, b = t.left.value, t.comparators[0].value
            if isinstance(t.ops[0], ast.Eq):
                return n.body if a == b else n.orelse
            if isinstance(t.ops[0], ast.NotEq):
                return n.body if a != b else n.orelse
        return n


def subst(e: ast.AST, m: Dict[str, ast.AST]) -> ast.AST:
    return ast.fix_missing_locations(_Subst(m).visit(copy.deepcopy(e)))


def _const_list(f: Func, e: ast.AST) -> Optional[List[ast.AST]]:
    if isinstance(e, ast.Name):
        e = astx.unique_def(f.node, e.id)
    if isinstance(e, (ast.List, ast.Tuple)) and e.elts and all(isinstance(x, ast.Constant) for x in e.elts):
        return list(e.elts)
    return None


def _target_names(t: ast.AST) -> Optional[List[str]]:
    if isinstance(t, ast.Name):
        return [t.id]
    if isinstance(t, ast.Tuple) and all(isinstance(x, ast.Name) for x in t.elts):
        return [x.id for x in t.elts]
    return None


def evaluate(prog: Program, f: Func, e: ast.AST, depth: int = 0, at: Optional[ast.AST] = None) -> Optional[PerBloc]:
    if depth > 8 or e is None:
        return None
    if isinstance(e, ast.Call) and astx.u(e.func) in ("list", "tuple") and len(e.args) == 1:
        return evaluate(prog, f, e.args[0], depth + 1, at)
    if isinstance(e, ast.Attribute) and astx.is_name(e.value, "self") and f.cls is not None:
        hits = []
        for c in f.cls.mro():
            init = c.methods.get("__init__")
            if init is None:
                continue
            for n in astx.walk_own(init.node):
                if isinstance(n, ast.Assign) and len(n.targets) == 1 and astx.u(n.targets[0]) == f"self.{e.attr}":
                    hits.append((init, n.value))
        if len(hits) == 1:
            return evaluate(prog, hits[0][0], hits[0][1], depth + 1)
        return None
    if isinstance(e, ast.Name):
        defs = astx.defs_of(f.node, e.id)
        if len(defs) == 1 and defs[0][1] is not None:
            return evaluate(prog, f, defs[0][1], depth + 1)
        if len(defs) > 1 and at is not None:
            # re-bound list (p = [g(x) for x in p]): the binding that reaches the use, itself evaluated at its own position
            rd = astx.reaching_defs(f.node, e.id, at)
            if len(rd) == 1 and rd[0][1] is not None and rd[0][0] is not at:
                return evaluate(prog, f, rd[0][1], depth + 1, at=rd[0][0])
        # x = [] ; for v in S: x.append(e1); x.append(e2)
        if len(defs) == 1 or not defs:
            return None
        return None
    if isinstance(e, ast.List) and not e.elts:
        return None
    if isinstance(e, astx.LCOMP):
        gens = e.generators
        if any(g.ifs for g in gens):
            return None
        if len(gens) == 2:
            v = _target_names(gens[0].target)
            t = _target_names(gens[1].target)
            labels = _const_list(f, gens[1].iter)
            if v and len(v) == 1 and t and len(t) == 1 and labels:
                return PerBloc(astx.u(gens[0].iter), v[0], [subst(e.elt, {t[0]: lab}) for lab in labels], f)
            return None
        if len(gens) == 1:
            inner = evaluate(prog, f, gens[0].iter, depth + 1, at)
            names = _target_names(gens[0].target)
            if inner is None or names is None:
                return None
            out = []
            for el in inner.elems:
                if len(names) == 1:
                    m = {names[0]: el}
                elif isinstance(el, ast.Tuple) and len(el.elts) == len(names):
                    m = dict(zip(names, el.elts))
                else:
                    return None
                out.append(subst(e.elt, m))
            return PerBloc(inner.source, inner.var, out, inner.func if inner.func is f else f)
    return None


def evaluate_appends(prog: Program, f: Func, name: str) -> Optional[PerBloc]:
    """x = [] ; for v in S: ... x.append(e1) ... x.append(e2)   (appends unconditionally in the loop body, in order)."""
    defs = astx.defs_of(f.node, name)
    if len(defs) != 1 or not (isinstance(defs[0][1], ast.List) and not defs[0][1].elts):
        return None
    pm = astx.parents(f.node)
    apps = [c for c in astx.calls_in(f.node, "append") if isinstance(c.func, ast.Attribute) and astx.is_name(c.func.value, name)]
    others = [n for n in astx.walk_own(f.node) if isinstance(n, ast.Attribute) and astx.is_name(n.value, name) and n.attr in ("extend", "insert", "pop", "remove", "sort", "reverse")]
    if not apps or others:
        return None
    loops = {id(astx.enclosing(c, pm, ast.For)) for c in apps}
    lp = astx.enclosing(apps[0], pm, ast.For)
    if len(loops) != 1 or lp is None:
        return None
    v = _target_names(lp.target)
    if not v or len(v) != 1:
        return None
    for c in apps:
        st = astx.stmt_of(c, pm)
        if st not in lp.body or len(c.args) != 1:
            return None  # conditional or nested append: not a fixed per-bloc block
    apps.sort(key=lambda c: (c.lineno, c.col_offset))
    return PerBloc(astx.u(lp.iter), v[0], [c.args[0] for c in apps], f)


def evaluate_any(prog: Program, f: Func, e: ast.AST, at: Optional[ast.AST] = None) -> Optional[PerBloc]:
    r = evaluate(prog, f, e, 0, at)
    if r is None and isinstance(e, ast.Name):
        r = evaluate_appends(prog, f, e.id)
    return r
