"""Engine fixtures run by `./check --selfcheck` (setup): tiny positive examples every matcher must see."""
import ast

from . import algebra, astx, da


def run_all():
    bad = []
    # algebra: exact rewrites are equal, inexact ones differ
    if not algebra.spec_rat("(a - b) / a").equals(algebra.spec_rat("1 - b / a")):
        bad.append("algebra: (a-b)/a != 1-b/a")
    if algebra.spec_rat("int(N/(m+1)) + 1").key() != algebra.spec_rat("int(N/(m+1) + 1)").key():
        bad.append("algebra: floor constant extraction")
    if algebra.spec_rat("int(N/(m+1))").equals(algebra.spec_rat("int(N/m)")):
        bad.append("algebra: distinct quotas compare equal")
    ia = lambda a: True  # noqa
    if algebra.bool_key(algebra.spec_guard("m <= 0", int_atoms=ia)) != algebra.bool_key(algebra.spec_guard("m < 1", int_atoms=ia)):
        bad.append("algebra: integer comparison normal form")
    if algebra.equivalent(algebra.spec_guard("a > b"), algebra.spec_guard("a >= b")):
        bad.append("algebra: > equals >=")
    # definite assignment
    fn = ast.parse("def f(flag, xs):\n    if flag:\n        y = 1\n    for x in xs:\n        z = x\n    return y, z\n").body[0]
    names = sorted({f.name for f in da.analyse(fn)})
    if names != ["y", "z"]:
        bad.append(f"da: expected y,z unbound, got {names}")
    fn = ast.parse("def f(flag):\n    if flag:\n        y = 1\n    if flag:\n        return y\n    return 0\n").body[0]
    if da.analyse(fn):
        bad.append("da: correlated guards not recognised")
    # path conditions
    fn = ast.parse("def f(a, b):\n    if a < 0:\n        raise ValueError()\n    if b:\n        return 1\n").body[0]
    pm = astx.parents(fn)
    ret = [n for n in ast.walk(fn) if isinstance(n, ast.Return)][0]
    pc = astx.path_condition(fn, ret, pm)
    if len(pc) != 2:
        bad.append("astx: path condition with early exit")
    # order pipeline
    from . import orderpipe
    fn = ast.parse("def f(b):\n    out = []\n    for s in b.ranking:\n        out.append(frozenset(s))\n    good = tuple(out)\n    bad = tuple(sorted(out))\n    return good, bad\n").body[0]
    op = orderpipe.OrderPipe(fn)
    if op.classify(ast.parse("good", mode="eval").body)[0] != orderpipe.ORD or op.classify(ast.parse("bad", mode="eval").body)[0] != orderpipe.UNORD:
        bad.append("orderpipe: accumulator / sorted classification")
    # reaching definitions incl. loop-carried
    fn = ast.parse("def f(xs, p):\n    pop = list(xs)\n    for i in range(3):\n        pop = draw(pop, p)\n        use(pop)\n").body[0]
    use = [n for n in ast.walk(fn) if isinstance(n, ast.Call) and getattr(n.func, 'id', '') == 'draw'][0]
    if len(astx.reaching_defs(fn, "pop", use)) != 2:
        bad.append("astx: loop-carried reaching definition")
    # numeric kinds
    from . import numkind
    if numkind.arith(ast.Div(), numkind.K({numkind.INT}), numkind.K({numkind.INT})).kinds != {numkind.FLIB}:
        bad.append("numkind: int/int must be a library-created float")
    if numkind.arith(ast.Div(), numkind.K({numkind.FRAC}), numkind.K({numkind.INT})).kinds != {numkind.FRAC}:
        bad.append("numkind: Fraction/int must stay exact")
    # concatenation is not commutative, addition is
    n = algebra.Normalizer(None, inline=False)
    if n.key(ast.parse("a[i:] + a[:i]", mode="eval").body) == n.key(ast.parse("a[:i] + a[i:]", mode="eval").body):
        bad.append("algebra: sequence concatenation treated as commutative")
    if n.key(ast.parse("x + y", mode="eval").body) != n.key(ast.parse("y + x", mode="eval").body):
        bad.append("algebra: addition not commutative")
    return bad
