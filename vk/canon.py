"""Spelling-level canonicalisation of parsed trees (library modules and rule specs alike).

Comparison spelling: `not (a op b)` becomes the negated operator, `a > b` / `a >= b` become `b < a` / `b <= a`, the
operands of == / != are put in a fixed (textual) order, `if not c: A else: B` becomes `if c: B else: A`, and a two-way
branch on a comparison gets a canonical positive polarity.  Chained comparisons are left alone.
Calls: `getattr(x, "lit")` is `x.lit`; a list comprehension consumed at once by tuple / list-free reducers
(tuple, frozenset, set, sum, any, all, sorted, min, max, dict, "".join) is a generator expression;
`tuple()`, `list()`, `dict()` are `()`, `[]`, `{}`."""
import ast

NEG = {ast.Eq: ast.NotEq, ast.NotEq: ast.Eq, ast.Lt: ast.GtE, ast.GtE: ast.Lt, ast.Gt: ast.LtE, ast.LtE: ast.Gt,
       ast.In: ast.NotIn, ast.NotIn: ast.In, ast.Is: ast.IsNot, ast.IsNot: ast.Is}
CONSUMERS = {"tuple", "frozenset", "set", "sum", "any", "all", "sorted", "min", "max", "dict"}


def _as_load(t):
    import copy
    t = copy.deepcopy(t)
    for n in ast.walk(t):
        if hasattr(n, "ctx"):
            n.ctx = ast.Load()
    return t


def _always_exits(block) -> bool:
    """Every path through the block ends in return / raise / break / continue."""
    if not block:
        return False
    last = block[-1]
    if isinstance(last, (ast.Return, ast.Raise, ast.Break, ast.Continue)):
        return True
    if isinstance(last, ast.If):
        return _always_exits(last.body) and _always_exits(last.orelse)
    return False


def guard_form(stmts):
    """if c: A else: B, where one branch always leaves (return / raise / break / continue), is the guard clause
    `if <leaving condition>: <leaving branch>` followed by the other branch: one spelling for
    `if ok: work else: raise`, `if not ok: raise` + work, and `if a: return x else: return y`."""
    out = []
    for s in stmts:
        if isinstance(s, ast.If) and s.orelse:
            b_exit, o_exit = _always_exits(s.body), _always_exits(s.orelse)
            if b_exit:
                rest = s.orelse
                s.orelse = []
                out.append(s)
                out.extend(guard_form(rest))
                continue
            if o_exit:
                neg = ast.copy_location(ast.UnaryOp(op=ast.Not(), operand=s.test), s.test)
                neg = Canon().visit_UnaryOp(neg, descend=False)
                rest = s.body
                s.test, s.body, s.orelse = neg, s.orelse, []
                out.append(s)
                out.extend(guard_form(rest))
                continue
        out.append(s)
    return out


class Canon(ast.NodeTransformer):
    def visit_UnaryOp(self, node, descend=True):
        if descend:
            self.generic_visit(node)
        if isinstance(node.op, ast.Not) and isinstance(node.operand, ast.Compare) and len(node.operand.ops) == 1 and type(node.operand.ops[0]) in NEG:
            c = node.operand
            new = ast.Compare(left=c.left, ops=[NEG[type(c.ops[0])]()], comparators=c.comparators)
            return self.visit_Compare(ast.copy_location(new, node), descend=False)
        if isinstance(node.op, ast.Not) and isinstance(node.operand, ast.UnaryOp) and isinstance(node.operand.op, ast.Not):
            pass  # `not not x` is bool(x), not x: keep
        return node

    def visit_Compare(self, node, descend=True):
        if descend:
            self.generic_visit(node)
        if len(node.ops) != 1:
            return node
        # x in d.keys()  ==  x in d   (only mappings have .keys())
        c0 = node.comparators[0]
        if isinstance(node.ops[0], (ast.In, ast.NotIn)) and isinstance(c0, ast.Call) and isinstance(c0.func, ast.Attribute) and c0.func.attr == "keys" \
                and not c0.args and not c0.keywords:
            node.comparators = [c0.func.value]
        op = type(node.ops[0])
        l, r = node.left, node.comparators[0]
        if op in (ast.Gt, ast.GtE):
            return ast.copy_location(ast.Compare(left=r, ops=[ast.Lt() if op is ast.Gt else ast.LtE()], comparators=[l]), node)
        if op in (ast.Eq, ast.NotEq) and ast.unparse(r) < ast.unparse(l) and not isinstance(r, ast.Constant):
            return ast.copy_location(ast.Compare(left=r, ops=[op()], comparators=[l]), node)
        if op in (ast.Eq, ast.NotEq) and isinstance(l, ast.Constant) and not isinstance(r, ast.Constant):
            return ast.copy_location(ast.Compare(left=r, ops=[op()], comparators=[l]), node)
        return node

    def generic_visit(self, node):
        node = super().generic_visit(node)
        for fld in ("body", "orelse", "finalbody"):
            lst = getattr(node, fld, None)
            if isinstance(lst, list) and lst and isinstance(lst[0], ast.stmt):
                setattr(node, fld, guard_form(lst))
        if isinstance(node, ast.Try):
            for h in node.handlers:
                h.body = guard_form(h.body)
        return node

    def visit_Call(self, node):
        # getattr(x, "name") is x.name; getattr(x, "name", d) is (x.name if hasattr(x, "name") else d): with a
        # literal name the access is not dynamic, and the attribute read stays visible to every rule
        self.generic_visit(node)
        if isinstance(node.func, ast.Name) and node.func.id == "getattr" and not node.keywords and len(node.args) in (2, 3) \
                and isinstance(node.args[1], ast.Constant) and isinstance(node.args[1].value, str) and node.args[1].value.isidentifier():
            attr = ast.copy_location(ast.Attribute(value=node.args[0], attr=node.args[1].value, ctx=ast.Load()), node)
            if len(node.args) == 2:
                return attr
            has = ast.copy_location(ast.Call(func=ast.Name(id="hasattr", ctx=ast.Load()), args=[node.args[0], node.args[1]], keywords=[]), node)
            return ast.copy_location(ast.IfExp(test=has, body=attr, orelse=node.args[2]), node)
        fn = node.func.id if isinstance(node.func, ast.Name) else None
        # an identity comprehension is its iterable:  tuple([(k, v) for k, v in d.items()])  ==  tuple(d.items())
        if (fn in CONSUMERS or fn == "list") and len(node.args) == 1 and not node.keywords and isinstance(node.args[0], (ast.ListComp, ast.GeneratorExp)):
            lc = node.args[0]
            if len(lc.generators) == 1 and not lc.generators[0].ifs and not lc.generators[0].is_async and ast.dump(lc.elt) == ast.dump(_as_load(lc.generators[0].target)):
                node.args[0] = lc.generators[0].iter
                return node
        # a list comprehension that is consumed at once is a generator expression
        if (fn in CONSUMERS or (isinstance(node.func, ast.Attribute) and node.func.attr == "join")) and node.args and isinstance(node.args[0], ast.ListComp):
            lc = node.args[0]
            node.args[0] = ast.copy_location(ast.GeneratorExp(elt=lc.elt, generators=lc.generators), lc)
            return node
        # empty containers
        if fn in ("tuple", "list", "dict") and not node.args and not node.keywords:
            lit = {"tuple": ast.Tuple(elts=[], ctx=ast.Load()), "list": ast.List(elts=[], ctx=ast.Load()), "dict": ast.Dict(keys=[], values=[])}[fn]
            return ast.copy_location(lit, node)
        return node

    def visit_Assign(self, node):
        # x = A if c else B   ==   if c: x = A / else: x = B
        self.generic_visit(node)
        if len(node.targets) == 1 and isinstance(node.value, ast.IfExp) and isinstance(node.targets[0], (ast.Name, ast.Attribute, ast.Subscript)):
            import copy
            ie = node.value
            a = ast.copy_location(ast.Assign(targets=[copy.deepcopy(node.targets[0])], value=ie.body), node)
            b = ast.copy_location(ast.Assign(targets=[copy.deepcopy(node.targets[0])], value=ie.orelse), node)
            return self.visit_If(ast.copy_location(ast.If(test=ie.test, body=[a], orelse=[b]), node), descend=False)
        return node

    def visit_Return(self, node):
        self.generic_visit(node)
        if isinstance(node.value, ast.IfExp):
            ie = node.value
            a = ast.copy_location(ast.Return(value=ie.body), node)
            b = ast.copy_location(ast.Return(value=ie.orelse), node)
            return self.visit_If(ast.copy_location(ast.If(test=ie.test, body=[a], orelse=[b]), node), descend=False)
        return node

    def visit_If(self, node, descend=True):
        if descend:
            self.generic_visit(node)
        plain_else = node.orelse and not (len(node.orelse) == 1 and isinstance(node.orelse[0], ast.If))
        if isinstance(node.test, ast.UnaryOp) and isinstance(node.test.op, ast.Not) and plain_else:
            node.test, node.body, node.orelse = node.test.operand, node.orelse, node.body
        elif isinstance(node.test, ast.Compare) and len(node.test.ops) == 1 and plain_else:
            # canonical polarity of a two-way branch: the test is the "positive" comparison
            op = type(node.test.ops[0])
            c = node.test
            if op is ast.LtE:      # a <= b  ==  not (b < a)
                node.test = ast.copy_location(ast.Compare(left=c.comparators[0], ops=[ast.Lt()], comparators=[c.left]), c)
                node.body, node.orelse = node.orelse, node.body
            elif op in (ast.NotEq, ast.NotIn, ast.IsNot):
                pos = {ast.NotEq: ast.Eq, ast.NotIn: ast.In, ast.IsNot: ast.Is}[op]
                node.test = ast.copy_location(ast.Compare(left=c.left, ops=[pos()], comparators=c.comparators), c)
                node.body, node.orelse = node.orelse, node.body
        return node

